#!/usr/bin/env python3
"""Regenerates MANIFEST.json from the table below (kept in one place so it stays valid)."""
import json, subprocess

CHECKS = {
 "C01": ("queue-history", "exploration", "4 C01",
   "Generated submission/completion histories on every queue size and mode; after each accepted submission a reference device (written from the spec) walks the chain from the new ring slot and compares it element by element with the share() ledger and the caller's buffers, checks descriptor disjointness and the ring-slot/index discipline. Randomised search with shrinking cannot prove absence; it reaches recycled free lists, index wrap and all 16 sizes, which the unit tests do not.",
   "Trusted: the harness' reference virtqueue device and ledger Hal; the bounce platform model.",
   "proptest histories + reference split-virtqueue device (model-based oracle)"),
 "C02": ("queue-history", "exploration", "4 C02",
   "Same histories, with the reference device looking at all device-visible queue memory at every store point (feature-guarded hooks after each store): the index moves by 0/+1, the entry it newly covers validates at that instant, outstanding chains stay intact, and the index store is alone in its interval (snapshot diff, independent of hook placement).",
   "Decides program order of device-visible stores only; fence strength on weakly ordered hardware is out of reach of execution on x86-64. Trusted: hooks fire where placed; clause 3 does not depend on it.",
   "proptest histories + store-point schedule enumeration via hooks, invariant oracle"),
 "C03": ("queue-history", "exploration", "4 C03",
   "Lock-step comparison of every add/pop_used/peek_used/can_pop/available_desc result with a reference ring model under arbitrary completion permutations, wrong/stale tokens and refusals, including explicit runs of more than 65536 submissions per small size and mode; refused operations must leave queue memory, ledger and answers unchanged.",
   "Trusted: reference ring model; available_desc in indirect mode compared with the documented N-or-0 behaviour plus a behavioural free count.",
   "proptest histories + reference ring model (lock-step), long wrap runs"),
 "C04": ("queue-history", "exploration", "4 C04",
   "Same histories under a bouncing ledger Hal: exact share/unshare pairing per operation with matching range, direction, flag and device address; no platform call on refused operations; every device-visible address translates through the ledger; device-written bytes appear in caller buffers exactly at pop.",
   "Trusted: ledger Hal (bounce semantics as swiotlb: copy-in at share, copy-back at unshare).",
   "proptest histories + share/unshare ledger invariant, bounce-buffer data oracle"),
 "C05": ("notify", "exploration", "4 C05",
   "Event-index: every batch size and every placement of avail_event relative to the window, for all 65536 index values on the real queue, against vring_need_event (one-directional, as the property states), plus the full 65536x65536 (index, avail_event) table when the implementation is observed to be stateless. Flag mode, set_dev_notify and used_event re-arming are checked inside generated queue histories. The shared blocking helper is co-simulated against notify-driven, polling and late devices through a spin hook that detects a wait that can never end.",
   "Trusted: the co-simulated device follows the spec's re-arm/re-check rule. Single-threaded schedule owned by the harness; real concurrency is not explored.",
   "exhaustive predicate sweep/table + proptest co-simulation with device-policy generator"),
 "C06": ("layout", "exploration", "4 C06",
   "The full configuration grid (16 sizes x legacy/modern x 8 flag sets x in-use x 7 max-size answers x 3 DMA fault points = 10752 configurations) is enumerated on every run and a generator adds random device-address bases; geometry, containment in live DMA memory of a permitting direction, zeroed rings, refusal without side effects and exact release are computed independently of the crate.",
   "Trusted: ledger Hal and model transport. The grid is exhaustive; device-address bases are sampled.",
   "exhaustive configuration enumeration + proptest on address bases, geometry oracle"),
 "C10": ("mmio-trace", "exploration", "4 C10",
   "Every MMIO load/store of the real MmioTransport is served and recorded by a register-level virtio-mmio model (legacy and modern) plugged in through safe-mmio's custom-mmio backend; generated operation sequences and probe headers are judged per operation against access scripts/constraints derived from VirtIO 1.2 4.2.2-4.2.4 and against the model's resulting state; SomeTransport::Mmio must be trace-identical.",
   "Trusted: the virtio-mmio register model and per-operation scripts written from the specification; all MMIO goes through safe-mmio.",
   "proptest op sequences + register-level reference device, ordered-trace oracle, differential vs SomeTransport"),
 "C11": ("pci-transport", "exploration", "4 C11",
   "Generated PCI configuration spaces (capability lists in any order with duplicates, short/foreign capabilities, bar 0..255, extreme offset/length/multiplier values; BAR sets incl. I/O, unallocated, 64-bit up to 2^63) are served through ConfigurationAccess and MmioCam; an independent capability re-parser with 128-bit containment arithmetic decides which outcome is acceptable; after construction every MMIO access is served by a register-level virtio-pci model laid out as the re-parser says, so any access outside the four windows or off the standard layout is a model fault; drop must reset and poll; SomeTransport::Pci must be trace-identical.",
   "Trusted: PCI function model, re-parser, virtio-pci common-config model. Cyclic capability lists are not generated. Reserved bar values: refusing and skipping both accepted.",
   "proptest over config spaces + independent re-parser oracle + register-level reference device trace"),
 "C12": ("pci-bus", "exploration", "4 C12",
   "BAR probing against a reference PCI function (truth of kind/address/size, byte-identical configuration space afterwards incl. error returns, no sizing write while decoding is on) over generated BAR sets x command values x access mechanism; cam_offset exhaustively over all 256x32x8x64 tuples x {CAM,ECAM} with injectivity bitmap; MmioCam accesses = one 32-bit access at base+offset; enumeration and capability walking against generated bus populations.",
   "Trusted: reference PCI function model. cam_offset part is exhaustive; BAR sets and populations are sampled.",
   "proptest over BAR encodings/bus populations + exhaustive address-tuple enumeration, reference-model oracle"),
 "C13": ("config-space", "exploration", "4 C13",
   "Bounds: exhaustive grid of window sizes, access types, offsets (incl. offsets whose end overflows usize) on MMIO legacy/modern and PCI with an exact byte-coverage oracle on the bus trace. Torn reads: the five multi-field reads of the drivers with the device switching self-identifying snapshots before every single access index, every pair, and generated larger sets; the result must be one exposed snapshot.",
   "Trusted: bus trace, emulated config window, snapshot scheduler. Legacy MMIO has no generation counter: untorn reads not asserted there.",
   "exhaustive grid enumeration + schedule enumeration of device-side config updates, snapshot-membership oracle"),
}

TODO = {}
for i in range(7, 21):
    if "C%02d" % i in CHECKS:
        continue
    TODO["C%02d" % i] = "check not built yet in this round (planned, see DESIGN.md section 4)"

def main():
    hook_commits = subprocess.run(["git", "-C", "/repo", "log", "--format=%H", "--grep=^verif:"], capture_output=True, text=True).stdout.split()
    m = {
        "version": 1,
        "setup_cmd": "./run setup",
        "hooks": {
            "guard": "cargo feature verif-hooks",
            "enable": "the harness depends on virtio-drivers with features=[\"verif-hooks\"] (harness/Cargo.toml); safe-mmio's custom-mmio feature is enabled by feature unification without touching /repo",
            "baseline_off_cmd": "cd /repo && cargo test --workspace --no-fail-fast --offline",
            "source_commits": hook_commits,
            "add_only": True,
        },
        "engines": [
            {"name": "mmio-trace", "path": "harness/src/props/c10.rs", "serves_properties": ["C10"],
             "kind_free_text": "register-level virtio-mmio model behind safe-mmio custom-mmio; ordered access trace vs spec scripts"},
            {"name": "config-space", "path": "harness/src/props/c13.rs", "serves_properties": ["C13"],
             "kind_free_text": "exhaustive config-window bounds grid and config-update schedule enumeration on MMIO/PCI/model transports"},
            {"name": "pci-transport", "path": "harness/src/props/c11.rs", "serves_properties": ["C11"],
             "kind_free_text": "generated PCI config spaces + BARs, independent capability re-parser, register-level virtio-pci model"},
            {"name": "pci-bus", "path": "harness/src/props/c12.rs", "serves_properties": ["C12"],
             "kind_free_text": "reference PCI function/bus model behind ConfigurationAccess and emulated CAM/ECAM"},
            {"name": "notify", "path": "harness/src/props/c05.rs", "serves_properties": ["C05"],
             "kind_free_text": "exhaustive should_notify sweep/table on a real queue + spin-hook co-simulation of blocking helpers"},
            {"name": "layout", "path": "harness/src/props/c06.rs", "serves_properties": ["C06"],
             "kind_free_text": "exhaustive queue-creation grid + generated address bases against a geometry oracle"},
            {"name": "queue-history", "path": "harness/src/props/qh.rs", "serves_properties": ["C01", "C02", "C03", "C04", "C05"],
             "kind_free_text": "proptest-generated histories on a raw VirtQueue over a ledger Hal + model transport + reference split-virtqueue device"},
        ],
        "checks": [],
        "not_applicable": [],
        "notes": "Every check runs in two build profiles of the harness (checked: overflow-checks+debug-assertions on; wrapping: off) and merges both into one evidence file. Exit 2 = inconclusive (build failure / watchdog), never a violation.",
    }
    for pid in sorted(set(list(CHECKS) + list(TODO))):
        if pid in CHECKS:
            eng, level, ref, text, note, tech = CHECKS[pid]
            m["checks"].append({
                "property_id": pid,
                "quick_cmd": "./run %s quick" % pid,
                "thorough_cmd": "./run %s thorough" % pid,
                "evidence_file": "/verif/evidence/%s.json" % pid,
                "replay_cmd_template": "./run %s replay {path}" % pid,
                "engine": eng,
                "level_claimed": {"category": level, "text": text, "design_ref": "DESIGN.md section " + ref},
                "level_note": note,
                "technique": tech,
            })
        else:
            m["not_applicable"].append({"property_id": pid, "reason": TODO[pid]})
    json.dump(m, open("/verif/MANIFEST.json", "w"), indent=1)

main()
