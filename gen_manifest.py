#!/usr/bin/env python3
"""Regenerates MANIFEST.json from the table below (kept in one place so it stays valid)."""
import json, subprocess

CHECKS = {
 "C01": ("queue-history", "exploration", "4 C01",
   "Generated submission/completion histories on every queue size and mode; after each accepted submission a reference device (written from the spec) walks the chain from the new ring slot and compares it element by element with the share() ledger and the caller's buffers, checks descriptor disjointness and the ring-slot/index discipline. Randomised search with shrinking cannot prove absence; it reaches recycled free lists, index wrap and all 16 sizes, which the unit tests do not.",
   "Trusted: the harness' reference virtqueue device and ledger Hal; the bounce platform model.",
   "proptest histories + reference split-virtqueue device (model-based oracle)"),
 "C02": ("queue-history", "exploration", "4 C02",
   "Same histories, with the reference device looking at all device-visible queue memory at every store point (feature-guarded hooks after each store): the index moves by 0/+1, the entry it newly covers validates at that instant, outstanding chains stay intact, and the index store is alone in its interval (snapshot diff, independent of hook placement).",
   "Decides program order of device-visible stores only; fence strength on weakly ordered hardware is out of reach of execution on x86-64. Trusted: hooks fire where placed; clause 3 does not depend on it.",
   "proptest histories + store-point schedule enumeration via hooks, invariant oracle"),
 "C03": ("queue-history", "exploration", "4 C03",
   "Lock-step comparison of every add/pop_used/peek_used/can_pop/available_desc result with a reference ring model under arbitrary completion permutations, wrong/stale tokens and refusals, including explicit runs of more than 65536 submissions per small size and mode; refused operations must leave queue memory, ledger and answers unchanged.",
   "Trusted: reference ring model; available_desc in indirect mode compared with the documented N-or-0 behaviour plus a behavioural free count.",
   "proptest histories + reference ring model (lock-step), long wrap runs"),
 "C04": ("queue-history", "exploration", "4 C04",
   "Same histories under a bouncing ledger Hal: exact share/unshare pairing per operation with matching range, direction, flag and device address; no platform call on refused operations; every device-visible address translates through the ledger; device-written bytes appear in caller buffers exactly at pop.",
   "Trusted: ledger Hal (bounce semantics as swiotlb: copy-in at share, copy-back at unshare).",
   "proptest histories + share/unshare ledger invariant, bounce-buffer data oracle"),
 "C05": ("notify", "exploration", "4 C05",
   "Event-index: every batch size and every placement of avail_event relative to the window, for all 65536 index values on the real queue, against vring_need_event (one-directional, as the property states), plus the full 65536x65536 (index, avail_event) table when the implementation is observed to be stateless. Flag mode, set_dev_notify and used_event re-arming are checked inside generated queue histories. Queue histories also check should_notify against vring_need_event over the window since the previous check (covers stateful implementations). The shared blocking helper is co-simulated against notify-driven, polling and late devices through a spin hook that detects a wait that can never end, and every driver's blocking and non-blocking submission paths are run (11 drivers x 4 transports x ring-feature subsets x 3 policies) on reference devices whose non-negotiated suppression field carries a decoy.",
   "Trusted: the co-simulated device follows the spec's re-arm/re-check rule. Single-threaded schedule owned by the harness; real concurrency is not explored.",
   "exhaustive predicate sweep/table + proptest co-simulation with device-policy generator"),
 "C06": ("layout", "exploration", "4 C06",
   "The full configuration grid (16 sizes x legacy/modern x 8 flag sets x in-use x 7 max-size answers x 3 DMA fault points = 10752 configurations) is enumerated on every run and a generator adds random device-address bases; geometry, containment in live DMA memory of a permitting direction, zeroed rings, refusal without side effects and exact release are computed independently of the crate.",
   "Trusted: ledger Hal and model transport. The grid is exhaustive; device-address bases are sampled.",
   "exhaustive configuration enumeration + proptest on address bases, geometry oracle"),
 "C07": ("hostile-device", "exploration", "4 C07",
   "A chaotic reference device (wrong/repeated/never-issued used ids, oversize and huge lengths, index jumps, duplicate and withheld completions, arbitrary or plausible response bytes and configuration values, scribbling over driver-owned queue areas) against 13 targets, driven (a) by proptest over a byte-script decoder in both build profiles with a ledger Hal, an allocator interposer (posted heap block freed while the device is live) and a dead-stack-frame check, and (b) by libFuzzer with AddressSanitizer over the same decoder (out-of-bounds / use-after-free become crashes). Differential: every well-behaved history of the other driver checks is run clean and with the device overwriting the descriptor table and available ring after each fetch; outcomes must be identical.",
   "Trusted: chaotic device keeps eventually completing (blocking calls can end); caller honours the unsafe contracts; spin-budget exhaustion, timeouts and OOM are exit 2. Two recorded open findings are excluded by signature and counted.",
   "proptest + coverage-guided libFuzzer/ASan over one byte decoder; ledger/allocator-interposer/ASan oracles; differential clean vs scribbled run"),
 "C08": ("driver-sim", "exploration", "4 C08",
   "All 11 constructors x 5 transports x every subset of the feature bits the driver inspects (alone and with unsupported noise bits, plus all-ones; random 64-bit sets on top), also against a device that refuses the feature subset (FEATURES_OK never reads back as set): an automaton over the ordered transport trace checks reset -> ACKNOWLEDGE|DRIVER -> feature read -> accepted subset of offered and implemented, VERSION_1 iff offered, no ring-format bits -> FEATURES_OK -> queues -> DRIVER_OK and no notification before DRIVER_OK; a short usage phase on the driver's reference device judges the feature-gated behaviour (indirect descriptors, flush, console size/emergency write -- also when a formatted write fails because the device completes a chain that was not submitted --, EDID, net header size).",
   "Trusted: transport models map register writes to the same abstract events; 'supports' = each driver's current SUPPORTED_FEATURES. Subsets of inspected bits are enumerated completely; arbitrary 64-bit sets are sampled.",
   "exhaustive configuration enumeration + proptest, ordered-trace automaton oracle + reference devices"),
 "C09": ("driver-sim", "fault_enumeration", "4 C09",
   "For every constructor x transport x flag set x usage-script length, a dry run counts the DMA allocations of construction + usage + drop, then every allocation index is failed in turn; random fault indices/feature sets/policies and a generated usage history per driver (incl. early / out-of-order completion polls) on top. The ledger Hal and the transport model decide: failure surfaces as Err (no panic), every region returned once with its original triple, nothing live after drop, no queue memory or GPU backing released while the device is live/attached.",
   "Trusted: ledger Hal, device liveness from the transport model (reset counts as quiescing). An allocator interposer reports heap blocks freed while still shared with the live device.",
   "exhaustive DMA-fault-index enumeration + proptest, resource-ledger and liveness invariant"),
 "C10": ("mmio-trace", "exploration", "4 C10",
   "Every MMIO load/store of the real MmioTransport is served and recorded by a register-level virtio-mmio model (legacy and modern) plugged in through safe-mmio's custom-mmio backend; generated operation sequences and probe headers are judged per operation against access scripts/constraints derived from VirtIO 1.2 4.2.2-4.2.4 and against the model's resulting state; SomeTransport::Mmio must be trace-identical.",
   "Trusted: the virtio-mmio register model and per-operation scripts written from the specification; all MMIO goes through safe-mmio.",
   "proptest op sequences + register-level reference device, ordered-trace oracle, differential vs SomeTransport"),
 "C11": ("pci-transport", "exploration", "4 C11",
   "Generated PCI configuration spaces (capability lists in any order with duplicates, short/foreign capabilities, bar 0..255, extreme offset/length/multiplier values; BAR sets incl. I/O, unallocated, 64-bit up to 2^63) are served through ConfigurationAccess and MmioCam; an independent capability re-parser with 128-bit containment arithmetic decides which outcome is acceptable; after construction every MMIO access is served by a register-level virtio-pci model laid out as the re-parser says, so any access outside the four windows or off the standard layout is a model fault; drop must reset and poll; SomeTransport::Pci must be trace-identical.",
   "Trusted: PCI function model, re-parser, virtio-pci common-config model. Cyclic capability lists are not generated. Reserved bar values: refusing and skipping both accepted.",
   "proptest over config spaces + independent re-parser oracle + register-level reference device trace"),
 "C12": ("pci-bus", "exploration", "4 C12",
   "BAR probing against a reference PCI function (truth of kind/address/size, byte-identical configuration space afterwards incl. error returns, no sizing write while decoding is on) over generated BAR sets x command values x access mechanism; cam_offset exhaustively over all 256x32x8x64 tuples x {CAM,ECAM} with injectivity bitmap; MmioCam accesses = one 32-bit access at base+offset; enumeration and capability walking against generated bus populations.",
   "Trusted: reference PCI function model. cam_offset part is exhaustive; BAR sets and populations are sampled.",
   "proptest over BAR encodings/bus populations + exhaustive address-tuple enumeration, reference-model oracle"),
 "C13": ("config-space", "exploration", "4 C13",
   "Bounds: exhaustive grid of window sizes, access types, offsets (incl. offsets whose end overflows usize) on MMIO legacy/modern and PCI with an exact byte-coverage oracle on the bus trace. Torn reads: the five multi-field reads of the drivers with the device switching self-identifying snapshots before every single access index, every pair, every triple among the first accesses with snapshots that alternate between two whole values, and generated larger sets; the result must be one exposed snapshot.",
   "Trusted: bus trace, emulated config window, snapshot scheduler. Legacy MMIO has no generation counter: untorn reads not asserted there.",
   "exhaustive grid enumeration + schedule enumeration of device-side config updates, snapshot-membership oracle"),
 "C14": ("driver-sim", "exploration", "4 C14",
   "Generated histories of blocking and non-blocking block operations against a reference block device that parses every chain (header, data direction/size, status byte) and an in-memory disk compared at the end; injected statuses; device-chosen completion order for up to a queue-full of outstanding requests, with completion attempts for requests that are not at the front of the used ring (must fail and leave the posted buffers alone: the ledger reports a store into a device-writable buffer that is still shared); all transports, feature sets and device servicing policies.",
   "Trusted: reference block device written from virtio-blk 5.2; blocking calls only while nothing non-blocking is outstanding (documented precondition).",
   "proptest histories + reference device (differential in-memory disk)"),
 "C15": ("driver-sim", "exploration", "4 C15",
   "Generated device byte streams (chunks 1..4096) and interleavings of every receive/peek/buffered-read/ready/ack/send call with deliveries at generated moments and during blocking reads; oracle = stream equality, one outstanding receive buffer, re-post only after full consumption, exact transmit chains (formatted output with pieces of up to 5000 bytes compared as a byte stream), configuration space written only by a negotiated emergency write (also when the transmit fails).",
   "Trusted: reference console device; blocking reads issued only while the device still has data.",
   "proptest histories + reference device (stream-equality oracle)"),
 "C16": ("driver-sim", "exploration", "4 C16",
   "Generated histories on the raw and the buffer-managing network driver (N in {2,4,16}, +-VERSION_1, buffer sizes, all transports): exact transmit chains (zeroed 12/10-byte header + frame), received frame bytes and lengths, buffer conservation (posted + pending + caller-owned = N) after every operation, readiness queries.",
   "Trusted: reference network device; preconditions of the blocking helpers respected.",
   "proptest histories + reference device (frame equality, conservation invariant)"),
 "C17": ("driver-sim", "exploration", "4 C17",
   "Reference vsock peer tracking both credit windows and both byte streams over generated interleavings (sends, receives, peer data in any packetisation within credit, growing/shrinking/zero windows, credit requests) on every capacity/RX-buffer size/transport; plus ConnectionInfo + VirtIOSocket driven directly with steps of up to 2^32-1 so every counter crosses 2^32 within tens of operations.",
   "Trusted: reference peer (free-running u32 arithmetic); peer never claims to have consumed more than was sent; capacity 0 excluded.",
   "proptest histories + reference peer (credit invariants, stream equality), deterministic counter-wrap runs"),
 "C18": ("driver-sim", "exploration", "4 C18",
   "Lock-step reference model of the connection table over 3 peers x 3 ports with every local operation and every peer packet kind (incl. invalid ops, control packets with data, wrong CID, unknown connections); every poll result, transmitted packet and recv result compared; all receive buffers back with the device after every operation.",
   "Trusted: connection-table model; duplicate REQUESTs for an existing connection and results after peer shutdown are outside the property and not generated/compared.",
   "proptest histories + lock-step reference model"),
 "C19": ("driver-sim", "exploration", "4 C19",
   "OwningQueue for 12 (N,B) instantiations, the input driver and the sound driver's notification queue: device completes any posted buffer in any order, bursts and up to 300 burst/drain rounds; deliveries must equal completions in used-ring order with the written bytes (a completion that overstates its length may only yield an error, nothing, or the clamped whole buffer); each delivered buffer is re-posted immediately under the same token and caller address; posted + pending = N.",
   "Trusted: reference event device and ledger (buffer identity via caller address).",
   "proptest histories + reference device (order/once/replenish invariants)"),
 "C20": ("driver-sim", "exploration", "4 C20",
   "Reference GPU, sound, entropy, clock and 9P devices decode every chain against independently written specification structures, enforce command ordering, inject error/unknown/wrong-success responses, complete PCM transfers (any length, and whole numbers of periods around the queue size) with generated lag or in device-chosen order, check jack remapping on jacks that do / do not advertise it, serve arbitrary EDID blobs judged by an independent decoder; the ledger reports GPU backing released while attached.",
   "Trusted: reference devices from the specs (virtio-gpu, virtio-snd, entropy, rtc draft, 9p transport); lifetime/ordering oracles only while no device error occurred, as the property states.",
   "proptest histories + reference devices (spec-structure decode, lifetime ledger, independent EDID decoder)"),
}

TODO = {}
for i in range(7, 21):
    if "C%02d" % i in CHECKS:
        continue
    TODO["C%02d" % i] = "hostile-device check (libFuzzer/ASan + differential) not built yet; planned, see DESIGN.md section 4 C07"

def main():
    hook_commits = subprocess.run(["git", "-C", "/repo", "log", "--format=%H", "--grep=^verif:"], capture_output=True, text=True).stdout.split()
    m = {
        "version": 1,
        "setup_cmd": "./run setup",
        "hooks": {
            "guard": "cargo feature verif-hooks",
            "enable": "the harness depends on virtio-drivers with features=[\"verif-hooks\"] (harness/Cargo.toml); safe-mmio's custom-mmio feature is enabled by feature unification without touching /repo",
            "baseline_off_cmd": "cd /repo && cargo test --workspace --no-fail-fast --offline",
            "source_commits": hook_commits,
            "add_only": True,
        },
        "engines": [
            {"name": "hostile-device", "path": "harness/src/props/c07.rs", "serves_properties": ["C07"],
             "kind_free_text": "chaotic reference device + API exercisers for 13 targets; proptest (two profiles) and cargo-fuzz/libFuzzer+ASan (harness/fuzz) over the same decoder; differential scribble runs"},
            {"name": "driver-sim", "path": "harness/src/devq.rs", "serves_properties": ["C08", "C09", "C14", "C15", "C16", "C17", "C18", "C19", "C20"],
             "kind_free_text": "complete drivers on model/MMIO/PCI transports against spec-level reference devices with OnNotify/Poll/Late servicing policies and spin-hook lost-wake-up detection"},
            {"name": "mmio-trace", "path": "harness/src/props/c10.rs", "serves_properties": ["C10"],
             "kind_free_text": "register-level virtio-mmio model behind safe-mmio custom-mmio; ordered access trace vs spec scripts"},
            {"name": "config-space", "path": "harness/src/props/c13.rs", "serves_properties": ["C13"],
             "kind_free_text": "exhaustive config-window bounds grid and config-update schedule enumeration on MMIO/PCI/model transports"},
            {"name": "pci-transport", "path": "harness/src/props/c11.rs", "serves_properties": ["C11"],
             "kind_free_text": "generated PCI config spaces + BARs, independent capability re-parser, register-level virtio-pci model"},
            {"name": "pci-bus", "path": "harness/src/props/c12.rs", "serves_properties": ["C12"],
             "kind_free_text": "reference PCI function/bus model behind ConfigurationAccess and emulated CAM/ECAM"},
            {"name": "notify", "path": "harness/src/props/c05.rs", "serves_properties": ["C05"],
             "kind_free_text": "exhaustive should_notify sweep/table on a real queue + spin-hook co-simulation of blocking helpers"},
            {"name": "layout", "path": "harness/src/props/c06.rs", "serves_properties": ["C06"],
             "kind_free_text": "exhaustive queue-creation grid + generated address bases against a geometry oracle"},
            {"name": "queue-history", "path": "harness/src/props/qh.rs", "serves_properties": ["C01", "C02", "C03", "C04", "C05"],
             "kind_free_text": "proptest-generated histories on a raw VirtQueue over a ledger Hal + model transport + reference split-virtqueue device"},
        ],
        "checks": [],
        "not_applicable": [],
        "notes": "Every check runs in two build profiles of the harness (checked: overflow-checks+debug-assertions on; wrapping: off) and merges both into one evidence file. Exit 2 = inconclusive (build failure / watchdog), never a violation.",
    }
    for pid in sorted(set(list(CHECKS) + list(TODO))):
        if pid in CHECKS:
            eng, level, ref, text, note, tech = CHECKS[pid]
            m["checks"].append({
                "property_id": pid,
                "quick_cmd": "./run %s quick" % pid,
                "thorough_cmd": "./run %s thorough" % pid,
                "evidence_file": "/verif/evidence/%s.json" % pid,
                "replay_cmd_template": "./run %s replay {path}" % pid,
                "engine": eng,
                "level_claimed": {"category": level, "text": text, "design_ref": "DESIGN.md section " + ref},
                "level_note": note,
                "technique": tech,
            })
        else:
            m["not_applicable"].append({"property_id": pid, "reason": TODO[pid]})
    json.dump(m, open("/verif/MANIFEST.json", "w"), indent=1)

main()
