#![no_main]
//! Coverage-guided hostile-device search (libFuzzer + AddressSanitizer) over the same case
//! decoder as the proptest engine of C07. A violation aborts the process so that libFuzzer keeps
//! the input; clean panics of the crate under test are caught inside the target.

use libfuzzer_sys::fuzz_target;
use std::sync::Once;

static INIT: Once = Once::new();

fuzz_target!(|data: &[u8]| {
    INIT.call_once(|| {
        // after libfuzzer-sys has installed its abort-on-panic hook
        vdv::runner::install_panic_hook();
        vdv::world::install_hooks();
    });
    vdv::props::c07::fuzz_entry(None, data);
});
