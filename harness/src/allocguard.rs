//! Allocator interposer: reports when heap memory that is still shared with (posted to) a live
//! device is freed. Pass-through unless a case is running on the current thread.

use crate::world::WORLD;
use std::alloc::{GlobalAlloc, Layout, System};
use std::cell::Cell;

pub struct Guard;

thread_local! {
    static ACTIVE: Cell<bool> = const { Cell::new(false) };
    static BUSY: Cell<bool> = const { Cell::new(false) };
}

thread_local! {
    /// Injected heap exhaustion: the next allocation of exactly this (size, align) on this thread fails.
    static FAIL_NEXT: Cell<Option<(usize, usize)>> = const { Cell::new(None) };
}

/// Make the next allocation of exactly `size` bytes with alignment `align` on this thread return
/// null (once). Returns nothing; use `fail_pending` to see whether it was consumed.
pub fn fail_next(size: usize, align: usize) {
    let _ = FAIL_NEXT.try_with(|f| f.set(Some((size, align))));
}

/// Clears the injection; returns true if it had not been consumed.
pub fn fail_clear() -> bool {
    FAIL_NEXT.try_with(|f| f.take().is_some()).unwrap_or(false)
}

fn injected_failure(layout: &Layout) -> bool {
    FAIL_NEXT
        .try_with(|f| match f.get() {
            Some((s, a)) if s == layout.size() && a == layout.align() => {
                f.set(None);
                true
            }
            _ => false,
        })
        .unwrap_or(false)
}

pub fn set_active(on: bool) {
    let _ = ACTIVE.try_with(|a| a.set(on));
}

fn check(ptr: *mut u8, size: usize) {
    if size == 0 {
        return;
    }
    let active = ACTIVE.try_with(|a| a.get()).unwrap_or(false);
    if !active {
        return;
    }
    if BUSY.try_with(|b| b.replace(true)).unwrap_or(true) {
        return;
    }
    let _ = WORLD.try_with(|w| {
        if let Ok(mut w) = w.try_borrow_mut() {
            let lo = ptr as usize;
            let hi = lo + size;
            if w.hal.live_shares == 0 {
                return;
            }
            let hit = w.hal.live_share_overlapping(lo, hi).map(|r| (r.paddr, r.len, r.kind));
            if let Some((paddr, len, kind)) = hit {
                let live = w.dev.driver_ok() && w.dev.q.values().any(|q| q.ready);
                if live {
                    let status = w.dev.status;
                    w.fault_at(
                        "freed_posted",
                        format!(
                            "heap block {:#x}+{} freed while it is still shared with the device ({:?}, device address {:#x}+{}) and the device is live (status {:#x})",
                            lo, size, kind, paddr, len, status
                        ),
                        paddr,
                    );
                }
            }
        }
    });
    let _ = BUSY.try_with(|b| b.set(false));
}

// Byte-aligned allocations (Box<[u8; N]>, Vec<u8>, String) are handed out at ODD addresses, as a
// bump allocator on a bare-metal guest may do: one extra byte in front of every align-1 block.
// Code under test that silently assumes more alignment than it asked for then fails here too.
// (Applied unconditionally and consistently: alloc, dealloc and realloc agree by layout alone.)
#[inline]
fn shifted(layout: &Layout) -> Option<Layout> {
    if layout.align() == 1 && layout.size() > 0 {
        Layout::from_size_align(layout.size() + 1, 1).ok()
    } else {
        None
    }
}

unsafe impl GlobalAlloc for Guard {
    unsafe fn alloc(&self, layout: Layout) -> *mut u8 {
        if injected_failure(&layout) {
            return std::ptr::null_mut();
        }
        match shifted(&layout) {
            Some(l) => {
                let p = unsafe { System.alloc(l) };
                if p.is_null() {
                    p
                } else {
                    unsafe { p.add(1) }
                }
            }
            None => unsafe { System.alloc(layout) },
        }
    }
    unsafe fn alloc_zeroed(&self, layout: Layout) -> *mut u8 {
        if injected_failure(&layout) {
            return std::ptr::null_mut();
        }
        match shifted(&layout) {
            Some(l) => {
                let p = unsafe { System.alloc_zeroed(l) };
                if p.is_null() {
                    p
                } else {
                    unsafe { p.add(1) }
                }
            }
            None => unsafe { System.alloc_zeroed(layout) },
        }
    }
    unsafe fn dealloc(&self, ptr: *mut u8, layout: Layout) {
        check(ptr, layout.size());
        match shifted(&layout) {
            Some(l) => unsafe { System.dealloc(ptr.sub(1), l) },
            None => unsafe { System.dealloc(ptr, layout) },
        }
    }
    unsafe fn realloc(&self, ptr: *mut u8, layout: Layout, new_size: usize) -> *mut u8 {
        check(ptr, layout.size());
        match shifted(&layout) {
            Some(l) => {
                let p = unsafe { System.realloc(ptr.sub(1), l, new_size + 1) };
                if p.is_null() {
                    p
                } else {
                    unsafe { p.add(1) }
                }
            }
            None => unsafe { System.realloc(ptr, layout, new_size) },
        }
    }
}
