use serde_json::Value;
use std::time::Instant;
use vdv::props;

#[global_allocator]
static ALLOC: vdv::allocguard::Guard = vdv::allocguard::Guard;

use vdv::runner::{self, Ctx, Tier};

fn usage() -> ! {
    eprintln!("usage: vcheck <Cxx> quick|thorough | vcheck <Cxx> replay <file> | vcheck merge <Cxx> <profile>...");
    std::process::exit(2)
}

const PROFILE: &str = if cfg!(debug_assertions) { "checked" } else { "wrapping" };

fn run_check(ctx: &Ctx) -> runner::Report {
    props::run(ctx).unwrap_or_else(|| {
        eprintln!("unknown property {}", ctx.id);
        std::process::exit(2)
    })
}

fn replay(id: &str, engine: &str, case: &Value) -> Result<(), String> {
    props::replay(id, engine, case)
}

fn main() {
    let args: Vec<String> = std::env::args().collect();
    if args.len() < 3 {
        usage();
    }
    let root = std::env::var("VERIF_ROOT").unwrap_or_else(|_| "/verif".to_string());
    if args[1] == "merge" {
        let profs: Vec<&str> = args[3..].iter().map(|s| s.as_str()).collect();
        if let Err(e) = runner::merge_parts(&root, &args[2], &profs) {
            eprintln!("merge failed: {}", e);
            std::process::exit(2);
        }
        return;
    }
    runner::install_panic_hook();
    vdv::world::install_hooks();
    vdv::allocguard::set_active(true);
    let id = args[1].clone();
    let seed: u64 = std::env::var("VERIF_SEED").ok().and_then(|s| s.parse::<i64>().ok()).map(|v| v as u64).unwrap_or(0);
    let threads: usize = std::env::var("VERIF_THREADS").ok().and_then(|s| s.parse().ok()).unwrap_or(16);
    if args[2] == "gencorpus" {
        let dir = args.get(3).unwrap_or_else(|| usage());
        let n: usize = args.get(4).and_then(|s| s.parse().ok()).unwrap_or(100);
        props::c07::gencorpus(dir, n, seed);
        return;
    }
    if args[2] == "replay" {
        let path = args.get(3).unwrap_or_else(|| usage());
        let raw = std::fs::read(path).expect("cannot read replay file");
        // a JSON replay file written by the proptest engines, or a raw libFuzzer artifact
        let v: Value = match std::str::from_utf8(&raw).ok().and_then(|t| serde_json::from_str::<Value>(t).ok()).filter(|v| v.get("case").is_some()) {
            Some(v) => v,
            None => serde_json::json!({"engine": "bytes", "case": {"bytes": raw}}),
        };
        let engine = v["engine"].as_str().unwrap_or("").to_string();
        let case = v["case"].clone();
        let res = std::thread::Builder::new()
            .stack_size(1 << 30)
            .spawn(move || {
                vdv::allocguard::set_active(true);
                runner::set_quiet(true);
                replay(&id.clone(), &engine, &case).map_err(|m| (id, m))
            })
            .unwrap()
            .join()
            .unwrap();
        match res {
            Ok(()) => {
                println!("replay [{}]: property held", PROFILE);
            }
            Err((id, m)) => {
                println!("replay [{}]: {}", PROFILE, m);
                println!("VIOLATION property={} replay={}", id, path);
                std::process::exit(1);
            }
        }
        return;
    }
    let tier = match args[2].as_str() {
        "quick" => Tier::Quick,
        "thorough" => Tier::Thorough,
        _ => usage(),
    };
    // The two build profiles explore different cases for the same VERIF_SEED.
    let ctx = Ctx { id: id.clone(), tier, seed: seed.wrapping_mul(2).wrapping_add((PROFILE == "wrapping") as u64), profile: PROFILE, threads, root };
    let ext_seed = seed;
    let t0 = Instant::now();
    // committed regression inputs first
    let cdir = format!("{}/corpus/{}", ctx.root, id);
    let mut files: Vec<String> = std::fs::read_dir(&cdir)
        .map(|d| d.filter_map(|e| e.ok()).map(|e| e.path().to_string_lossy().to_string()).filter(|p| p.ends_with(".json")).collect())
        .unwrap_or_default();
    files.sort();
    let mut corpus_replayed = 0u64;
    for path in files {
        let text = std::fs::read_to_string(&path).expect("cannot read corpus file");
        let v: Value = serde_json::from_str(&text).expect("corpus file is not JSON");
        let engine = v["engine"].as_str().unwrap_or("").to_string();
        let case = v["case"].clone();
        let idc = id.clone();
        let res = std::thread::Builder::new()
            .stack_size(1 << 30)
            .spawn(move || {
                vdv::allocguard::set_active(true);
                replay(&idc, &engine, &case)
            })
            .unwrap()
            .join()
            .unwrap();
        corpus_replayed += 1;
        if let Err(m) = res {
            let mut st = runner::Stats::default();
            st.evals = corpus_replayed;
            let info = runner::PartInfo {
                level: "exploration",
                rule: "a committed regression input (corpus) failed before generation started",
                assumptions: vec![],
                exhaustive: false,
                extra: serde_json::json!({}),
            };
            runner::write_part(&ctx, ext_seed, &st, &info, t0.elapsed().as_secs_f64(), 1);
            println!("{}", m);
            println!("VIOLATION property={} replay={}", id, path);
            std::process::exit(1);
        }
    }
    let mut rep = run_check(&ctx);
    rep.stats.class_n("corpus_files_replayed", corpus_replayed);
    let wall = t0.elapsed().as_secs_f64();
    let viol = rep.failure.is_some() as u64;
    runner::write_part(&ctx, ext_seed, &rep.stats, &rep.info, wall, viol);
    let known = runner::load_known(&ctx.root);
    for (k, n) in &rep.stats.known_hits {
        let what = known.iter().find(|f| f.property == id && &f.key == k).map(|f| f.what.clone()).unwrap_or_default();
        let what: String = what.chars().take(400).collect();
        println!("KNOWN-FINDING: property={} {} [key={}; met {} times in this run and excluded from the search]", id, what.replace('\n', " "), k, n);
    }
    eprintln!(
        "[{} {} {}] evaluations={} distinct_nontrivial={} discarded={} wall={:.1}s",
        id,
        tier.name(),
        PROFILE,
        rep.stats.evals,
        rep.stats.sigs.len(),
        rep.stats.discarded,
        wall
    );
    if let Some(f) = rep.failure {
        let path = runner::write_replay(&ctx, &f);
        println!("{}", f.msg);
        println!("VIOLATION property={} replay={}", id, path);
        std::process::exit(1);
    }
}
