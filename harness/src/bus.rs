//! Register-level MMIO bus plugged in through safe-mmio's `custom-mmio` backend. No real memory
//! is behind the addresses: every load/store the crate performs is served (and recorded) here.

use crate::world::{World, WORLD};

#[derive(Clone, Copy, Debug, PartialEq, Eq, serde::Serialize)]
pub struct Access {
    pub write: bool,
    pub addr: u64,
    pub width: u8,
    pub val: u64,
}

pub trait MmioDevice {
    fn read(&mut self, w: &mut World, off: u64, width: u8) -> u64;
    fn write(&mut self, w: &mut World, off: u64, width: u8, val: u64);
}

pub struct Window {
    pub base: u64,
    pub len: u64,
    pub name: &'static str,
    pub dev: Option<Box<dyn MmioDevice>>,
}

pub struct Bus {
    pub windows: Vec<Window>,
    pub trace: Vec<Access>,
    pub trace_on: bool,
}

impl Bus {
    pub fn new() -> Self {
        Bus { windows: Vec::new(), trace: Vec::new(), trace_on: true }
    }
    pub fn map(&mut self, base: u64, len: u64, name: &'static str, dev: Box<dyn MmioDevice>) {
        self.windows.push(Window { base, len, name, dev: Some(dev) });
    }
    pub fn take_trace(&mut self) -> Vec<Access> {
        std::mem::take(&mut self.trace)
    }
}

fn access(write: bool, addr: u64, width: u8, val: u64) -> u64 {
    WORLD.with(|w| {
        let mut w = w.borrow_mut();
        let w = &mut *w;
        let mut hit = None;
        for (i, win) in w.bus.windows.iter().enumerate() {
            if addr >= win.base && (addr as u128 + width as u128) <= win.base as u128 + win.len as u128 {
                hit = Some(i);
                break;
            }
        }
        let Some(i) = hit else {
            if w.bus.trace_on && w.bus.trace.len() < 1_000_000 {
                w.bus.trace.push(Access { write, addr, width, val });
            }
            w.fault(
                "bus",
                format!(
                    "MMIO {} of {} bytes at {:#x} is outside every mapped window",
                    if write { "write" } else { "read" },
                    width,
                    addr
                ),
            );
            return if write { 0 } else { u64::MAX >> (64 - 8 * width as u32) };
        };
        // (the custom-mmio backend of safe-mmio issues one 8-byte access for any 8-byte type,
        // including types that are only 4-byte aligned; that is not the crate's doing)
        if addr % (width.min(4)) as u64 != 0 {
            w.fault("bus", format!("misaligned {}-byte MMIO access at {:#x}", width, addr));
        }
        let base = w.bus.windows[i].base;
        let mut dev = w.bus.windows[i].dev.take().expect("re-entrant MMIO access");
        let r = if write {
            dev.write(w, addr - base, width, val);
            val
        } else {
            dev.read(w, addr - base, width) & (u64::MAX >> (64 - 8 * width as u32))
        };
        if let Some(win) = w.bus.windows.get_mut(i) {
            if win.dev.is_none() {
                win.dev = Some(dev);
            }
        }
        if w.bus.trace_on && w.bus.trace.len() < 1_000_000 {
            w.bus.trace.push(Access { write, addr, width, val: r });
        }
        r
    })
}

pub struct BusOps;

impl safe_mmio::MmioOps for BusOps {
    unsafe fn read_u8(src: *const u8) -> u8 {
        access(false, src as u64, 1, 0) as u8
    }
    unsafe fn read_u16(src: *const u16) -> u16 {
        access(false, src as u64, 2, 0) as u16
    }
    unsafe fn read_u32(src: *const u32) -> u32 {
        access(false, src as u64, 4, 0) as u32
    }
    unsafe fn read_u64(src: *const u64) -> u64 {
        access(false, src as u64, 8, 0)
    }
    unsafe fn write_u8(dst: *mut u8, value: u8) {
        access(true, dst as u64, 1, value as u64);
    }
    unsafe fn write_u16(dst: *mut u16, value: u16) {
        access(true, dst as u64, 2, value as u64);
    }
    unsafe fn write_u32(dst: *mut u32, value: u32) {
        access(true, dst as u64, 4, value as u64);
    }
    unsafe fn write_u64(dst: *mut u64, value: u64) {
        access(true, dst as u64, 8, value);
    }
}

safe_mmio::set_mmio_ops!(BusOps);
