//! Device-side transport state shared by the model transport and the register-level models,
//! plus the model `Transport` implementation.

use crate::world::{call_model, with};
use virtio_drivers::transport::{DeviceStatus, DeviceType, InterruptStatus, Transport};
use virtio_drivers::{Error, PhysAddr};
use zerocopy::{FromBytes, Immutable, IntoBytes};

pub const ST_ACK: u32 = 1;
pub const ST_DRIVER: u32 = 2;
pub const ST_DRIVER_OK: u32 = 4;
pub const ST_FEATURES_OK: u32 = 8;

pub const F_INDIRECT: u64 = 1 << 28;
pub const F_EVENT_IDX: u64 = 1 << 29;
pub const F_VERSION_1: u64 = 1 << 32;
pub const F_ACCESS_PLATFORM: u64 = 1 << 33;
pub const F_RING_PACKED: u64 = 1 << 34;
pub const F_NOTIFICATION_DATA: u64 = 1 << 38;
pub const F_NOTIF_CONFIG_DATA: u64 = 1 << 39;

#[derive(Clone, Debug, Default, PartialEq, Eq)]
pub struct QState {
    pub max: u32,
    pub size: u32,
    pub desc: u64,
    pub avail: u64,
    pub used: u64,
    pub ready: bool,
    pub notifies: u64,
    /// Number of times the queue was (re)configured.
    pub sets: u32,
}

#[derive(Clone, Debug, PartialEq, Eq)]
pub enum Ev {
    Status(u32),
    ReadFeat,
    WriteFeat(u64),
    MaxQ(u16),
    QueueUsed(u16),
    QueueSet { q: u16, size: u32, desc: u64, avail: u64, used: u64 },
    QueueUnset(u16),
    Notify(u16),
    GuestPage(u32),
    AckInt(u32),
    GenRead,
    CfgRead { off: usize, len: usize },
    CfgWrite { off: usize, val: Vec<u8> },
}

pub struct DevCore {
    pub dtype: u32,
    pub offered: u64,
    pub accepted: u64,
    pub status: u32,
    pub legacy: bool,
    pub q: std::collections::BTreeMap<u16, QState>,
    pub default_max: u32,
    /// Forced answer of `queue_used` (model transport only).
    pub force_used: bool,
    pub config: Vec<u8>,
    pub cfg_missing: bool,
    pub gen: u32,
    pub isr: u32,
    pub ev: Vec<Ev>,
    pub resets: u32,
    /// Ranges of guest memory a device resource is attached to (GPU backing): (paddr, len, label).
    pub attached: Vec<(u64, u64, String)>,
    pub log_events: bool,
    /// The device refuses the driver's feature subset the way the specification provides for it:
    /// FEATURES_OK does not stay set in the status register (VirtIO 1.2 section 3.1.1 step 6). Only what
    /// the device *shows* changes; the event log keeps the values the driver wrote.
    pub no_latch_features_ok: bool,
}

impl DevCore {
    pub fn new() -> Self {
        DevCore {
            dtype: 0,
            offered: 0,
            accepted: 0,
            status: 0,
            legacy: false,
            q: Default::default(),
            default_max: 32768,
            force_used: false,
            config: Vec::new(),
            cfg_missing: false,
            gen: 0,
            isr: 0,
            ev: Vec::new(),
            resets: 0,
            attached: Vec::new(),
            log_events: true,
            no_latch_features_ok: false,
        }
    }

    pub fn log(&mut self, e: Ev) {
        if self.log_events && self.ev.len() < 200_000 {
            self.ev.push(e);
        }
    }

    pub fn queue(&mut self, i: u16) -> &mut QState {
        let max = self.default_max;
        self.q.entry(i).or_insert_with(|| QState { max, ..Default::default() })
    }

    pub fn reset(&mut self) {
        self.status = 0;
        self.accepted = 0;
        self.resets += 1;
        self.isr = 0;
        for q in self.q.values_mut() {
            q.ready = false;
            q.size = 0;
            q.desc = 0;
            q.avail = 0;
            q.used = 0;
        }
        self.attached.clear();
    }

    pub fn set_status(&mut self, v: u32) {
        self.log(Ev::Status(v));
        if v == 0 {
            self.reset();
        } else if self.no_latch_features_ok {
            self.status = v & !8;
        } else {
            self.status = v;
        }
    }

    pub fn driver_ok(&self) -> bool {
        self.status & ST_DRIVER_OK != 0
    }

    /// Index of a queue on which the device is live and whose rings intersect the range.
    pub fn live_queue_in(&self, paddr: u64, len: u64) -> Option<u16> {
        if !self.driver_ok() {
            return None;
        }
        let end = paddr as u128 + len as u128;
        for (&i, q) in self.q.iter() {
            if !q.ready {
                continue;
            }
            for a in [q.desc, q.avail, q.used] {
                if (a as u128) >= paddr as u128 && (a as u128) < end {
                    return Some(i);
                }
            }
        }
        None
    }

    pub fn attached_in(&self, paddr: u64, len: u64) -> Option<String> {
        let end = paddr as u128 + len as u128;
        for (a, l, what) in &self.attached {
            let e = *a as u128 + *l as u128;
            if (*a as u128) < end && e > paddr as u128 {
                return Some(what.clone());
            }
        }
        None
    }

    pub fn queue_set(&mut self, q: u16, size: u32, desc: u64, avail: u64, used: u64) {
        self.log(Ev::QueueSet { q, size, desc, avail, used });
        let s = self.queue(q);
        s.size = size;
        s.desc = desc;
        s.avail = avail;
        s.used = used;
        s.ready = true;
        s.sets += 1;
    }

    pub fn queue_unset(&mut self, q: u16) {
        self.log(Ev::QueueUnset(q));
        let s = self.queue(q);
        s.ready = false;
        s.size = 0;
        s.desc = 0;
        s.avail = 0;
        s.used = 0;
    }
}

/// Model transport: every call goes to the thread's `DevCore`.
pub struct MTransport {
    _private: (),
}

impl MTransport {
    pub fn new() -> Self {
        MTransport { _private: () }
    }
}

fn dtype_of(v: u32) -> DeviceType {
    DeviceType::try_from(v).unwrap_or(DeviceType::Block)
}

impl Transport for MTransport {
    fn device_type(&self) -> DeviceType {
        with(|w| dtype_of(w.dev.dtype))
    }

    fn read_device_features(&mut self) -> u64 {
        with(|w| {
            w.dev.log(Ev::ReadFeat);
            w.dev.offered
        })
    }

    fn write_driver_features(&mut self, driver_features: u64) {
        with(|w| {
            w.dev.log(Ev::WriteFeat(driver_features));
            w.dev.accepted = driver_features;
        })
    }

    fn max_queue_size(&mut self, queue: u16) -> u32 {
        with(|w| {
            w.dev.log(Ev::MaxQ(queue));
            w.dev.queue(queue).max
        })
    }

    fn notify(&mut self, queue: u16) {
        with(|w| {
            w.dev.log(Ev::Notify(queue));
            w.dev.queue(queue).notifies += 1;
        });
        call_model(|m, w| m.on_notify(w, queue));
    }

    fn get_status(&self) -> DeviceStatus {
        with(|w| DeviceStatus::from_bits_retain(w.dev.status))
    }

    fn set_status(&mut self, status: DeviceStatus) {
        let (old, new) = with(|w| {
            let old = w.dev.status;
            w.dev.set_status(status.bits());
            (old, status.bits())
        });
        call_model(|m, w| m.on_status(w, old, new));
    }

    fn set_guest_page_size(&mut self, guest_page_size: u32) {
        with(|w| w.dev.log(Ev::GuestPage(guest_page_size)));
    }

    fn requires_legacy_layout(&self) -> bool {
        with(|w| w.dev.legacy)
    }

    fn queue_set(&mut self, queue: u16, size: u32, descriptors: PhysAddr, driver_area: PhysAddr, device_area: PhysAddr) {
        with(|w| w.dev.queue_set(queue, size, descriptors, driver_area, device_area));
    }

    fn queue_unset(&mut self, queue: u16) {
        with(|w| w.dev.queue_unset(queue));
    }

    fn queue_used(&mut self, queue: u16) -> bool {
        with(|w| {
            w.dev.log(Ev::QueueUsed(queue));
            w.dev.force_used || w.dev.queue(queue).ready
        })
    }

    fn ack_interrupt(&mut self) -> InterruptStatus {
        with(|w| {
            let v = w.dev.isr;
            w.dev.log(Ev::AckInt(v));
            w.dev.isr = 0;
            InterruptStatus::from_bits_truncate(v)
        })
    }

    fn read_config_generation(&self) -> u32 {
        call_model(|m, w| m.on_config_access(w, usize::MAX, 0, false));
        with(|w| {
            w.dev.log(Ev::GenRead);
            w.dev.gen
        })
    }

    fn read_config_space<T: FromBytes + IntoBytes>(&self, offset: usize) -> Result<T, Error> {
        let len = core::mem::size_of::<T>();
        let ok = with(|w| {
            if w.dev.cfg_missing {
                return Err(Error::ConfigSpaceMissing);
            }
            match offset.checked_add(len) {
                Some(e) if e <= w.dev.config.len() => Ok(()),
                _ => Err(Error::ConfigSpaceTooSmall),
            }
        });
        ok?;
        call_model(|m, w| m.on_config_access(w, offset, len, false));
        with(|w| {
            w.dev.log(Ev::CfgRead { off: offset, len });
            Ok(T::read_from_bytes(&w.dev.config[offset..offset + len]).unwrap())
        })
    }

    fn write_config_space<T: IntoBytes + Immutable>(&mut self, offset: usize, value: T) -> Result<(), Error> {
        let len = core::mem::size_of::<T>();
        with(|w| {
            if w.dev.cfg_missing {
                return Err(Error::ConfigSpaceMissing);
            }
            match offset.checked_add(len) {
                Some(e) if e <= w.dev.config.len() => {}
                _ => return Err(Error::ConfigSpaceTooSmall),
            }
            let bytes = value.as_bytes().to_vec();
            w.dev.config[offset..offset + len].copy_from_slice(&bytes);
            w.dev.log(Ev::CfgWrite { off: offset, val: bytes });
            Ok(())
        })
    }
}

impl Drop for MTransport {
    fn drop(&mut self) {
        // Like both real transports, the model transport resets the device when dropped.
        let old = with(|w| {
            let old = w.dev.status;
            w.dev.set_status(0);
            old
        });
        call_model(|m, w| m.on_status(w, old, 0));
    }
}
