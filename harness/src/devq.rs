//! Generic simulated device: queue servers driven by a servicing policy, a per-device request
//! handler, lost-wake-up detection in the spin hook.

use crate::dev::{F_EVENT_IDX, F_INDIRECT};
use crate::ring::{Chain, RefQueue};
use crate::world::{DeviceModel, Escape, HookAction, World};
use std::cell::RefCell;
use std::rc::Rc;
use virtio_drivers::verif_hooks::Point;

/// Device servicing policy.
#[derive(Clone, Copy, Debug, PartialEq, Eq, serde::Serialize, serde::Deserialize)]
pub enum Serve {
    /// Acts only when notified (and asks for notifications): exposes lost wake-ups.
    OnNotify,
    /// Suppresses notifications and polls on every turn.
    Poll,
    /// Acts `n` spin turns after a notification.
    Late(u8),
}

thread_local! {
    /// When set, every simulated device of this thread scribbles over driver-owned queue areas
    /// after fetching (differential part of C07).
    pub static SCRIBBLE_ALL: std::cell::Cell<Option<u8>> = const { std::cell::Cell::new(None) };
}

pub struct QSrv {
    pub rq: RefQueue,
    pub notified: bool,
    pub late_left: u32,
    pub notifies: u64,
    pub notifies_unneeded: u64,
    /// queue was configured `sets` times when this server was built
    pub sets: u32,
}

pub struct Queues {
    pub v: Vec<Option<QSrv>>,
    pub policy: Serve,
    /// Per-queue override of the policy.
    pub policy_of: Vec<Option<Serve>>,
    pub interrupts: u64,
    pub completions: u64,
    /// When set, the device overwrites the descriptor table and the available ring (which it
    /// must not write) with garbage after it has fetched what it needs.
    pub scribble: Option<u8>,
    pub scribbles: u64,
    /// Write misleading values into the notification-suppression field of the mechanism that was
    /// not negotiated (see `arm`).
    pub decoys: bool,
}

impl Queues {
    pub fn new(policy: Serve) -> Self {
        Queues { v: Vec::new(), policy, policy_of: Vec::new(), interrupts: 0, completions: 0, scribble: SCRIBBLE_ALL.with(|s| s.get()), scribbles: 0, decoys: true }
    }

    /// Overwrite driver-owned queue areas of queue `q`.
    pub fn scribble_queue(&mut self, w: &mut World, q: u16) {
        let Some(seed) = self.scribble else { return };
        let Some(s) = self.v.get_mut(q as usize).and_then(|s| s.as_mut()) else { return };
        let n = s.rq.n as usize;
        self.scribbles += 1;
        let k = self.scribbles as u8;
        let garbage: Vec<u8> = (0..16 * n).map(|i| (i as u8).wrapping_mul(seed | 1).wrapping_add(k) ^ 0xa5).collect();
        let _ = w.hal.poke(s.rq.desc, &garbage);
        let _ = w.hal.poke(s.rq.avail, &garbage[..2]);
        let _ = w.hal.poke(s.rq.avail + 4, &garbage[..2 * n]);
        // ... and the available index itself, once everything in the ring has been fetched
        s.rq.scribble_avail_idx(&w.hal);
    }

    pub fn policy_for(&self, q: u16) -> Serve {
        self.policy_of.get(q as usize).copied().flatten().unwrap_or(self.policy)
    }

    /// Build (or rebuild) the server of queue `q` from the transport state.
    pub fn ensure(&mut self, w: &mut World, q: u16) -> bool {
        let qi = q as usize;
        while self.v.len() <= qi {
            self.v.push(None);
        }
        let st = w.dev.queue(q).clone();
        if !st.ready || st.size == 0 {
            self.v[qi] = None;
            return false;
        }
        let rebuild = match &self.v[qi] {
            Some(s) => s.sets != st.sets,
            None => true,
        };
        if rebuild {
            let rq = RefQueue::new(st.size, st.desc, st.avail, st.used, w.dev.accepted & F_INDIRECT != 0, w.dev.accepted & F_EVENT_IDX != 0);
            self.v[qi] = Some(QSrv { rq, notified: false, late_left: 0, notifies: 0, notifies_unneeded: 0, sets: st.sets });
            self.arm(w, q);
        }
        true
    }

    /// Tell the driver whether we want notifications, according to the policy.
    pub fn arm(&mut self, w: &mut World, q: u16) {
        let pol = self.policy_for(q);
        let decoys = self.decoys;
        let Some(s) = self.v.get_mut(q as usize).and_then(|s| s.as_mut()) else { return };
        // The field of the mechanism that was *not* negotiated is a decoy: the driver MUST ignore
        // used.flags bit 0 when EVENT_IDX was negotiated and MUST ignore avail_event when it was
        // not (VirtIO 1.2, 2.7.10.1), so the device puts there whatever would mislead a driver
        // that looks at the wrong one: "do not notify" while it waits for a notification.
        let wants_notify = !matches!(pol, Serve::Poll);
        let r = if s.rq.event_idx {
            let ev = match pol {
                Serve::Poll => s.rq.next_avail.wrapping_add(0x8000),
                _ => s.rq.next_avail,
            };
            s.rq.set_avail_event(&w.hal, ev).and_then(|_| if decoys { s.rq.set_used_flags(&w.hal, wants_notify as u16) } else { Ok(()) })
        } else {
            let decoy = if wants_notify { s.rq.next_avail.wrapping_add(0x4000) } else { s.rq.next_avail };
            s.rq.set_used_flags(&w.hal, matches!(pol, Serve::Poll) as u16).and_then(|_| if decoys { s.rq.set_avail_event(&w.hal, decoy) } else { Ok(()) })
        };
        if let Err(m) = r {
            w.fault("devmem", format!("device cannot write its notification-suppression field of queue {}: {}", q, m));
        }
    }

    /// Fetch every available chain of queue `q`.
    pub fn fetch_all(&mut self, w: &mut World, q: u16) -> Vec<Chain> {
        let mut out = Vec::new();
        if !self.ensure(w, q) {
            return out;
        }
        loop {
            let s = self.v[q as usize].as_mut().unwrap();
            match s.rq.fetch(&w.hal) {
                Ok(Some(c)) => out.push(c),
                Ok(None) => break,
                Err(m) => {
                    w.fault("chain", format!("queue {}: {}", q, m));
                    break;
                }
            }
        }
        {
            // used_event belongs to the event-index mechanism: without the feature the driver
            // has no business writing it (the ring was zeroed when the queue was created)
            let s = self.v[q as usize].as_ref().unwrap();
            if !s.rq.event_idx && self.scribble.is_none() {
                if let Ok(ue) = s.rq.used_event(&w.hal) {
                    if ue != 0 {
                        w.fault("unnegotiated", format!("queue {}: the driver wrote used_event = {} although EVENT_IDX was not negotiated", q, ue));
                    }
                }
            }
        }
        self.arm(w, q);
        // re-check after re-arming, as a real device must
        loop {
            let s = self.v[q as usize].as_mut().unwrap();
            match s.rq.fetch(&w.hal) {
                Ok(Some(c)) => out.push(c),
                _ => break,
            }
        }
        if !out.is_empty() {
            self.arm(w, q);
        }
        self.scribble_queue(w, q);
        out
    }

    pub fn pending(&self, w: &World, q: u16) -> u16 {
        match self.v.get(q as usize).and_then(|s| s.as_ref()) {
            Some(s) => s.rq.pending(&w.hal).unwrap_or(0),
            None => 0,
        }
    }

    /// Write response bytes into the chain's writable part and publish the completion.
    pub fn complete(&mut self, w: &mut World, q: u16, c: &Chain, data: &[u8]) {
        let Some(s) = self.v.get_mut(q as usize).and_then(|s| s.as_mut()) else { return };
        let n = match s.rq.write_chain(&w.hal, c, data) {
            Ok(n) => n,
            Err(m) => {
                w.fault("devmem", format!("device writing response of chain {}: {}", c.head, m));
                0
            }
        };
        self.complete_len(w, q, c, n as u32);
    }

    /// Write `data` into the chain's writable part and publish the completion with a reported
    /// length of `claimed` (a device overstating what it wrote).
    pub fn complete_claim(&mut self, w: &mut World, q: u16, c: &Chain, data: &[u8], claimed: u32) {
        let Some(s) = self.v.get_mut(q as usize).and_then(|s| s.as_mut()) else { return };
        if let Err(m) = s.rq.write_chain(&w.hal, c, data) {
            w.fault("devmem", format!("device writing response of chain {}: {}", c.head, m));
        }
        self.complete_len(w, q, c, claimed);
    }

    pub fn complete_len(&mut self, w: &mut World, q: u16, c: &Chain, len: u32) {
        let Some(s) = self.v.get_mut(q as usize).and_then(|s| s.as_mut()) else { return };
        match s.rq.push_used(&w.hal, c.head as u32, len) {
            Ok(irq) => {
                self.completions += 1;
                if irq {
                    self.interrupts += 1;
                    w.dev.isr |= 1;
                }
            }
            Err(m) => w.fault("devmem", format!("device publishing completion of chain {}: {}", c.head, m)),
        }
    }

    pub fn read(&self, w: &mut World, q: u16, c: &Chain) -> Vec<u8> {
        let Some(s) = self.v.get(q as usize).and_then(|s| s.as_ref()) else { return vec![] };
        match s.rq.read_chain_data(&w.hal, c) {
            Ok(d) => d,
            Err(m) => {
                w.fault("devmem", format!("device reading chain {}: {}", c.head, m));
                vec![]
            }
        }
    }
}

pub trait Handler {
    /// A chain was fetched from queue `q`. Complete it now through `qs`, or stash it.
    fn on_chain(&mut self, w: &mut World, qs: &mut Queues, q: u16, c: Chain);
    /// The device gets a turn (after fetches). May complete stashed chains. Returns true if it
    /// did something.
    fn on_turn(&mut self, _w: &mut World, _qs: &mut Queues) -> bool {
        false
    }
    /// Can the device still produce a completion without any further driver action?
    fn can_progress(&self, _w: &World, _qs: &Queues) -> bool {
        false
    }
    fn on_status(&mut self, _w: &mut World, _old: u32, _new: u32) {}
    fn on_config_access(&mut self, _w: &mut World, _off: usize, _len: usize, _write: bool) {}
}

pub struct SimDev<H: Handler> {
    pub qs: Queues,
    pub h: H,
    /// Number of queues the device has.
    pub nq: u16,
    /// consecutive spin turns without progress
    pub idle_spins: u32,
    pub spins_total: u64,
    pub spins_after_served: u32,
    pub max_spins_after_served: u32,
    pub notify_before_driver_ok: u64,
    pub lost_wakeups_possible: u64,
    pub last_hal_len: usize,
}

impl<H: Handler> SimDev<H> {
    pub fn new(nq: u16, policy: Serve, h: H) -> Self {
        SimDev {
            qs: Queues::new(policy),
            h,
            nq,
            idle_spins: 0,
            spins_total: 0,
            spins_after_served: 0,
            max_spins_after_served: 0,
            notify_before_driver_ok: 0,
            lost_wakeups_possible: 0,
            last_hal_len: 0,
        }
    }

    /// Switch the servicing policy. As the specification requires of a device that re-enables
    /// notifications, the rings are re-checked afterwards.
    pub fn set_policy(&mut self, w: &mut World, p: Serve) {
        self.qs.policy = p;
        for q in 0..self.nq {
            if self.qs.ensure(w, q) {
                self.qs.arm(w, q);
                if w.dev.driver_ok() && self.qs.pending(w, q) > 0 {
                    self.serve(w, q);
                }
            }
        }
        let _ = self.h.on_turn(w, &mut self.qs);
    }

    /// Serve queue `q`: fetch and hand chains to the handler.
    pub fn serve(&mut self, w: &mut World, q: u16) -> bool {
        let chains = self.qs.fetch_all(w, q);
        let did = !chains.is_empty();
        for c in chains {
            self.h.on_chain(w, &mut self.qs, q, c);
        }
        if let Some(s) = self.qs.v.get_mut(q as usize).and_then(|s| s.as_mut()) {
            s.notified = false;
        }
        did
    }

    /// A device turn that is not bound to a notification: serve whatever the policy allows.
    pub fn turn(&mut self, w: &mut World, from_spin: bool) -> bool {
        let mut did = false;
        if !w.dev.driver_ok() {
            return false;
        }
        for q in 0..self.nq {
            if !self.qs.ensure(w, q) {
                continue;
            }
            let pol = self.qs.policy_for(q);
            let s = self.qs.v[q as usize].as_mut().unwrap();
            let go = match pol {
                Serve::Poll => true,
                Serve::OnNotify => s.notified,
                Serve::Late(_) => {
                    if s.notified {
                        if from_spin && s.late_left > 0 {
                            s.late_left -= 1;
                            did = true; // time passes: that is progress
                        }
                        s.late_left == 0
                    } else {
                        false
                    }
                }
            };
            if go {
                did |= self.serve(w, q);
            }
        }
        did |= self.h.on_turn(w, &mut self.qs);
        did
    }

    pub fn spin(&mut self, w: &mut World, site: virtio_drivers::verif_hooks::SpinSite) -> HookAction {
        self.spins_total += 1;
        if w.spins <= 1 {
            // first spin of a new driver call
            self.idle_spins = 0;
        }
        // platform calls since the last spin mean the driver itself made progress
        let hl = w.hal.log.len();
        if hl != self.last_hal_len {
            self.idle_spins = 0;
            self.last_hal_len = hl;
        }
        let did = self.turn(w, true);
        if std::env::var("VDV_DEBUG").is_ok() {
            eprintln!("spin #{} at {:?}: did={} idle={}", w.spins, site, did, self.idle_spins);
        }
        if did {
            self.idle_spins = 0;
            return HookAction::Continue;
        }
        self.idle_spins += 1;
        if self.idle_spins < 3 {
            return HookAction::Continue;
        }
        // No progress for several turns. Why?
        for q in 0..self.nq {
            if self.qs.pending(w, q) > 0 {
                let pol = self.qs.policy_for(q);
                let notified = self.qs.v[q as usize].as_ref().map(|s| s.notified).unwrap_or(false);
                if !notified && !matches!(pol, Serve::Poll) {
                    return HookAction::Unwind(Escape::LostWakeup(format!(
                        "{}: driver waits while queue {} has {} available entries the device was never notified about (policy {:?}, device asked for notifications)",
                        crate::world::site_name(site),
                        q,
                        self.qs.pending(w, q),
                        pol
                    )));
                }
            }
        }
        let mut dbg = String::new();
        for q in 0..self.nq {
            if let Some(s) = self.qs.v.get(q as usize).and_then(|s| s.as_ref()) {
                dbg.push_str(&format!(
                    " q{}[avail_idx={:?} next_avail={} used_idx={} notified={} notifies={}]",
                    q,
                    s.rq.avail_idx(&w.hal),
                    s.rq.next_avail,
                    s.rq.used_idx,
                    s.notified,
                    s.notifies
                ));
            }
        }
        HookAction::Unwind(Escape::Starved(format!("{}: device has nothing to give;{}", crate::world::site_name(site), dbg)))
    }
}

/// Shared wrapper so property code can inspect the device between driver calls.
pub struct Shared<H: Handler>(pub Rc<RefCell<SimDev<H>>>);

impl<H: Handler> Clone for Shared<H> {
    fn clone(&self) -> Self {
        Shared(self.0.clone())
    }
}

impl<H: Handler + 'static> Shared<H> {
    pub fn install(dev: SimDev<H>) -> Shared<H> {
        let s = Shared(Rc::new(RefCell::new(dev)));
        crate::world::set_model(Box::new(s.clone()));
        s
    }
    pub fn with<R>(&self, f: impl FnOnce(&mut SimDev<H>) -> R) -> R {
        f(&mut self.0.borrow_mut())
    }
    /// Give the device a turn as if the driver were spinning (lets Late devices count down).
    pub fn turn_spin(&self) -> bool {
        let d = self.0.clone();
        crate::world::with(|w| d.borrow_mut().turn(w, true))
    }
    /// Give the device a turn between driver calls.
    pub fn turn(&self) -> bool {
        let d = self.0.clone();
        crate::world::with(|w| d.borrow_mut().turn(w, false))
    }
}

impl<H: Handler> DeviceModel for Shared<H> {
    fn on_notify(&mut self, w: &mut World, q: u16) {
        let mut d = self.0.borrow_mut();
        if !w.dev.driver_ok() {
            d.notify_before_driver_ok += 1;
            w.fault("notify_early", format!("available-buffer notification for queue {} before DRIVER_OK (status {:#x})", q, w.dev.status));
            return;
        }
        if !d.qs.ensure(w, q) {
            return;
        }
        let pol = d.qs.policy_for(q);
        {
            let s = d.qs.v[q as usize].as_mut().unwrap();
            s.notified = true;
            s.notifies += 1;
            if let Serve::Late(n) = pol {
                s.late_left = n as u32;
            }
        }
        match pol {
            Serve::OnNotify | Serve::Poll => {
                d.serve(w, q);
                let d = &mut *d;
                d.h.on_turn(w, &mut d.qs);
            }
            Serve::Late(0) => {
                d.serve(w, q);
            }
            Serve::Late(_) => {}
        }
    }

    fn on_point(&mut self, w: &mut World, p: Point) -> HookAction {
        match p {
            Point::Spin(site) => self.0.borrow_mut().spin(w, site),
            _ => HookAction::Continue,
        }
    }

    fn on_status(&mut self, w: &mut World, old: u32, new: u32) {
        let mut d = self.0.borrow_mut();
        if new == 0 {
            d.qs.v.clear();
        }
        d.h.on_status(w, old, new);
        if new & crate::dev::ST_DRIVER_OK != 0 && old & crate::dev::ST_DRIVER_OK == 0 {
            // a device that starts operating looks at its rings once
            for q in 0..d.nq {
                if d.qs.ensure(w, q) && d.qs.pending(w, q) > 0 {
                    d.serve(w, q);
                }
            }
            let d = &mut *d;
            let _ = d.h.on_turn(w, &mut d.qs);
        }
    }

    fn on_config_access(&mut self, w: &mut World, off: usize, len: usize, write: bool) {
        self.0.borrow_mut().h.on_config_access(w, off, len, write);
    }
}
