//! Reference devices for the command/response drivers: entropy, clock, 9P, GPU, sound.
//! Request structures are decoded from the specification's layouts (Appendix A of DESIGN.md),
//! independently of the crate's structs.

use crate::devq::{Handler, Queues};
use crate::ring::Chain;
use crate::world::World;
use std::collections::{BTreeMap, VecDeque};

fn le16(b: &[u8], o: usize) -> u16 {
    u16::from_le_bytes(b[o..o + 2].try_into().unwrap())
}
fn le32(b: &[u8], o: usize) -> u32 {
    u32::from_le_bytes(b[o..o + 4].try_into().unwrap())
}
fn le64(b: &[u8], o: usize) -> u64 {
    u64::from_le_bytes(b[o..o + 8].try_into().unwrap())
}

// ---------------------------------------------------------------------------------------------
// entropy

pub struct RngDev {
    /// fraction (x/65536) of the buffer the device fills for the next requests
    pub fill: VecDeque<u16>,
    pub served: Vec<(usize, usize)>,
    pub errors: Vec<String>,
    pub count: u64,
}

pub fn rng_byte(req: u64, i: usize) -> u8 {
    (req as u8).wrapping_mul(101) ^ (i as u8).wrapping_mul(11) ^ 0x77
}

impl Handler for RngDev {
    fn on_chain(&mut self, w: &mut World, qs: &mut Queues, q: u16, c: Chain) {
        if q != 0 || c.readable_len() != 0 || c.writable_len() == 0 {
            self.errors.push(format!("entropy request must be device-writable buffers only on queue 0: q{} {:?}", q, c.elems));
        }
        self.count += 1;
        let cap = c.writable_len();
        let f = self.fill.pop_front().unwrap_or(0xffff);
        let n = ((f as usize * (cap + 1)) >> 16).max(1).min(cap);
        let data: Vec<u8> = (0..n).map(|i| rng_byte(self.count, i)).collect();
        self.served.push((cap, n));
        qs.complete(w, q, &c, &data);
    }
}

// ---------------------------------------------------------------------------------------------
// clock

#[derive(Clone, Debug, PartialEq)]
pub enum RtcReq {
    Cfg,
    Cap(u16),
    Read(u16),
}

pub struct RtcDev {
    pub num_clocks: u16,
    /// per clock: (type, smearing, flags)
    pub caps: Vec<(u8, u8, u8)>,
    pub seen: Vec<RtcReq>,
    /// status to answer for the next requests (default 0 = OK)
    pub status: VecDeque<u8>,
    pub errors: Vec<String>,
    pub reads: u64,
}

pub fn rtc_reading(clock: u16, n: u64) -> u64 {
    0x1122_3344_0000_0000u64 ^ ((clock as u64) << 20) ^ n.wrapping_mul(1_000_003)
}

impl Handler for RtcDev {
    fn on_chain(&mut self, w: &mut World, qs: &mut Queues, q: u16, c: Chain) {
        let req = qs.read(w, q, &c);
        if q != 0 || req.len() < 8 {
            self.errors.push(format!("clock request on queue {} with {} readable bytes", q, req.len()));
            qs.complete(w, q, &c, &[5]);
            return;
        }
        let msg = le16(&req, 0);
        if req[2..8].iter().any(|&b| b != 0) {
            self.errors.push(format!("request head reserved bytes not zero: {:x?}", &req[..8]));
        }
        let st = self.status.pop_front().unwrap_or(0);
        let mut resp = vec![st, 0, 0, 0, 0, 0, 0, 0];
        match msg {
            0x1000 => {
                if req.len() != 8 || c.writable_len() != 16 {
                    self.errors.push(format!("CFG request: {} readable, {} writable bytes (expected 8/16)", req.len(), c.writable_len()));
                }
                self.seen.push(RtcReq::Cfg);
                resp.extend_from_slice(&self.num_clocks.to_le_bytes());
                resp.extend_from_slice(&[0; 6]);
            }
            0x1001 | 0x0001 => {
                if req.len() != 16 || c.writable_len() != 16 {
                    self.errors.push(format!("request {:#x}: {} readable, {} writable bytes (expected 16/16)", msg, req.len(), c.writable_len()));
                    qs.complete(w, q, &c, &[4]);
                    return;
                }
                let clock = le16(&req, 8);
                if req[10..16].iter().any(|&b| b != 0) {
                    self.errors.push("clock request reserved bytes not zero".into());
                }
                if msg == 0x1001 {
                    self.seen.push(RtcReq::Cap(clock));
                    let (t, s, f) = self.caps.get(clock as usize).copied().unwrap_or((0, 0, 0));
                    if clock >= self.num_clocks && st == 0 {
                        resp[0] = 3;
                    }
                    resp.extend_from_slice(&[t, s, f, 0, 0, 0, 0, 0]);
                } else {
                    self.seen.push(RtcReq::Read(clock));
                    self.reads += 1;
                    if clock >= self.num_clocks && st == 0 {
                        resp[0] = 3;
                    }
                    resp.extend_from_slice(&rtc_reading(clock, self.reads).to_le_bytes());
                }
            }
            other => {
                self.errors.push(format!("unknown clock message type {:#x}", other));
                resp[0] = 2;
            }
        }
        qs.complete(w, q, &c, &resp);
    }
}

// ---------------------------------------------------------------------------------------------
// 9P transport

pub struct P9Dev {
    pub seen: Vec<Vec<u8>>,
    /// (reply length, value of the size field) for the next requests; default echoes
    pub plan: VecDeque<(u16, Option<u32>)>,
    pub errors: Vec<String>,
    pub replies: Vec<Vec<u8>>,
}

impl Handler for P9Dev {
    fn on_chain(&mut self, w: &mut World, qs: &mut Queues, q: u16, c: Chain) {
        let req = qs.read(w, q, &c);
        let cap = c.writable_len();
        let rd: Vec<_> = c.elems.iter().filter(|e| !e.write).collect();
        let wr: Vec<_> = c.elems.iter().filter(|e| e.write).collect();
        if q != 0 || rd.len() != 1 || wr.len() != 1 {
            self.errors.push(format!("9p request must be one readable and one writable buffer: {:?}", c.elems));
        }
        self.seen.push(req.clone());
        let (len, size) = self.plan.pop_front().unwrap_or((0xffff, None));
        let n = ((len as usize * (cap + 1)) >> 16).max(7).min(cap);
        let mut reply: Vec<u8> = (0..n).map(|i| (i as u8).wrapping_mul(3) ^ (req.len() as u8)).collect();
        let sz = size.unwrap_or(n as u32);
        if n >= 4 {
            reply[..4].copy_from_slice(&sz.to_le_bytes());
        }
        self.replies.push(reply.clone());
        qs.complete(w, q, &c, &reply);
    }
}

// ---------------------------------------------------------------------------------------------
// GPU

#[derive(Clone, Debug, PartialEq)]
pub enum GpuCmd {
    GetDisplayInfo,
    Create2d { id: u32, format: u32, w: u32, h: u32 },
    Unref { id: u32 },
    SetScanout { rect: [u32; 4], scanout: u32, id: u32 },
    Flush { rect: [u32; 4], id: u32 },
    Transfer { rect: [u32; 4], offset: u64, id: u32 },
    Attach { id: u32, entries: Vec<(u64, u32)> },
    Detach { id: u32 },
    GetEdid { scanout: u32 },
    UpdateCursor { scanout: u32, x: u32, y: u32, id: u32, hot_x: u32, hot_y: u32 },
    MoveCursor { scanout: u32, x: u32, y: u32, id: u32, hot_x: u32, hot_y: u32 },
    Unknown(u32),
}

#[derive(Clone, Debug, Default)]
pub struct GpuRes {
    pub w: u32,
    pub h: u32,
    pub backing: Option<(u64, u32)>,
    pub transferred: bool,
}

pub struct GpuDev {
    pub width: u32,
    pub height: u32,
    pub res: BTreeMap<u32, GpuRes>,
    pub scanout: Option<u32>,
    pub log: Vec<GpuCmd>,
    pub errors: Vec<String>,
    /// response type override for the n-th control command from now (0 = next)
    pub inject: BTreeMap<u64, u32>,
    pub cmd_no: u64,
    pub device_errors: u64,
    pub edid: Vec<u8>,
    pub edid_size: u32,
    /// answers of the device, in order
    pub answers: Vec<u32>,
    pub injected: u64,
}

impl GpuDev {
    pub fn new(width: u32, height: u32) -> Self {
        GpuDev {
            width,
            height,
            res: BTreeMap::new(),
            scanout: None,
            log: vec![],
            errors: vec![],
            inject: BTreeMap::new(),
            cmd_no: 0,
            device_errors: 0,
            edid: vec![0; 1024],
            edid_size: 0,
            answers: vec![],
            injected: 0,
        }
    }

    fn hdr_ok(&mut self, b: &[u8]) {
        let flags = le32(b, 4);
        let fence = le64(b, 8);
        let ctx = le32(b, 16);
        let pad = le32(b, 20);
        if flags != 0 || fence != 0 || ctx != 0 || pad != 0 {
            self.errors.push(format!("control header with flags {:#x} fence {:#x} ctx {:#x} padding {:#x}", flags, fence, ctx, pad));
        }
    }

    fn rect(b: &[u8], o: usize) -> [u32; 4] {
        [le32(b, o), le32(b, o + 4), le32(b, o + 8), le32(b, o + 12)]
    }

    pub fn decode(&mut self, b: &[u8]) -> GpuCmd {
        if b.len() < 24 {
            self.errors.push(format!("command shorter than a control header: {} bytes", b.len()));
            return GpuCmd::Unknown(0);
        }
        self.hdr_ok(b);
        let need = |me: &mut Self, n: usize, name: &str| -> bool {
            if b.len() < n {
                me.errors.push(format!("{} needs {} bytes, chain carries {}", name, n, b.len()));
                false
            } else {
                true
            }
        };
        let pad0 = |me: &mut Self, o: usize, name: &str| {
            if le32(b, o) != 0 {
                me.errors.push(format!("{}: padding at offset {} is {:#x}", name, o, le32(b, o)));
            }
        };
        match le32(b, 0) {
            0x100 => GpuCmd::GetDisplayInfo,
            0x101 if need(self, 40, "RESOURCE_CREATE_2D") => GpuCmd::Create2d { id: le32(b, 24), format: le32(b, 28), w: le32(b, 32), h: le32(b, 36) },
            0x102 if need(self, 32, "RESOURCE_UNREF") => {
                pad0(self, 28, "RESOURCE_UNREF");
                GpuCmd::Unref { id: le32(b, 24) }
            }
            0x103 if need(self, 48, "SET_SCANOUT") => GpuCmd::SetScanout { rect: Self::rect(b, 24), scanout: le32(b, 40), id: le32(b, 44) },
            0x104 if need(self, 48, "RESOURCE_FLUSH") => {
                pad0(self, 44, "RESOURCE_FLUSH");
                GpuCmd::Flush { rect: Self::rect(b, 24), id: le32(b, 40) }
            }
            0x105 if need(self, 56, "TRANSFER_TO_HOST_2D") => {
                pad0(self, 52, "TRANSFER_TO_HOST_2D");
                GpuCmd::Transfer { rect: Self::rect(b, 24), offset: le64(b, 40), id: le32(b, 48) }
            }
            0x106 if need(self, 32, "RESOURCE_ATTACH_BACKING") => {
                let n = le32(b, 28) as usize;
                let mut entries = Vec::new();
                if n > 16 || !need(self, 32 + 16 * n, "RESOURCE_ATTACH_BACKING entries") {
                    self.errors.push(format!("RESOURCE_ATTACH_BACKING with {} entries", n));
                } else {
                    for i in 0..n {
                        let o = 32 + 16 * i;
                        entries.push((le64(b, o), le32(b, o + 8)));
                        pad0(self, o + 12, "mem entry");
                    }
                }
                GpuCmd::Attach { id: le32(b, 24), entries }
            }
            0x107 if need(self, 32, "RESOURCE_DETACH_BACKING") => {
                pad0(self, 28, "RESOURCE_DETACH_BACKING");
                GpuCmd::Detach { id: le32(b, 24) }
            }
            0x10a if need(self, 32, "GET_EDID") => {
                pad0(self, 28, "GET_EDID");
                GpuCmd::GetEdid { scanout: le32(b, 24) }
            }
            t @ (0x300 | 0x301) if need(self, 56, "UPDATE/MOVE_CURSOR") => {
                pad0(self, 36, "cursor pos");
                pad0(self, 52, "cursor command");
                let (scanout, x, y, id, hot_x, hot_y) = (le32(b, 24), le32(b, 28), le32(b, 32), le32(b, 40), le32(b, 44), le32(b, 48));
                if t == 0x300 {
                    GpuCmd::UpdateCursor { scanout, x, y, id, hot_x, hot_y }
                } else {
                    GpuCmd::MoveCursor { scanout, x, y, id, hot_x, hot_y }
                }
            }
            other => GpuCmd::Unknown(other),
        }
    }
}

impl Handler for GpuDev {
    fn on_chain(&mut self, w: &mut World, qs: &mut Queues, q: u16, c: Chain) {
        let b = qs.read(w, q, &c);
        let cmd = self.decode(&b);
        self.log.push(cmd.clone());
        if q == 1 {
            // cursor queue: no response
            if c.writable_len() != 0 {
                self.errors.push("cursor command with a device-writable part".into());
            }
            if !matches!(cmd, GpuCmd::UpdateCursor { .. } | GpuCmd::MoveCursor { .. }) {
                self.errors.push(format!("{:?} on the cursor queue", cmd));
            }
            qs.complete_len(w, q, &c, 0);
            return;
        }
        if matches!(cmd, GpuCmd::UpdateCursor { .. } | GpuCmd::MoveCursor { .. }) {
            self.errors.push(format!("{:?} on the control queue", cmd));
        }
        let no = self.cmd_no;
        self.cmd_no += 1;
        let mut resp_type = 0x1100u32;
        let mut body: Vec<u8> = Vec::new();
        let err = |me: &mut Self, t: u32| {
            me.device_errors += 1;
            t
        };
        let natural = match &cmd {
            GpuCmd::GetDisplayInfo => 0x1101,
            GpuCmd::GetEdid { .. } => 0x1104,
            _ => 0x1100,
        };
        let injected = self.inject.remove(&no).filter(|t| *t != natural);
        if let Some(t) = injected {
            self.injected += 1;
            resp_type = t;
            if !(0x1100..0x1200).contains(&t) {
                self.device_errors += 1;
            } else if t == 0x1101 || t == 0x1104 {
                // a success type that is wrong for most commands
            }
            // an injected response does not execute the command
        } else {
            match &cmd {
                GpuCmd::GetDisplayInfo => {
                    resp_type = 0x1101;
                    for i in 0..16 {
                        if i == 0 {
                            for v in [0, 0, self.width, self.height, 1, 0] {
                                body.extend_from_slice(&u32::to_le_bytes(v));
                            }
                        } else {
                            body.extend_from_slice(&[0u8; 24]);
                        }
                    }
                }
                GpuCmd::Create2d { id, format, w: rw, h: rh } => {
                    if *id == 0 || self.res.contains_key(id) {
                        resp_type = err(self, 0x1203);
                    } else if *format != 1 {
                        self.errors.push(format!("RESOURCE_CREATE_2D with format {}", format));
                        resp_type = err(self, 0x1205);
                    } else {
                        self.res.insert(*id, GpuRes { w: *rw, h: *rh, backing: None, transferred: false });
                    }
                }
                GpuCmd::Unref { id } => {
                    if let Some(r) = self.res.remove(id) {
                        if let Some((a, _)) = r.backing {
                            w.dev.attached.retain(|x| x.0 != a);
                        }
                        if self.scanout == Some(*id) {
                            self.scanout = None;
                        }
                    } else {
                        resp_type = err(self, 0x1203);
                    }
                }
                GpuCmd::SetScanout { rect, scanout, id } => {
                    if *scanout != 0 {
                        resp_type = err(self, 0x1202);
                    } else if *id == 0 {
                        self.scanout = None;
                    } else {
                        match self.res.get(id) {
                            Some(r) if r.backing.is_none() => {
                                self.errors.push(format!("SET_SCANOUT of resource {:#x} before a backing was attached", id));
                                resp_type = err(self, 0x1200);
                            }
                            Some(r) => {
                                if rect[0] as u64 + rect[2] as u64 > r.w as u64 || rect[1] as u64 + rect[3] as u64 > r.h as u64 {
                                    resp_type = err(self, 0x1204);
                                } else {
                                    self.scanout = Some(*id);
                                }
                            }
                            None => {
                                self.errors.push(format!("SET_SCANOUT of resource {:#x} that was never created", id));
                                resp_type = err(self, 0x1203);
                            }
                        }
                    }
                }
                GpuCmd::Transfer { id, .. } => match self.res.get_mut(id) {
                    Some(r) if r.backing.is_some() => r.transferred = true,
                    Some(_) => {
                        self.errors.push(format!("TRANSFER_TO_HOST_2D of resource {:#x} without backing", id));
                        resp_type = err(self, 0x1200);
                    }
                    None => resp_type = err(self, 0x1203),
                },
                GpuCmd::Flush { id, .. } => match self.res.get_mut(id) {
                    Some(r) => {
                        if !r.transferred {
                            self.errors.push(format!("RESOURCE_FLUSH of resource {:#x} without a preceding TRANSFER_TO_HOST_2D", id));
                        }
                        r.transferred = false;
                    }
                    None => resp_type = err(self, 0x1203),
                },
                GpuCmd::Attach { id, entries } => match self.res.get_mut(id) {
                    Some(r) if r.backing.is_none() && entries.len() == 1 => {
                        let (a, l) = entries[0];
                        // the advertised range must be live DMA memory the device may read
                        if let Err(m) = w.hal.translate(a, l as usize, false) {
                            self.errors.push(format!("RESOURCE_ATTACH_BACKING of {:#x}+{}: {}", a, l, m));
                        }
                        if (l as u64) < r.w as u64 * r.h as u64 * 4 {
                            self.errors.push(format!("backing of {} bytes for a {}x{} resource", l, r.w, r.h));
                        }
                        r.backing = Some((a, l));
                        w.dev.attached.push((a, l as u64, format!("backing of GPU resource {:#x}", id)));
                    }
                    Some(_) => resp_type = err(self, 0x1200),
                    None => {
                        self.errors.push(format!("RESOURCE_ATTACH_BACKING to resource {:#x} that was never created", id));
                        resp_type = err(self, 0x1203);
                    }
                },
                GpuCmd::Detach { id } => match self.res.get_mut(id) {
                    Some(r) => {
                        if let Some((a, _)) = r.backing.take() {
                            w.dev.attached.retain(|x| x.0 != a);
                        } else {
                            resp_type = err(self, 0x1200);
                        }
                    }
                    None => resp_type = err(self, 0x1203),
                },
                GpuCmd::GetEdid { scanout } => {
                    if *scanout != 0 {
                        resp_type = err(self, 0x1202);
                    } else {
                        resp_type = 0x1104;
                        body.extend_from_slice(&self.edid_size.to_le_bytes());
                        body.extend_from_slice(&[0; 4]);
                        body.extend_from_slice(&self.edid);
                    }
                }
                GpuCmd::UpdateCursor { .. } | GpuCmd::MoveCursor { .. } => resp_type = err(self, 0x1200),
                GpuCmd::Unknown(_) => resp_type = err(self, 0x1200),
            }
        }
        self.answers.push(resp_type);
        let mut resp = Vec::with_capacity(24 + body.len());
        resp.extend_from_slice(&resp_type.to_le_bytes());
        resp.extend_from_slice(&[0u8; 20]);
        resp.extend_from_slice(&body);
        qs.complete(w, q, &c, &resp);
    }
}

// ---------------------------------------------------------------------------------------------
// sound

#[derive(Clone, Debug, PartialEq)]
pub enum SndReq {
    JackInfo { start: u32, count: u32, size: u32 },
    JackRemap { jack: u32, association: u32, sequence: u32 },
    PcmInfo { start: u32, count: u32, size: u32 },
    SetParams { stream: u32, buffer_bytes: u32, period_bytes: u32, features: u32, channels: u8, format: u8, rate: u8 },
    Prepare(u32),
    Release(u32),
    Start(u32),
    Stop(u32),
    ChmapInfo { start: u32, count: u32, size: u32 },
    Unknown(u32),
}

#[derive(Clone, Debug)]
pub struct SndStream {
    pub features: u32,
    pub formats: u64,
    pub rates: u64,
    pub direction: u8,
    pub ch_min: u8,
    pub ch_max: u8,
    pub params_set: bool,
    pub period: u32,
}

pub struct SoundDev {
    pub jacks: Vec<(u32, u32, u32, u32, u8)>,
    pub streams: Vec<SndStream>,
    pub chmaps: Vec<(u32, u8, u8, [u8; 18])>,
    pub ctl_log: Vec<SndReq>,
    /// status answered to each control request
    pub ctl_answers: Vec<u32>,
    /// status override for the n-th control request from now
    pub inject: BTreeMap<u64, u32>,
    pub ctl_no: u64,
    pub errors: Vec<String>,
    /// tx chains held, in arrival order: (chain, stream id, payload)
    pub tx_held: VecDeque<(Chain, u32, Vec<u8>)>,
    /// every tx message in arrival order: (stream id, payload, number of readable buffers)
    pub tx_log: Vec<(u32, Vec<u8>)>,
    /// complete held transfers only once this many are outstanding (generated timing), or on turns
    pub lag: usize,
    pub tx_status: VecDeque<u32>,
    pub max_outstanding: usize,
    /// event-queue buffers (queue 1)
    pub ev_posted: Vec<Chain>,
    pub hold_all: bool,
    /// a slow device: it lets this many turns pass before each completion it makes on a turn
    pub patience: u32,
    pub patience_left: u32,
}

impl SoundDev {
    pub fn new(streams: Vec<SndStream>, jacks: Vec<(u32, u32, u32, u32, u8)>, chmaps: Vec<(u32, u8, u8, [u8; 18])>) -> Self {
        SoundDev {
            jacks,
            streams,
            chmaps,
            ctl_log: vec![],
            ctl_answers: vec![],
            inject: BTreeMap::new(),
            ctl_no: 0,
            errors: vec![],
            tx_held: VecDeque::new(),
            tx_log: vec![],
            lag: 0,
            tx_status: VecDeque::new(),
            max_outstanding: 0,
            ev_posted: vec![],
            hold_all: false,
            patience: 0,
            patience_left: 0,
        }
    }

    pub fn complete_front(&mut self, w: &mut World, qs: &mut Queues) -> bool {
        let Some((c, _, _)) = self.tx_held.pop_front() else { return false };
        let st = self.tx_status.pop_front().unwrap_or(0x8000);
        let mut r = st.to_le_bytes().to_vec();
        r.extend_from_slice(&64u32.to_le_bytes());
        qs.complete(w, 2, &c, &r);
        true
    }

    pub fn complete_nth(&mut self, w: &mut World, qs: &mut Queues, k: usize) -> Option<(u32, Vec<u8>, u16)> {
        if k >= self.tx_held.len() {
            return None;
        }
        let (c, s, p) = self.tx_held.remove(k).unwrap();
        let st = self.tx_status.pop_front().unwrap_or(0x8000);
        let mut r = st.to_le_bytes().to_vec();
        r.extend_from_slice(&64u32.to_le_bytes());
        qs.complete(w, 2, &c, &r);
        Some((s, p, c.head))
    }

    fn control(&mut self, w: &mut World, qs: &mut Queues, c: Chain) {
        let b = qs.read(w, 0, &c);
        let no = self.ctl_no;
        self.ctl_no += 1;
        if b.len() < 4 {
            self.errors.push("control request shorter than its header".into());
            qs.complete(w, 0, &c, &0x8001u32.to_le_bytes());
            return;
        }
        let code = le32(&b, 0);
        let mut status = 0x8000u32;
        let mut body: Vec<u8> = Vec::new();
        let want_len = |me: &mut Self, n: usize, name: &str| -> bool {
            if b.len() != n {
                me.errors.push(format!("{} request of {} bytes, specification says {}", name, b.len(), n));
                false
            } else {
                true
            }
        };
        let req = match code {
            1 | 0x100 | 0x200 => {
                if !want_len(self, 16, "query-info") {
                    SndReq::Unknown(code)
                } else {
                    let (start, count, size) = (le32(&b, 4), le32(&b, 8), le32(&b, 12));
                    let (n_items, item) = match code {
                        1 => (self.jacks.len(), 24),
                        0x100 => (self.streams.len(), 32),
                        _ => (self.chmaps.len(), 24),
                    };
                    if size != item {
                        self.errors.push(format!("query-info {:#x} with item size {}, specification says {}", code, size, item));
                    }
                    if start as u64 + count as u64 > n_items as u64 {
                        status = 0x8001;
                    } else {
                        for i in start..start + count {
                            let i = i as usize;
                            match code {
                                1 => {
                                    let j = self.jacks[i];
                                    body.extend_from_slice(&j.0.to_le_bytes());
                                    body.extend_from_slice(&j.1.to_le_bytes());
                                    body.extend_from_slice(&j.2.to_le_bytes());
                                    body.extend_from_slice(&j.3.to_le_bytes());
                                    body.push(j.4);
                                    body.extend_from_slice(&[0; 7]);
                                }
                                0x100 => {
                                    let s = &self.streams[i];
                                    body.extend_from_slice(&(i as u32 + 100).to_le_bytes());
                                    body.extend_from_slice(&s.features.to_le_bytes());
                                    body.extend_from_slice(&s.formats.to_le_bytes());
                                    body.extend_from_slice(&s.rates.to_le_bytes());
                                    body.extend_from_slice(&[s.direction, s.ch_min, s.ch_max, 0, 0, 0, 0, 0]);
                                }
                                _ => {
                                    let m = self.chmaps[i];
                                    body.extend_from_slice(&m.0.to_le_bytes());
                                    body.push(m.1);
                                    body.push(m.2);
                                    body.extend_from_slice(&m.3);
                                }
                            }
                        }
                    }
                    match code {
                        1 => SndReq::JackInfo { start, count, size },
                        0x100 => SndReq::PcmInfo { start, count, size },
                        _ => SndReq::ChmapInfo { start, count, size },
                    }
                }
            }
            2 => {
                if want_len(self, 16, "JACK_REMAP") {
                    let jack = le32(&b, 4);
                    if jack as usize >= self.jacks.len() {
                        status = 0x8001;
                    }
                    SndReq::JackRemap { jack, association: le32(&b, 8), sequence: le32(&b, 12) }
                } else {
                    SndReq::Unknown(code)
                }
            }
            0x101 => {
                if want_len(self, 24, "PCM_SET_PARAMS") {
                    let stream = le32(&b, 4);
                    if b[23] != 0 {
                        self.errors.push("PCM_SET_PARAMS padding not zero".into());
                    }
                    let r = SndReq::SetParams { stream, buffer_bytes: le32(&b, 8), period_bytes: le32(&b, 12), features: le32(&b, 16), channels: b[20], format: b[21], rate: b[22] };
                    if let Some(s) = self.streams.get_mut(stream as usize) {
                        if self.inject.get(&no).is_none() {
                            s.params_set = true;
                            s.period = le32(&b, 12);
                        }
                    } else {
                        status = 0x8001;
                    }
                    r
                } else {
                    SndReq::Unknown(code)
                }
            }
            0x102..=0x105 => {
                if want_len(self, 8, "PCM stream command") {
                    let stream = le32(&b, 4);
                    if stream as usize >= self.streams.len() {
                        status = 0x8001;
                    }
                    match code {
                        0x102 => SndReq::Prepare(stream),
                        0x103 => SndReq::Release(stream),
                        0x104 => SndReq::Start(stream),
                        _ => SndReq::Stop(stream),
                    }
                } else {
                    SndReq::Unknown(code)
                }
            }
            other => {
                status = 0x8002;
                SndReq::Unknown(other)
            }
        };
        self.ctl_log.push(req);
        if let Some(s) = self.inject.remove(&no) {
            status = s;
            if s != 0x8000 {
                body.clear();
            }
        }
        let mut resp = status.to_le_bytes().to_vec();
        if status == 0x8000 {
            resp.extend_from_slice(&body);
        }
        self.ctl_answers.push(status);
        qs.complete(w, 0, &c, &resp);
    }
}

impl Handler for SoundDev {
    fn on_chain(&mut self, w: &mut World, qs: &mut Queues, q: u16, c: Chain) {
        match q {
            0 => self.control(w, qs, c),
            1 => {
                if c.readable_len() != 0 {
                    self.errors.push("event buffer with a device-readable part".into());
                }
                self.ev_posted.push(c);
            }
            2 => {
                let b = qs.read(w, 2, &c);
                if b.len() < 4 || c.writable_len() != 8 {
                    self.errors.push(format!("tx message with {} readable and {} writable bytes (needs stream id + frames, and an 8-byte status)", b.len(), c.writable_len()));
                    qs.complete(w, 2, &c, &0x8001u32.to_le_bytes());
                    return;
                }
                let stream = le32(&b, 0);
                let payload = b[4..].to_vec();
                match self.streams.get(stream as usize) {
                    Some(s) => {
                        if !s.params_set {
                            self.errors.push(format!("tx message for stream {} before PCM_SET_PARAMS", stream));
                        } else if payload.len() as u64 > s.period as u64 {
                            self.errors.push(format!("tx message of {} bytes exceeds the period of {} bytes", payload.len(), s.period));
                        }
                        if payload.is_empty() {
                            self.errors.push("tx message without frames".into());
                        }
                    }
                    None => self.errors.push(format!("tx message for unknown stream {}", stream)),
                }
                self.tx_log.push((stream, payload.clone()));
                self.tx_held.push_back((c, stream, payload));
                self.max_outstanding = self.max_outstanding.max(self.tx_held.len());
                if !self.hold_all {
                    while self.tx_held.len() > self.lag {
                        self.complete_front(w, qs);
                    }
                }
            }
            _ => {
                self.errors.push(format!("chain on queue {}", q));
                qs.complete_len(w, q, &c, 0);
            }
        }
    }

    fn on_turn(&mut self, w: &mut World, qs: &mut Queues) -> bool {
        if !self.hold_all && !self.tx_held.is_empty() {
            // generated timing: one more completion per turn, or per `patience`+1 turns
            if self.patience_left > 0 {
                self.patience_left -= 1;
                return true; // time passes
            }
            self.patience_left = self.patience;
            return self.complete_front(w, qs);
        }
        false
    }
}
