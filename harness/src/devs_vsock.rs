//! Reference vsock peer device: parses every packet the driver transmits, injects peer packets
//! into posted receive buffers.

use crate::devq::{Handler, Queues};
use crate::ring::Chain;
use crate::world::World;
use std::collections::VecDeque;

#[derive(Clone, Debug, PartialEq, Eq, serde::Serialize, serde::Deserialize)]
pub struct Pkt {
    pub src_cid: u64,
    pub dst_cid: u64,
    pub src_port: u32,
    pub dst_port: u32,
    pub len: u32,
    pub ty: u16,
    pub op: u16,
    pub flags: u32,
    pub buf_alloc: u32,
    pub fwd_cnt: u32,
    /// payload (only the first bytes are kept for very large packets)
    pub payload: Vec<u8>,
    /// true payload length on the wire
    pub wire_len: usize,
}

impl Pkt {
    pub fn header_bytes(&self) -> Vec<u8> {
        let mut b = Vec::with_capacity(44);
        b.extend_from_slice(&self.src_cid.to_le_bytes());
        b.extend_from_slice(&self.dst_cid.to_le_bytes());
        b.extend_from_slice(&self.src_port.to_le_bytes());
        b.extend_from_slice(&self.dst_port.to_le_bytes());
        b.extend_from_slice(&self.len.to_le_bytes());
        b.extend_from_slice(&self.ty.to_le_bytes());
        b.extend_from_slice(&self.op.to_le_bytes());
        b.extend_from_slice(&self.flags.to_le_bytes());
        b.extend_from_slice(&self.buf_alloc.to_le_bytes());
        b.extend_from_slice(&self.fwd_cnt.to_le_bytes());
        b
    }
    pub fn parse(h: &[u8]) -> Pkt {
        let u64at = |o: usize| u64::from_le_bytes(h[o..o + 8].try_into().unwrap());
        let u32at = |o: usize| u32::from_le_bytes(h[o..o + 4].try_into().unwrap());
        let u16at = |o: usize| u16::from_le_bytes(h[o..o + 2].try_into().unwrap());
        Pkt {
            src_cid: u64at(0),
            dst_cid: u64at(8),
            src_port: u32at(16),
            dst_port: u32at(20),
            len: u32at(24),
            ty: u16at(28),
            op: u16at(30),
            flags: u32at(32),
            buf_alloc: u32at(36),
            fwd_cnt: u32at(40),
            payload: vec![],
            wire_len: 0,
        }
    }
}

pub struct VsockDev {
    pub rx_posted: VecDeque<Chain>,
    pub tx: Vec<Pkt>,
    pub errors: Vec<String>,
    pub injected: u64,
    /// keep at most this many payload bytes of transmitted packets
    pub keep: usize,
    pub rx_sizes: Vec<usize>,
}

impl VsockDev {
    pub fn new() -> Self {
        VsockDev { rx_posted: VecDeque::new(), tx: vec![], errors: vec![], injected: 0, keep: 1 << 20, rx_sizes: vec![] }
    }

    /// Deliver a packet to the driver. Returns false if no receive buffer is posted or it is too
    /// small (a real device would wait).
    pub fn inject(&mut self, w: &mut World, qs: &mut Queues, p: &Pkt, payload: &[u8]) -> bool {
        let Some(c) = self.rx_posted.front() else { return false };
        if c.writable_len() < 44 + payload.len() {
            return false;
        }
        let c = self.rx_posted.pop_front().unwrap();
        let mut b = p.header_bytes();
        b.extend_from_slice(payload);
        qs.complete(w, 0, &c, &b);
        self.injected += 1;
        true
    }
}

impl Handler for VsockDev {
    fn on_chain(&mut self, w: &mut World, qs: &mut Queues, q: u16, c: Chain) {
        match q {
            0 => {
                if c.readable_len() != 0 || c.elems.len() != 1 {
                    self.errors.push(format!("receive buffer must be one device-writable buffer: {:?}", c.elems));
                }
                self.rx_sizes.push(c.writable_len());
                self.rx_posted.push_back(c);
            }
            1 => {
                if c.writable_len() != 0 {
                    self.errors.push(format!("transmit chain has device-writable parts: {:?}", c.elems));
                }
                // The device must not depend on how the driver splits a packet over descriptors
                // (VirtIO 1.2 §2.7.4.2): the packet is the concatenation of the device-readable
                // parts, its first 44 bytes the header, the rest the payload.
                let rd: Vec<_> = c.elems.iter().filter(|e| !e.write).collect();
                let total: usize = rd.iter().map(|e| e.len as usize).sum();
                if total < 44 {
                    self.errors.push(format!("transmit chain shorter than the 44-byte header: {:?}", c.elems));
                    qs.complete_len(w, 1, &c, 0);
                    return;
                }
                let mut stream: Vec<u8> = Vec::new();
                let mut left = 44 + self.keep;
                for e in &rd {
                    if left == 0 {
                        break;
                    }
                    let n = (e.len as usize).min(left);
                    match w.hal.dev_read(e.addr, n) {
                        Ok(d) => stream.extend_from_slice(&d),
                        Err(m) => {
                            self.errors.push(m);
                            stream.extend(core::iter::repeat(0).take(n));
                        }
                    }
                    left -= n;
                }
                let mut p = Pkt::parse(&stream[..44]);
                let wire = total - 44;
                p.wire_len = wire;
                p.payload.extend_from_slice(&stream[44..]);
                if p.len as usize != wire {
                    self.errors.push(format!("header len {} but {} payload bytes on the wire", p.len, wire));
                }
                if p.ty != 1 {
                    self.errors.push(format!("packet type {} (stream sockets are type 1)", p.ty));
                }
                self.tx.push(p);
                qs.complete_len(w, 1, &c, 0);
            }
            _ => {
                self.errors.push(format!("chain on queue {}", q));
                qs.complete_len(w, q, &c, 0);
            }
        }
    }
}
