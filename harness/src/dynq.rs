//! Size-erased access to `VirtQueue<LHal, N>` for every supported power-of-two size.

use crate::dev::MTransport;
use crate::hal::LHal;
use virtio_drivers::queue::VirtQueue;
use virtio_drivers::transport::Transport;
use virtio_drivers::Result;

pub trait DynQueue {
    /// # Safety
    /// As `VirtQueue::add`.
    unsafe fn add<'a, 'b>(&mut self, ins: &'a [&'b [u8]], outs: &'a mut [&'b mut [u8]]) -> Result<u16>;
    /// # Safety
    /// As `VirtQueue::pop_used`.
    unsafe fn pop_used<'a>(&mut self, token: u16, ins: &'a [&'a [u8]], outs: &'a mut [&'a mut [u8]]) -> Result<u32>;
    fn peek_used(&self) -> Option<u16>;
    fn can_pop(&self) -> bool;
    fn available_desc(&self) -> usize;
    fn should_notify(&self) -> bool;
    fn set_dev_notify(&mut self, enable: bool);
    fn add_notify_wait_pop<'a>(&mut self, ins: &'a [&'a [u8]], outs: &'a mut [&'a mut [u8]], t: &mut MTransport) -> Result<u32>;
}

impl<const N: usize> DynQueue for VirtQueue<LHal, N> {
    unsafe fn add<'a, 'b>(&mut self, ins: &'a [&'b [u8]], outs: &'a mut [&'b mut [u8]]) -> Result<u16> {
        unsafe { VirtQueue::add(self, ins, outs) }
    }
    unsafe fn pop_used<'a>(&mut self, token: u16, ins: &'a [&'a [u8]], outs: &'a mut [&'a mut [u8]]) -> Result<u32> {
        unsafe { VirtQueue::pop_used(self, token, ins, outs) }
    }
    fn peek_used(&self) -> Option<u16> {
        VirtQueue::peek_used(self)
    }
    fn can_pop(&self) -> bool {
        VirtQueue::can_pop(self)
    }
    fn available_desc(&self) -> usize {
        VirtQueue::available_desc(self)
    }
    fn should_notify(&self) -> bool {
        VirtQueue::should_notify(self)
    }
    fn set_dev_notify(&mut self, enable: bool) {
        VirtQueue::set_dev_notify(self, enable)
    }
    fn add_notify_wait_pop<'a>(&mut self, ins: &'a [&'a [u8]], outs: &'a mut [&'a mut [u8]], t: &mut MTransport) -> Result<u32> {
        VirtQueue::add_notify_wait_pop(self, ins, outs, t)
    }
}

#[inline(never)]
fn mk<T: Transport, const N: usize>(t: &mut T, idx: u16, indirect: bool, event_idx: bool, ap: bool) -> Result<Box<dyn DynQueue>> {
    let q = VirtQueue::<LHal, N>::new(t, idx, indirect, event_idx, ap)?;
    Ok(Box::new(q))
}

/// Create a queue of size `2^log2`.
pub fn new_queue<T: Transport>(log2: u8, t: &mut T, idx: u16, indirect: bool, event_idx: bool, ap: bool) -> Result<Box<dyn DynQueue>> {
    match log2 {
        0 => mk::<T, 1>(t, idx, indirect, event_idx, ap),
        1 => mk::<T, 2>(t, idx, indirect, event_idx, ap),
        2 => mk::<T, 4>(t, idx, indirect, event_idx, ap),
        3 => mk::<T, 8>(t, idx, indirect, event_idx, ap),
        4 => mk::<T, 16>(t, idx, indirect, event_idx, ap),
        5 => mk::<T, 32>(t, idx, indirect, event_idx, ap),
        6 => mk::<T, 64>(t, idx, indirect, event_idx, ap),
        7 => mk::<T, 128>(t, idx, indirect, event_idx, ap),
        8 => mk::<T, 256>(t, idx, indirect, event_idx, ap),
        9 => mk::<T, 512>(t, idx, indirect, event_idx, ap),
        10 => mk::<T, 1024>(t, idx, indirect, event_idx, ap),
        11 => mk::<T, 2048>(t, idx, indirect, event_idx, ap),
        12 => mk::<T, 4096>(t, idx, indirect, event_idx, ap),
        13 => mk::<T, 8192>(t, idx, indirect, event_idx, ap),
        14 => mk::<T, 16384>(t, idx, indirect, event_idx, ap),
        15 => mk::<T, 32768>(t, idx, indirect, event_idx, ap),
        _ => panic!("unsupported queue size 2^{}", log2),
    }
}
