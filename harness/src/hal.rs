//! Ledger `Hal`: synthetic device address space, bounce buffers, full record of every call.

use crate::world::{with, World};
use std::alloc::{alloc_zeroed, dealloc, Layout};
use std::collections::BTreeMap;
use std::ptr::NonNull;
use virtio_drivers::{BufferDirection, Hal, PhysAddr, PAGE_SIZE};

#[derive(Clone, Copy, PartialEq, Eq, Debug, Hash)]
pub enum Dir {
    ToDev,
    FromDev,
    Both,
}

impl From<BufferDirection> for Dir {
    fn from(d: BufferDirection) -> Self {
        match d {
            BufferDirection::DriverToDevice => Dir::ToDev,
            BufferDirection::DeviceToDriver => Dir::FromDev,
            BufferDirection::Both => Dir::Both,
        }
    }
}

#[derive(Clone, Copy, PartialEq, Eq, Debug)]
pub enum Kind {
    Dma { pages: usize },
    /// A shared caller buffer. `vaddr` is the caller's address; `bounce` tells whether `host`
    /// is a separate copy.
    Share { vaddr: usize, bounce: bool },
}

#[derive(Clone, Debug)]
pub struct Region {
    pub paddr: u64,
    pub host: *mut u8,
    pub len: usize,
    pub dir: Dir,
    pub ap: bool,
    pub live: bool,
    pub kind: Kind,
}

#[derive(Clone, Copy, Debug, PartialEq, Eq)]
pub enum HalEv {
    Alloc(usize),
    AllocFailed { pages: usize },
    Dealloc(usize),
    Share(usize),
    Unshare(usize),
    BadUnshare { paddr: u64, vaddr: usize, len: usize },
    BadDealloc { paddr: u64 },
    PhysToVirt { paddr: u64, size: usize },
}

pub struct HalState {
    pub regions: Vec<Region>,
    /// live regions by start paddr
    pub live: BTreeMap<u64, usize>,
    /// every region ever created, by start paddr (for diagnosing stale addresses)
    pub all: BTreeMap<u64, usize>,
    pub log: Vec<HalEv>,
    pub next_dma: u64,
    pub next_share: u64,
    /// the n-th share() call (1-based) is mapped at device address 0, a perfectly legal IOVA
    pub zero_share_at: Option<u64>,
    /// how the device translates addresses (Some(flag) = the platform distinguishes mappings made
    /// with and without ACCESS_PLATFORM)
    pub dev_ap: Option<bool>,
    pub share_calls: u64,
    pub alloc_calls: u64,
    /// 1-based index of the dma_alloc call that must fail.
    pub fail_alloc_at: Option<u64>,
    pub bounce: bool,
    /// virtual = physical + this for mmio_phys_to_virt.
    pub mmio_offset: u64,
    pub poison: u8,
    /// Fill the caller's copy of a device-writable buffer with `posted_fill` while it is shared:
    /// its contents are indeterminate until the completion is consumed (the device may write it at
    /// any time), and a driver that reads it earlier must not get the right bytes by luck of
    /// bouncing. The bytes present at `share` time are preserved in the bounce copy and come back at
    /// `unshare`, exactly as without the fill.
    pub poison_posted: bool,
    pub posted_fill: u8,
    pub live_dma: usize,
    pub live_shares: usize,
    /// live shares by caller (virtual) address -> region index
    pub live_by_vaddr: BTreeMap<usize, usize>,
}

pub const DMA_BASE_DEFAULT: u64 = 0x0000_0012_3400_0000; // > 4 GiB so that high words matter
pub const SHARE_BASE: u64 = 0x0000_5a00_0000_0000;

impl HalState {
    pub fn new() -> Self {
        HalState {
            regions: Vec::new(),
            live: BTreeMap::new(),
            all: BTreeMap::new(),
            log: Vec::new(),
            next_dma: DMA_BASE_DEFAULT,
            next_share: SHARE_BASE + 0x31,
            zero_share_at: None,
            dev_ap: None,
            share_calls: 0,
            alloc_calls: 0,
            fail_alloc_at: None,
            bounce: true,
            mmio_offset: 0,
            poison: 0xdd,
            poison_posted: false,
            posted_fill: 0xc7,
            live_dma: 0,
            live_shares: 0,
            live_by_vaddr: BTreeMap::new(),
        }
    }

    fn find(&self, iova: u64) -> Option<usize> {
        self.live.range(..=iova).next_back().map(|(_, &i)| i)
    }

    /// Translate a device access. `write` = the device writes.
    pub fn translate(&self, iova: u64, len: usize, write: bool) -> Result<*mut u8, String> {
        let Some(i) = self.find(iova) else {
            return Err(self.describe_bad(iova, len));
        };
        let r = &self.regions[i];
        let end = iova as u128 + len as u128;
        if end > r.paddr as u128 + r.len as u128 {
            return Err(self.describe_bad(iova, len));
        }
        // On a platform where ACCESS_PLATFORM matters the device's accesses go through the IOMMU
        // exactly when the feature was negotiated; a region mapped the other way is unreachable.
        if let Some(ap) = self.dev_ap {
            if r.ap != ap {
                return Err(format!(
                    "device access to [{:#x},+{}): region {:?} was mapped with access_platform={} but the device translates with access_platform={} and cannot reach it",
                    iova, len, r.kind, r.ap, ap
                ));
            }
        }
        let ok = match r.dir {
            Dir::Both => true,
            Dir::ToDev => !write,
            Dir::FromDev => write,
        };
        if !ok {
            return Err(format!(
                "device {} of [{:#x},+{}) not permitted: region {:?} at {:#x} has direction {:?}",
                if write { "write" } else { "read" },
                iova,
                len,
                r.kind,
                r.paddr,
                r.dir
            ));
        }
        Ok(unsafe { r.host.add((iova - r.paddr) as usize) })
    }

    fn describe_bad(&self, iova: u64, len: usize) -> String {
        if let Some((_, &i)) = self.all.range(..=iova).next_back() {
            let r = &self.regions[i];
            if (iova as u128) < r.paddr as u128 + r.len as u128 {
                return format!(
                    "device address [{:#x},+{}) is not legal now: it points into {:?} at {:#x} (len {}) which is {}",
                    iova,
                    len,
                    r.kind,
                    r.paddr,
                    r.len,
                    if r.live { "live but too short" } else { "no longer shared/allocated" }
                );
            }
        }
        format!(
            "device address [{:#x},+{}) was never obtained from share or dma_alloc",
            iova, len
        )
    }

    /// Device read, ignoring direction when `any_dir` (used for diagnostics only).
    pub fn dev_read(&self, iova: u64, len: usize) -> Result<Vec<u8>, String> {
        let p = self.translate(iova, len, false)?;
        let mut v = vec![0u8; len];
        unsafe { std::ptr::copy_nonoverlapping(p, v.as_mut_ptr(), len) };
        Ok(v)
    }

    /// Read device-visible memory regardless of direction (for snapshots by the oracle, not a
    /// device action).
    pub fn peek(&self, iova: u64, len: usize) -> Result<Vec<u8>, String> {
        let Some(i) = self.find(iova) else {
            return Err(self.describe_bad(iova, len));
        };
        let r = &self.regions[i];
        if iova as u128 + len as u128 > r.paddr as u128 + r.len as u128 {
            return Err(self.describe_bad(iova, len));
        }
        let p = unsafe { r.host.add((iova - r.paddr) as usize) };
        let mut v = vec![0u8; len];
        unsafe { std::ptr::copy_nonoverlapping(p, v.as_mut_ptr(), len) };
        Ok(v)
    }

    pub fn dev_write(&self, iova: u64, data: &[u8]) -> Result<(), String> {
        let p = self.translate(iova, data.len(), true)?;
        unsafe { std::ptr::copy_nonoverlapping(data.as_ptr(), p, data.len()) };
        Ok(())
    }

    /// Write regardless of direction (hostile device).
    pub fn poke(&self, iova: u64, data: &[u8]) -> Result<(), String> {
        let Some(i) = self.find(iova) else {
            return Err(self.describe_bad(iova, data.len()));
        };
        let r = &self.regions[i];
        if iova as u128 + data.len() as u128 > r.paddr as u128 + r.len as u128 {
            return Err(self.describe_bad(iova, data.len()));
        }
        let p = unsafe { r.host.add((iova - r.paddr) as usize) };
        unsafe { std::ptr::copy_nonoverlapping(data.as_ptr(), p, data.len()) };
        Ok(())
    }

    pub fn rd16(&self, iova: u64) -> Result<u16, String> {
        let p = self.translate(iova, 2, false)?;
        Ok(unsafe { (p as *const u16).read_volatile() })
    }
    pub fn rd32(&self, iova: u64) -> Result<u32, String> {
        let p = self.translate(iova, 4, false)?;
        Ok(unsafe { (p as *const u32).read_volatile() })
    }
    pub fn rd64(&self, iova: u64) -> Result<u64, String> {
        let p = self.translate(iova, 8, false)?;
        Ok(unsafe { (p as *const u64).read_unaligned() })
    }
    pub fn wr16(&self, iova: u64, v: u16) -> Result<(), String> {
        let p = self.translate(iova, 2, true)?;
        unsafe { (p as *mut u16).write_volatile(v) };
        Ok(())
    }
    pub fn wr32(&self, iova: u64, v: u32) -> Result<(), String> {
        let p = self.translate(iova, 4, true)?;
        unsafe { (p as *mut u32).write_volatile(v) };
        Ok(())
    }

    /// A live share whose caller buffer overlaps `[lo, hi)`.
    pub fn live_share_overlapping(&self, lo: usize, hi: usize) -> Option<&Region> {
        // buffers are at most 2^32 bytes; look at the nearest share starting below `hi`
        for (&va, &i) in self.live_by_vaddr.range(..hi).rev().take(4) {
            let r = &self.regions[i];
            if va < hi && va + r.len > lo {
                return Some(r);
            }
        }
        None
    }

    pub fn live_share_count(&self) -> usize {
        self.live_shares
    }
    pub fn live_dma_count(&self) -> usize {
        self.live_dma
    }

    /// The live share whose device address is exactly `paddr`.
    pub fn share_at(&self, paddr: u64) -> Option<&Region> {
        self.live
            .get(&paddr)
            .map(|&i| &self.regions[i])
            .filter(|r| matches!(r.kind, Kind::Share { .. }))
    }

    pub fn region_containing(&self, iova: u64, len: usize) -> Option<&Region> {
        let i = self.find(iova)?;
        let r = &self.regions[i];
        if iova as u128 + len as u128 <= r.paddr as u128 + r.len as u128 {
            Some(r)
        } else {
            None
        }
    }

    fn dma_layout(pages: usize) -> Layout {
        Layout::from_size_align(pages.max(1) * PAGE_SIZE, PAGE_SIZE).unwrap()
    }
}

impl Drop for HalState {
    fn drop(&mut self) {
        for r in &self.regions {
            match r.kind {
                Kind::Dma { pages } => unsafe { dealloc(r.host, Self::dma_layout(pages)) },
                Kind::Share { bounce: true, .. } => unsafe {
                    drop(Vec::from_raw_parts(r.host, r.len, r.len));
                },
                _ => {}
            }
        }
    }
}

/// The `Hal` implementation handed to the crate under test.
pub struct LHal;

fn dma_alloc_impl(w: &mut World, pages: usize, dir: BufferDirection, ap: bool) -> (u64, NonNull<u8>) {
    let h = &mut w.hal;
    h.alloc_calls += 1;
    // a platform has finite DMA memory: requests above 16 MiB fail (keeps hostile-device cases,
    // where a device reports absurd sizes, cheap)
    if h.fail_alloc_at == Some(h.alloc_calls) || pages > 4096 {
        h.log.push(HalEv::AllocFailed { pages });
        return (0, NonNull::dangling());
    }
    let layout = HalState::dma_layout(pages);
    let host = unsafe { alloc_zeroed(layout) };
    assert!(!host.is_null());
    let paddr = h.next_dma;
    h.next_dma += (pages.max(1) * PAGE_SIZE) as u64 + PAGE_SIZE as u64 * 3;
    let idx = h.regions.len();
    h.regions.push(Region {
        paddr,
        host,
        len: pages * PAGE_SIZE,
        dir: dir.into(),
        ap,
        live: true,
        kind: Kind::Dma { pages },
    });
    h.live.insert(paddr, idx);
    h.all.insert(paddr, idx);
    h.live_dma += 1;
    h.log.push(HalEv::Alloc(idx));
    (paddr, NonNull::new(host).unwrap())
}

fn dma_dealloc_impl(w: &mut World, paddr: u64, vaddr: NonNull<u8>, pages: usize, ap: bool) {
    let found = w.hal.live.get(&paddr).copied();
    let Some(idx) = found else {
        w.hal.log.push(HalEv::BadDealloc { paddr });
        let stale = w.hal.all.contains_key(&paddr);
        w.fault(
            "dealloc",
            format!(
                "dma_dealloc(paddr={:#x}, pages={}) does not match a live DMA allocation ({})",
                paddr,
                pages,
                if stale { "already deallocated: double free" } else { "never allocated" }
            ),
        );
        return;
    };
    let r = w.hal.regions[idx].clone();
    let Kind::Dma { pages: p0 } = r.kind else {
        w.fault("dealloc", format!("dma_dealloc of a shared buffer address {:#x}", paddr));
        return;
    };
    if r.host != vaddr.as_ptr() || p0 != pages || r.ap != ap {
        w.fault(
            "dealloc",
            format!(
                "dma_dealloc(paddr={:#x}, vaddr={:p}, pages={}, ap={}) differs from allocation (vaddr={:p}, pages={}, ap={})",
                paddr, vaddr.as_ptr(), pages, ap, r.host, p0, r.ap
            ),
        );
    }
    // Is a live queue still pointing into this region?
    if let Some(q) = w.dev.live_queue_in(r.paddr, r.len as u64) {
        w.fault(
            "quiesce",
            format!(
                "DMA region {:#x} (+{}) released while the device is live on queue {} (status {:#x})",
                r.paddr, r.len, q, w.dev.status
            ),
        );
    }
    if let Some(what) = w.dev.attached_in(r.paddr, r.len as u64) {
        w.fault(
            "attached",
            format!("DMA region {:#x} (+{}) released while still attached: {}", r.paddr, r.len, what),
        );
    }
    let h = &mut w.hal;
    h.regions[idx].live = false;
    h.live.remove(&paddr);
    h.live_dma -= 1;
    unsafe { std::ptr::write_bytes(r.host, h.poison, r.len) };
    h.log.push(HalEv::Dealloc(idx));
}

fn share_impl(w: &mut World, buf: NonNull<[u8]>, dir: BufferDirection, ap: bool) -> u64 {
    let len = buf.len();
    let vaddr = buf.as_ptr() as *mut u8 as usize;
    if matches!(dir, BufferDirection::Both) {
        w.fault("share", format!("share() of {:#x}+{} with direction Both", vaddr, len));
    }
    if len == 0 {
        w.fault("share", format!("share() of an empty buffer at {:#x}", vaddr));
    }
    let h = &mut w.hal;
    h.share_calls += 1;
    let at_zero = h.zero_share_at == Some(h.share_calls) && !h.live.contains_key(&0) && h.live.range(..len as u64 + 1).next().is_none();
    let paddr = if at_zero { 0 } else { h.next_share };
    // never reuse, never aligned the same way twice
    if !at_zero {
        h.next_share += len as u64 + 1 + (len as u64 * 7 + h.regions.len() as u64 * 3) % 61;
    }
    let (host, bounce) = if h.bounce {
        let mut v = vec![0u8; len];
        unsafe { std::ptr::copy_nonoverlapping(vaddr as *const u8, v.as_mut_ptr(), len) };
        let p = v.as_mut_ptr();
        std::mem::forget(v);
        if h.poison_posted && matches!(dir, BufferDirection::DeviceToDriver) {
            unsafe { std::ptr::write_bytes(vaddr as *mut u8, h.posted_fill, len) };
        }
        (p, true)
    } else {
        (vaddr as *mut u8, false)
    };
    let idx = h.regions.len();
    h.regions.push(Region {
        paddr,
        host,
        len,
        dir: dir.into(),
        ap,
        live: true,
        kind: Kind::Share { vaddr, bounce },
    });
    h.live.insert(paddr, idx);
    h.all.insert(paddr, idx);
    h.live_by_vaddr.insert(vaddr, idx);
    h.live_shares += 1;
    h.log.push(HalEv::Share(idx));
    paddr
}

fn unshare_impl(w: &mut World, paddr: u64, buf: NonNull<[u8]>, dir: BufferDirection, ap: bool) {
    let len = buf.len();
    let vaddr = buf.as_ptr() as *mut u8 as usize;
    let found = w.hal.live.get(&paddr).copied();
    let ok = found.filter(|&i| matches!(w.hal.regions[i].kind, Kind::Share { .. }));
    let Some(idx) = ok else {
        w.hal.log.push(HalEv::BadUnshare { paddr, vaddr, len });
        let stale = w.hal.all.get(&paddr).map(|&i| !w.hal.regions[i].live).unwrap_or(false);
        w.fault(
            "unshare",
            format!(
                "unshare(paddr={:#x}, buf={:#x}+{}) does not match a live share ({})",
                paddr,
                vaddr,
                len,
                if stale { "already unshared: second unshare" } else { "address never returned by share" }
            ),
        );
        return;
    };
    let r = w.hal.regions[idx].clone();
    let Kind::Share { vaddr: v0, bounce } = r.kind else { unreachable!() };
    let d: Dir = dir.into();
    if v0 != vaddr || r.len != len || r.dir != d || r.ap != ap {
        w.fault(
            "unshare",
            format!(
                "unshare(paddr={:#x}, buf={:#x}+{}, {:?}, ap={}) differs from share(buf={:#x}+{}, {:?}, ap={})",
                paddr, vaddr, len, d, ap, v0, r.len, r.dir, r.ap
            ),
        );
    }
    if bounce && w.hal.poison_posted && r.dir == Dir::FromDev && v0 == vaddr && r.len == len {
        // The caller's copy was filled when the buffer was shared; nobody on the driver side may
        // touch a device-writable buffer until its completion has been consumed. A byte that
        // changed was written by the driver while the device owned the buffer: on a platform that
        // shares in place (no bounce copy) that store lands on top of what the device wrote.
        let cur = unsafe { std::slice::from_raw_parts(vaddr as *const u8, len) };
        if let Some(k) = cur.iter().position(|&b| b != w.hal.posted_fill) {
            let fill = w.hal.posted_fill;
            let n = cur.iter().filter(|&&b| b != fill).count();
            w.fault(
                "share",
                format!(
                    "the driver stored into a device-writable buffer while it was shared with the device: {} byte(s) of {:#x}+{} changed between share and unshare, first at offset {} (now {:#x}); on a platform that shares buffers in place this overwrites what the device wrote there",
                    n, vaddr, len, k, cur[k]
                ),
            );
        }
    }
    let h = &mut w.hal;
    if bounce && r.dir != Dir::ToDev && v0 == vaddr && r.len == len {
        // copy device-written data back *now*
        unsafe { std::ptr::copy_nonoverlapping(r.host, vaddr as *mut u8, len) };
    }
    h.regions[idx].live = false;
    h.live.remove(&paddr);
    if h.live_by_vaddr.get(&v0) == Some(&idx) {
        h.live_by_vaddr.remove(&v0);
    }
    h.live_shares -= 1;
    if bounce {
        unsafe { std::ptr::write_bytes(r.host, h.poison, r.len) };
    }
    h.log.push(HalEv::Unshare(idx));
}

unsafe impl Hal for LHal {
    fn dma_alloc(pages: usize, direction: BufferDirection, access_platform: bool) -> (PhysAddr, NonNull<u8>) {
        with(|w| dma_alloc_impl(w, pages, direction, access_platform))
    }

    unsafe fn dma_dealloc(paddr: PhysAddr, vaddr: NonNull<u8>, pages: usize, access_platform: bool) -> i32 {
        with(|w| dma_dealloc_impl(w, paddr, vaddr, pages, access_platform));
        0
    }

    unsafe fn mmio_phys_to_virt(paddr: PhysAddr, size: usize) -> NonNull<u8> {
        with(|w| {
            w.hal.log.push(HalEv::PhysToVirt { paddr, size });
            let v = paddr.wrapping_add(w.hal.mmio_offset);
            NonNull::new(v as usize as *mut u8).unwrap_or(NonNull::dangling())
        })
    }

    unsafe fn share(buffer: NonNull<[u8]>, direction: BufferDirection, access_platform: bool) -> PhysAddr {
        with(|w| share_impl(w, buffer, direction, access_platform))
    }

    unsafe fn unshare(paddr: PhysAddr, buffer: NonNull<[u8]>, direction: BufferDirection, access_platform: bool) {
        with(|w| unshare_impl(w, paddr, buffer, direction, access_platform))
    }
}
