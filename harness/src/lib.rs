//! Verification harness for rcore-os/virtio-drivers (property-based testing / fuzzing).
#![allow(clippy::too_many_arguments, clippy::type_complexity, clippy::new_without_default)]

pub mod allocguard;
pub mod bus;
pub mod dev;
pub mod devq;
pub mod devs_cmd;
pub mod devs_vsock;
pub mod dynq;
pub mod hal;
pub mod mmio_dev;
pub mod pci_dev;
pub mod tkind;
pub mod ring;
pub mod runner;
pub mod world;
pub mod props;
