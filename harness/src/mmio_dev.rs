//! Register-level virtio-mmio device model (legacy version 1 and modern version 2), written
//! from VirtIO 1.2 §4.2.2 / §4.2.4. Lives behind the MMIO bus and forwards to `DevCore`.

use crate::bus::MmioDevice;
use crate::world::World;

pub const MMIO_BASE: u64 = 0x7000_0000_0000;
pub const MAGIC: u32 = 0x7472_6976;

#[derive(Clone, Copy, PartialEq, Eq, Debug)]
pub enum Rw {
    R,
    W,
    RW,
}

/// Direction of a register for the given version, or None if undefined.
pub fn reg_dir(version: u32, off: u64) -> Option<Rw> {
    let legacy = version == 1;
    Some(match off {
        0x000 | 0x004 | 0x008 | 0x00c | 0x010 => Rw::R,
        0x014 | 0x020 | 0x024 => Rw::W,
        0x028 if legacy => Rw::W,
        0x030 => Rw::W,
        0x034 => Rw::R,
        0x038 => Rw::W,
        0x03c if legacy => Rw::W,
        0x040 if legacy => Rw::RW,
        0x044 if !legacy => Rw::RW,
        0x050 => Rw::W,
        0x060 => Rw::R,
        0x064 => Rw::W,
        0x070 => Rw::RW,
        0x080 | 0x084 | 0x090 | 0x094 | 0x0a0 | 0x0a4 if !legacy => Rw::W,
        0x0fc if !legacy => Rw::R,
        _ => return None,
    })
}

#[derive(Clone, Debug, Default, PartialEq, Eq)]
pub struct MmioQueueRegs {
    pub num: u32,
    pub align: u32,
    pub pfn: u32,
    pub ready: u32,
    pub desc: u64,
    pub driver: u64,
    pub device: u64,
    /// QueueReady reads still return the old value for this many reads after a write of 0.
    pub ready_lag: u32,
    pub ready_shown: u32,
}

pub struct MmioModel {
    pub version: u32,
    pub magic: u32,
    pub device_id: u32,
    pub vendor_id: u32,
    pub size: u64,
    pub queue_sel: u32,
    pub dev_feat_sel: u32,
    pub drv_feat_sel: u32,
    pub guest_page_size: u32,
    pub q: std::collections::BTreeMap<u32, MmioQueueRegs>,
    pub ready_delay: u32,
    pub writes: u64,
}

impl MmioModel {
    pub fn new(version: u32, device_id: u32, size: u64) -> Self {
        MmioModel {
            version,
            magic: MAGIC,
            device_id,
            vendor_id: 0x554d_4551,
            size,
            queue_sel: 0,
            dev_feat_sel: 0,
            drv_feat_sel: 0,
            guest_page_size: 0,
            q: Default::default(),
            ready_delay: 0,
            writes: 0,
        }
    }
    pub fn cur(&mut self) -> &mut MmioQueueRegs {
        self.q.entry(self.queue_sel).or_default()
    }
}

fn notify_model(w: &mut World, q: u16) {
    w.dev.log(crate::dev::Ev::Notify(q));
    w.dev.queue(q).notifies += 1;
    if let Some(mut m) = w.model.take() {
        m.on_notify(w, q);
        if w.model.is_none() {
            w.model = Some(m);
        }
    }
}

fn status_model(w: &mut World, old: u32, new: u32) {
    if let Some(mut m) = w.model.take() {
        m.on_status(w, old, new);
        if w.model.is_none() {
            w.model = Some(m);
        }
    }
}

fn config_model(w: &mut World, off: usize, len: usize, write: bool) {
    if let Some(mut m) = w.model.take() {
        m.on_config_access(w, off, len, write);
        if w.model.is_none() {
            w.model = Some(m);
        }
    }
}

/// The bus-side object. The register state itself lives in `World.mmio` so property code can
/// look at it between driver calls.
pub struct MmioFront;

impl MmioDevice for MmioFront {
    fn read(&mut self, w: &mut World, off: u64, width: u8) -> u64 {
        let Some(mut m) = w.mmio.take() else { return 0 };
        let r = read_reg(&mut m, w, off, width);
        w.mmio = Some(m);
        r
    }
    fn write(&mut self, w: &mut World, off: u64, width: u8, val: u64) {
        let Some(mut m) = w.mmio.take() else { return };
        write_reg(&mut m, w, off, width, val);
        w.mmio = Some(m);
    }
}

fn read_reg(m: &mut MmioModel, w: &mut World, off: u64, width: u8) -> u64 {
    if off >= 0x100 {
        let o = (off - 0x100) as usize;
        config_model(w, o, width as usize, false);
        w.dev.log(crate::dev::Ev::CfgRead { off: o, len: width as usize });
        let mut v = 0u64;
        for i in 0..width as usize {
            let b = w.dev.config.get(o + i).copied().unwrap_or(0);
            v |= (b as u64) << (8 * i);
        }
        return v;
    }
    if width != 4 {
        w.fault("mmio", format!("{}-byte read of register {:#05x} (registers are 32 bits wide)", width, off));
    }
    match reg_dir(m.version, off) {
        None => {
            w.fault("mmio", format!("read of register {:#05x}, which is not defined for a version {} device", off, m.version));
            return 0;
        }
        Some(Rw::W) => {
            w.fault("mmio", format!("read of write-only register {:#05x}", off));
            return 0;
        }
        _ => {}
    }
    (match off {
        0x000 => m.magic,
        0x004 => m.version,
        0x008 => m.device_id,
        0x00c => m.vendor_id,
        0x010 => {
            w.dev.log(crate::dev::Ev::ReadFeat);
            match m.dev_feat_sel {
                0 => w.dev.offered as u32,
                1 => (w.dev.offered >> 32) as u32,
                _ => 0,
            }
        }
        0x034 => {
            let q = m.queue_sel;
            w.dev.log(crate::dev::Ev::MaxQ(q as u16));
            if q < 65536 {
                w.dev.queue(q as u16).max
            } else {
                0
            }
        }
        0x040 => m.cur().pfn,
        0x044 => {
            let c = m.cur();
            if c.ready_lag > 0 {
                c.ready_lag -= 1;
                c.ready_shown
            } else {
                c.ready
            }
        }
        0x060 => w.dev.isr,
        0x070 => w.dev.status,
        0x0fc => {
            config_model(w, usize::MAX, 0, false);
            w.dev.log(crate::dev::Ev::GenRead);
            w.dev.gen
        }
        _ => 0,
    }) as u64
}

fn write_reg(m: &mut MmioModel, w: &mut World, off: u64, width: u8, val: u64) {
    m.writes += 1;
    if off >= 0x100 {
        let o = (off - 0x100) as usize;
        config_model(w, o, width as usize, true);
        let bytes: Vec<u8> = (0..width as usize).map(|i| (val >> (8 * i)) as u8).collect();
        for (i, b) in bytes.iter().enumerate() {
            if let Some(x) = w.dev.config.get_mut(o + i) {
                *x = *b;
            }
        }
        w.dev.log(crate::dev::Ev::CfgWrite { off: o, val: bytes });
        return;
    }
    if width != 4 {
        w.fault("mmio", format!("{}-byte write of register {:#05x} (registers are 32 bits wide)", width, off));
    }
    match reg_dir(m.version, off) {
        None => {
            w.fault("mmio", format!("write of register {:#05x}, which is not defined for a version {} device", off, m.version));
            return;
        }
        Some(Rw::R) => {
            w.fault("mmio", format!("write of read-only register {:#05x}", off));
            return;
        }
        _ => {}
    }
    let v = val as u32;
    match off {
        0x014 => m.dev_feat_sel = v,
        0x024 => m.drv_feat_sel = v,
        0x020 => {
            match m.drv_feat_sel {
                0 => w.dev.accepted = (w.dev.accepted & !0xffff_ffff) | v as u64,
                1 => w.dev.accepted = (w.dev.accepted & 0xffff_ffff) | (v as u64) << 32,
                _ => {}
            }
            let a = w.dev.accepted;
            w.dev.log(crate::dev::Ev::WriteFeat(a));
        }
        0x028 => {
            m.guest_page_size = v;
            w.dev.log(crate::dev::Ev::GuestPage(v));
        }
        0x030 => m.queue_sel = v,
        0x038 => m.cur().num = v,
        0x03c => m.cur().align = v,
        0x040 => {
            let sel = m.queue_sel;
            let gps = m.guest_page_size;
            let c = m.cur();
            c.pfn = v;
            let (num, align) = (c.num, c.align);
            if sel < 65536 {
                if v != 0 {
                    if gps == 0 {
                        w.fault("mmio", "QueuePFN written before GuestPageSize".to_string());
                    }
                    if align == 0 || !align.is_power_of_two() {
                        w.fault("mmio", format!("QueuePFN written while QueueAlign = {}", align));
                    }
                    let desc = v as u64 * gps as u64;
                    let avail = desc + 16 * num as u64;
                    let a = align.max(1) as u64;
                    let used = (avail + 6 + 2 * num as u64 + a - 1) & !(a - 1);
                    w.dev.queue_set(sel as u16, num, desc, avail, used);
                } else {
                    w.dev.queue_unset(sel as u16);
                }
            }
        }
        0x044 => {
            let sel = m.queue_sel;
            let delay = m.ready_delay;
            let c = m.cur();
            let old = c.ready;
            c.ready = v;
            if v == 0 {
                c.ready_lag = delay;
                c.ready_shown = old;
            } else {
                c.ready_lag = 0;
            }
            let (num, d, a, u) = (c.num, c.desc, c.driver, c.device);
            if sel < 65536 {
                if v == 1 {
                    w.dev.queue_set(sel as u16, num, d, a, u);
                } else if v == 0 {
                    w.dev.queue_unset(sel as u16);
                } else {
                    w.fault("mmio", format!("QueueReady written with {}", v));
                }
            }
        }
        0x050 => {
            if v < 65536 {
                notify_model(w, v as u16);
            } else {
                w.fault("mmio", format!("QueueNotify written with {:#x}", v));
            }
        }
        0x064 => {
            w.dev.log(crate::dev::Ev::AckInt(v));
            w.dev.isr &= !v;
        }
        0x070 => {
            let old = w.dev.status;
            w.dev.set_status(v);
            if v == 0 {
                for c in m.q.values_mut() {
                    *c = MmioQueueRegs::default();
                }
            }
            status_model(w, old, v);
        }
        0x080 => m.cur().desc = (m.cur().desc & !0xffff_ffff) | v as u64,
        0x084 => m.cur().desc = (m.cur().desc & 0xffff_ffff) | (v as u64) << 32,
        0x090 => m.cur().driver = (m.cur().driver & !0xffff_ffff) | v as u64,
        0x094 => m.cur().driver = (m.cur().driver & 0xffff_ffff) | (v as u64) << 32,
        0x0a0 => m.cur().device = (m.cur().device & !0xffff_ffff) | v as u64,
        0x0a4 => m.cur().device = (m.cur().device & 0xffff_ffff) | (v as u64) << 32,
        _ => {}
    }
}

/// Map a virtio-mmio device of `size` bytes at `MMIO_BASE` in the current world.
pub fn install(version: u32, device_id: u32, size: u64) {
    crate::world::with(|w| {
        w.mmio = Some(MmioModel::new(version, device_id, size));
        w.dev.legacy = version == 1;
        w.dev.dtype = device_id;
        w.bus.map(MMIO_BASE, size, "virtio-mmio", Box::new(MmioFront));
    });
}

/// Create the real transport on the emulated device.
pub fn transport(size: usize) -> Result<virtio_drivers::transport::mmio::MmioTransport<'static>, virtio_drivers::transport::mmio::MmioError> {
    use std::ptr::NonNull;
    use virtio_drivers::transport::mmio::{MmioTransport, VirtIOHeader};
    let header = NonNull::new(MMIO_BASE as *mut VirtIOHeader).unwrap();
    unsafe { MmioTransport::new(header, size) }
}
