//! PCI models: configuration space of functions (behind `ConfigurationAccess` and behind an
//! emulated CAM/ECAM window), and virtio-pci structures inside emulated BARs.
//! Written from the PCI Local Bus specification and VirtIO 1.2 §4.1.4, not from the crate.

use crate::bus::MmioDevice;
use crate::world::{with, World};
use std::collections::BTreeMap;
use virtio_drivers::transport::pci::bus::{Cam, ConfigurationAccess, DeviceFunction};

pub const CAM_BASE: u64 = 0x6000_0000_0000;
pub const CMD_WRITABLE: u16 = 0x077f;

#[derive(Clone, Debug, PartialEq, Eq)]
pub struct CfgAccess {
    pub write: bool,
    pub bdf: (u8, u8, u8),
    pub off: u8,
    pub val: u32,
    /// command register at the time of the access
    pub command: u16,
}

#[derive(Clone, Debug)]
pub struct PciFn {
    pub regs: [u32; 64],
    /// writable bits of each BAR register
    pub bar_mask: [u32; 6],
    pub bar_orig: [u32; 6],
    pub command: u16,
    pub status: u16,
}

impl PciFn {
    pub fn new(vendor: u16, device: u16) -> Self {
        let mut regs = [0u32; 64];
        regs[0] = (device as u32) << 16 | vendor as u32;
        PciFn { regs, bar_mask: [0; 6], bar_orig: [0; 6], command: 0, status: 0 }
    }

    pub fn bar(&self, i: usize) -> u32 {
        self.regs[4 + i]
    }

    pub fn set_bar_raw(&mut self, i: usize, value: u32, mask: u32) {
        self.regs[4 + i] = value;
        self.bar_mask[i] = mask;
        self.bar_orig[i] = value;
    }

    pub fn read(&self, off: u8) -> u32 {
        let r = (off / 4) as usize;
        match r {
            1 => (self.status as u32) << 16 | self.command as u32,
            _ => self.regs[r],
        }
    }

    /// Returns an error text if the write is one a well-behaved driver must not perform.
    pub fn write(&mut self, off: u8, val: u32) -> Option<String> {
        let r = (off / 4) as usize;
        match r {
            1 => {
                self.command = val as u16 & CMD_WRITABLE;
                None
            }
            4..=9 => {
                let i = r - 4;
                let decode = self.command & 3;
                let mut complaint = None;
                if val != self.bar_orig[i] && decode != 0 {
                    complaint = Some(format!(
                        "BAR{} written with {:#010x} (original {:#010x}) while address decoding is enabled (command {:#06x})",
                        i, val, self.bar_orig[i], self.command
                    ));
                }
                let m = self.bar_mask[i];
                self.regs[r] = (val & m) | (self.regs[r] & !m);
                complaint
            }
            _ => Some(format!("write of {:#010x} to configuration register {:#04x}, which is neither the command register nor a BAR", val, off)),
        }
    }
}

pub struct PciBus {
    pub fns: BTreeMap<(u8, u8, u8), PciFn>,
    pub log: Vec<CfgAccess>,
    pub log_on: bool,
}

impl PciBus {
    pub fn new() -> Self {
        PciBus { fns: BTreeMap::new(), log: Vec::new(), log_on: true }
    }
}

fn cfg_read(w: &mut World, bdf: (u8, u8, u8), off: u8) -> u32 {
    let Some(bus) = w.pci.as_mut() else { return 0xffff_ffff };
    let (v, cmd) = match bus.fns.get(&bdf) {
        Some(f) => (f.read(off), f.command),
        None => (0xffff_ffff, 0),
    };
    if bus.log_on && bus.log.len() < 1_000_000 {
        bus.log.push(CfgAccess { write: false, bdf, off, val: v, command: cmd });
    }
    v
}

fn cfg_write(w: &mut World, bdf: (u8, u8, u8), off: u8, val: u32) {
    let Some(bus) = w.pci.as_mut() else { return };
    let mut complaint = None;
    let mut cmd = 0;
    if let Some(f) = bus.fns.get_mut(&bdf) {
        cmd = f.command;
        complaint = f.write(off, val);
    }
    if bus.log_on && bus.log.len() < 1_000_000 {
        bus.log.push(CfgAccess { write: true, bdf, off, val, command: cmd });
    }
    if let Some(c) = complaint {
        w.fault("pcicfg", c);
    }
}

/// `ConfigurationAccess` straight into the model.
pub struct ModelCam;

impl ConfigurationAccess for ModelCam {
    fn read_word(&self, df: DeviceFunction, register_offset: u8) -> u32 {
        with(|w| cfg_read(w, (df.bus, df.device, df.function), register_offset))
    }
    fn write_word(&mut self, df: DeviceFunction, register_offset: u8, data: u32) {
        with(|w| cfg_write(w, (df.bus, df.device, df.function), register_offset, data))
    }
    unsafe fn unsafe_clone(&self) -> Self {
        ModelCam
    }
}

/// Bus device for an emulated CAM / ECAM window.
pub struct CamFront {
    pub ecam: bool,
}

impl CamFront {
    fn decode(&self, off: u64) -> ((u8, u8, u8), u64) {
        let (shift, mask) = if self.ecam { (12, 0xfff) } else { (8, 0xff) };
        let bdf = off >> shift;
        (((bdf >> 8) as u8, ((bdf >> 3) & 31) as u8, (bdf & 7) as u8), off & mask)
    }
}

impl MmioDevice for CamFront {
    fn read(&mut self, w: &mut World, off: u64, width: u8) -> u64 {
        let (bdf, reg) = self.decode(off);
        if width != 4 || reg > 255 {
            w.fault("cam", format!("CAM read of width {} at register {:#x}", width, reg));
            return 0xffff_ffff;
        }
        cfg_read(w, bdf, reg as u8) as u64
    }
    fn write(&mut self, w: &mut World, off: u64, width: u8, val: u64) {
        let (bdf, reg) = self.decode(off);
        if width != 4 || reg > 255 {
            w.fault("cam", format!("CAM write of width {} at register {:#x}", width, reg));
            return;
        }
        cfg_write(w, bdf, reg as u8, val as u32)
    }
}

pub fn install_cam(cam: Cam) {
    with(|w| {
        let ecam = matches!(cam, Cam::Ecam);
        w.bus.map(CAM_BASE, cam.size() as u64, if ecam { "ecam" } else { "cam" }, Box::new(CamFront { ecam }));
    });
}

// ---------------------------------------------------------------------------------------------
// virtio-pci structures inside BARs

#[derive(Clone, Copy, Debug, PartialEq, Eq, serde::Serialize, serde::Deserialize)]
pub struct Win {
    pub bar: u8,
    pub offset: u64,
    pub length: u64,
}

/// Where the device really keeps its structures (the reference parser's reading of the
/// capability list), in BAR-relative terms.
#[derive(Clone, Debug, Default)]
pub struct VpLayout {
    pub common: Option<Win>,
    pub notify: Option<Win>,
    pub isr: Option<Win>,
    pub device: Option<Win>,
    pub multiplier: u32,
}

#[derive(Clone, Debug, Default)]
pub struct VpQueue {
    pub size: u16,
    pub msix: u16,
    pub enable: u16,
    pub desc: u64,
    pub driver: u64,
    pub device: u64,
}

pub struct VpModel {
    pub layout: VpLayout,
    pub dfs: u32,
    pub gfs: u32,
    pub msix_config: u16,
    pub queue_select: u16,
    pub q: BTreeMap<u16, VpQueue>,
    pub num_queues: u16,
    /// queue_notify_off = q * notify_stride + notify_bias
    pub notify_stride: u16,
    pub notify_bias: u16,
    /// device_status reads return the old value this many times after a reset
    pub reset_delay: u32,
    pub reset_lag: u32,
    pub status_shown: u8,
    pub resets_completed_reads: u32,
    /// BAR base addresses (virtual = physical + mmio_offset) and sizes, for window lookup
    pub bars: [(u64, u64); 6],
}

impl VpModel {
    pub fn new(layout: VpLayout) -> Self {
        VpModel {
            layout,
            dfs: 0,
            gfs: 0,
            msix_config: 0xffff,
            queue_select: 0,
            q: BTreeMap::new(),
            num_queues: 8,
            notify_stride: 1,
            notify_bias: 0,
            reset_delay: 0,
            reset_lag: 0,
            status_shown: 0,
            resets_completed_reads: 0,
            bars: [(0, 0); 6],
        }
    }
    pub fn notify_off(&self, q: u16) -> u16 {
        q.wrapping_mul(self.notify_stride).wrapping_add(self.notify_bias)
    }
    fn cur(&mut self) -> &mut VpQueue {
        self.q.entry(self.queue_select).or_default()
    }
}

fn in_win(w: &Option<Win>, bar: u8, off: u64, width: u8) -> Option<u64> {
    let w = w.as_ref()?;
    if w.bar == bar && off >= w.offset && (off as u128 + width as u128) <= w.offset as u128 + w.length as u128 {
        Some(off - w.offset)
    } else {
        None
    }
}

fn call_model_notify(w: &mut World, q: u16) {
    w.dev.log(crate::dev::Ev::Notify(q));
    w.dev.queue(q).notifies += 1;
    if let Some(mut m) = w.model.take() {
        m.on_notify(w, q);
        if w.model.is_none() {
            w.model = Some(m);
        }
    }
}

fn call_model_status(w: &mut World, old: u32, new: u32) {
    if let Some(mut m) = w.model.take() {
        m.on_status(w, old, new);
        if w.model.is_none() {
            w.model = Some(m);
        }
    }
}

fn call_model_config(w: &mut World, off: usize, len: usize, write: bool) {
    if let Some(mut m) = w.model.take() {
        m.on_config_access(w, off, len, write);
        if w.model.is_none() {
            w.model = Some(m);
        }
    }
}

/// (offset, width, readable, writable, name) of the common configuration structure.
const COMMON: &[(u64, u8, bool, bool, &str)] = &[
    (0, 4, true, true, "device_feature_select"),
    (4, 4, true, false, "device_feature"),
    (8, 4, true, true, "driver_feature_select"),
    (12, 4, true, true, "driver_feature"),
    (16, 2, true, true, "msix_config"),
    (18, 2, true, false, "num_queues"),
    (20, 1, true, true, "device_status"),
    (21, 1, true, false, "config_generation"),
    (22, 2, true, true, "queue_select"),
    (24, 2, true, true, "queue_size"),
    (26, 2, true, true, "queue_msix_vector"),
    (28, 2, true, true, "queue_enable"),
    (30, 2, true, false, "queue_notify_off"),
    (32, 8, true, true, "queue_desc"),
    (40, 8, true, true, "queue_driver"),
    (48, 8, true, true, "queue_device"),
];

fn common_field(off: u64, width: u8) -> Option<(usize, u64)> {
    for (i, f) in COMMON.iter().enumerate() {
        if off == f.0 && width == f.1 {
            return Some((i, 0));
        }
        // 64-bit fields may be accessed as two 32-bit halves
        if f.1 == 8 && width == 4 && (off == f.0 || off == f.0 + 4) {
            return Some((i, off - f.0));
        }
    }
    None
}

pub struct BarFront {
    pub bar: u8,
}

impl MmioDevice for BarFront {
    fn read(&mut self, w: &mut World, off: u64, width: u8) -> u64 {
        let Some(mut m) = w.vp.take() else { return 0 };
        let r = vp_read(&mut m, w, self.bar, off, width);
        w.vp = Some(m);
        r
    }
    fn write(&mut self, w: &mut World, off: u64, width: u8, val: u64) {
        let Some(mut m) = w.vp.take() else { return };
        vp_write(&mut m, w, self.bar, off, width, val);
        w.vp = Some(m);
    }
}

fn vp_read(m: &mut VpModel, w: &mut World, bar: u8, off: u64, width: u8) -> u64 {
    if let Some(o) = in_win(&m.layout.common.map(|c| Win { length: c.length.min(56), ..c }), bar, off, width) {
        let Some((i, half)) = common_field(o, width) else {
            w.fault("vpci", format!("{}-byte read at common-configuration offset {} does not match any field of the standard layout", width, o));
            return 0;
        };
        let f = COMMON[i];
        if !f.2 {
            w.fault("vpci", format!("read of write-only field {}", f.4));
        }
        let v: u64 = match f.4 {
            "device_feature_select" => m.dfs as u64,
            "device_feature" => {
                w.dev.log(crate::dev::Ev::ReadFeat);
                match m.dfs {
                    0 => w.dev.offered & 0xffff_ffff,
                    1 => w.dev.offered >> 32,
                    _ => 0,
                }
            }
            "driver_feature_select" => m.gfs as u64,
            "driver_feature" => match m.gfs {
                0 => w.dev.accepted & 0xffff_ffff,
                1 => w.dev.accepted >> 32,
                _ => 0,
            },
            "msix_config" => m.msix_config as u64,
            "num_queues" => m.num_queues as u64,
            "device_status" => {
                if m.reset_lag > 0 {
                    m.reset_lag -= 1;
                    m.status_shown as u64
                } else {
                    if w.dev.status == 0 {
                        m.resets_completed_reads += 1;
                    }
                    (w.dev.status & 0xff) as u64
                }
            }
            "config_generation" => {
                call_model_config(w, usize::MAX, 0, false);
                w.dev.log(crate::dev::Ev::GenRead);
                (w.dev.gen & 0xff) as u64
            }
            "queue_select" => m.queue_select as u64,
            "queue_size" => {
                let qs = m.queue_select;
                w.dev.log(crate::dev::Ev::MaxQ(qs));
                let cur = m.cur().size;
                if cur != 0 {
                    cur as u64
                } else {
                    (w.dev.queue(qs).max.min(65535)) as u64
                }
            }
            "queue_msix_vector" => m.cur().msix as u64,
            "queue_enable" => m.cur().enable as u64,
            "queue_notify_off" => m.notify_off(m.queue_select) as u64,
            "queue_desc" => m.cur().desc,
            "queue_driver" => m.cur().driver,
            "queue_device" => m.cur().device,
            _ => 0,
        };
        return if f.1 == 8 && width == 4 { (v >> (8 * half)) & 0xffff_ffff } else { v };
    }
    if let Some(_o) = in_win(&m.layout.isr.map(|c| Win { length: c.length.min(1), ..c }), bar, off, width) {
        if width != 1 {
            w.fault("vpci", format!("{}-byte read of the ISR status byte", width));
        }
        let v = w.dev.isr;
        w.dev.log(crate::dev::Ev::AckInt(v));
        w.dev.isr = 0;
        return (v & 0xff) as u64;
    }
    if let Some(o) = in_win(&m.layout.device, bar, off, width) {
        call_model_config(w, o as usize, width as usize, false);
        w.dev.log(crate::dev::Ev::CfgRead { off: o as usize, len: width as usize });
        let mut v = 0u64;
        for i in 0..width as usize {
            v |= (w.dev.config.get(o as usize + i).copied().unwrap_or(0) as u64) << (8 * i);
        }
        return v;
    }
    if in_win(&m.layout.notify, bar, off, width).is_some() {
        w.fault("vpci", format!("read from the notification area at BAR{}+{:#x}", bar, off));
        return 0;
    }
    w.fault("vpci", format!("{}-byte read at BAR{}+{:#x}, outside every virtio structure of the device", width, bar, off));
    0
}

fn vp_write(m: &mut VpModel, w: &mut World, bar: u8, off: u64, width: u8, val: u64) {
    if let Some(o) = in_win(&m.layout.common.map(|c| Win { length: c.length.min(56), ..c }), bar, off, width) {
        let Some((i, half)) = common_field(o, width) else {
            w.fault("vpci", format!("{}-byte write at common-configuration offset {} does not match any field of the standard layout", width, o));
            return;
        };
        let f = COMMON[i];
        if !f.3 {
            w.fault("vpci", format!("write to read-only field {}", f.4));
            return;
        }
        let put64 = |old: u64| -> u64 {
            if width == 8 {
                val
            } else if half == 0 {
                (old & !0xffff_ffff) | (val & 0xffff_ffff)
            } else {
                (old & 0xffff_ffff) | (val << 32)
            }
        };
        match f.4 {
            "device_feature_select" => m.dfs = val as u32,
            "driver_feature_select" => m.gfs = val as u32,
            "driver_feature" => {
                match m.gfs {
                    0 => w.dev.accepted = (w.dev.accepted & !0xffff_ffff) | (val & 0xffff_ffff),
                    1 => w.dev.accepted = (w.dev.accepted & 0xffff_ffff) | (val << 32),
                    _ => {}
                }
                let a = w.dev.accepted;
                w.dev.log(crate::dev::Ev::WriteFeat(a));
            }
            "msix_config" => m.msix_config = val as u16,
            "device_status" => {
                let old = w.dev.status;
                if val == 0 {
                    m.status_shown = old as u8;
                    // the old status stays visible while the reset is in progress (unobservable if it was 0)
                    m.reset_lag = if old & 0xff != 0 { m.reset_delay } else { 0 };
                    m.q.clear();
                    m.queue_select = 0;
                }
                w.dev.set_status(val as u32);
                call_model_status(w, old, val as u32);
            }
            "queue_select" => m.queue_select = val as u16,
            "queue_size" => m.cur().size = val as u16,
            "queue_msix_vector" => m.cur().msix = val as u16,
            "queue_enable" => {
                let qs = m.queue_select;
                let c = m.cur();
                c.enable = val as u16;
                let (s, d, a, u) = (c.size, c.desc, c.driver, c.device);
                if val == 1 {
                    w.dev.queue_set(qs, s as u32, d, a, u);
                } else {
                    w.fault("vpci", format!("queue_enable written with {}", val));
                }
            }
            "queue_desc" => m.cur().desc = put64(m.cur().desc),
            "queue_driver" => m.cur().driver = put64(m.cur().driver),
            "queue_device" => m.cur().device = put64(m.cur().device),
            _ => {}
        }
        return;
    }
    if let Some(o) = in_win(&m.layout.notify, bar, off, width) {
        if width != 2 {
            w.fault("vpci", format!("{}-byte write to the notification area", width));
            return;
        }
        let q = val as u16;
        let want = m.notify_off(q) as u64 * m.layout.multiplier as u64;
        if o != want {
            w.fault(
                "vpci",
                format!("notification for queue {} written at notify offset {:#x}, expected queue_notify_off {} x multiplier {} = {:#x}", q, o, m.notify_off(q), m.layout.multiplier, want),
            );
            return;
        }
        call_model_notify(w, q);
        return;
    }
    if let Some(o) = in_win(&m.layout.device, bar, off, width) {
        call_model_config(w, o as usize, width as usize, true);
        let bytes: Vec<u8> = (0..width as usize).map(|i| (val >> (8 * i)) as u8).collect();
        for (i, b) in bytes.iter().enumerate() {
            if let Some(x) = w.dev.config.get_mut(o as usize + i) {
                *x = *b;
            }
        }
        w.dev.log(crate::dev::Ev::CfgWrite { off: o as usize, val: bytes });
        return;
    }
    if in_win(&m.layout.isr, bar, off, width).is_some() {
        w.fault("vpci", "write to the ISR status byte".to_string());
        return;
    }
    w.fault("vpci", format!("{}-byte write at BAR{}+{:#x}, outside every virtio structure of the device", width, bar, off));
}

// ---------------------------------------------------------------------------------------------
// helpers to build a well-formed virtio-pci function

pub const STD_DF: DeviceFunction = DeviceFunction { bus: 0, device: 3, function: 0 };

/// Write a virtio vendor capability at `at`.
pub fn put_cap(f: &mut PciFn, at: u8, next: u8, cap_len: u8, cfg_type: u8, bar: u8, id: u8, offset: u32, length: u32, extra: Option<u32>) {
    let r = (at / 4) as usize;
    f.regs[r] = 0x09 | (next as u32) << 8 | (cap_len as u32) << 16 | (cfg_type as u32) << 24;
    f.regs[r + 1] = bar as u32 | (id as u32) << 8;
    f.regs[r + 2] = offset;
    f.regs[r + 3] = length;
    if let Some(x) = extra {
        f.regs[r + 4] = x;
    }
}

/// Install a standard modern virtio-pci function (like QEMU's): one 64-bit prefetchable
/// 16 KiB BAR at slot 4 holding all four structures. Returns nothing; use `std_transport`.
pub fn install_std(dtype: u32, cfg_len: u32, with_device_cfg: bool) {
    let bar_addr: u64 = 0x0000_00c0_0000_0000;
    let mut f = PciFn::new(0x1af4, 0x1040 + dtype as u16);
    f.status = 0x10;
    f.command = 0x0006;
    f.regs[0x34 / 4] = 0x40;
    f.set_bar_raw(4, (bar_addr as u32) | 0xc, 0xffff_c000);
    f.set_bar_raw(5, (bar_addr >> 32) as u32, 0xffff_ffff);
    put_cap(&mut f, 0x40, 0x54, 16, 1, 4, 0, 0x0000, 0x38, None);
    put_cap(&mut f, 0x54, 0x68, 16, 3, 4, 0, 0x1000, 0x1, None);
    put_cap(&mut f, 0x68, if with_device_cfg { 0x80 } else { 0 }, 20, 2, 4, 0, 0x3000, 0x1000, Some(4));
    if with_device_cfg {
        put_cap(&mut f, 0x80, 0, 16, 4, 4, 0, 0x2000, cfg_len, None);
    }
    let layout = VpLayout {
        common: Some(Win { bar: 4, offset: 0, length: 0x38 }),
        isr: Some(Win { bar: 4, offset: 0x1000, length: 1 }),
        notify: Some(Win { bar: 4, offset: 0x3000, length: 0x1000 }),
        device: if with_device_cfg { Some(Win { bar: 4, offset: 0x2000, length: cfg_len as u64 }) } else { None },
        multiplier: 4,
    };
    with(|w| {
        let mut bus = PciBus::new();
        bus.fns.insert((STD_DF.bus, STD_DF.device, STD_DF.function), f);
        w.pci = Some(bus);
        let mut m = VpModel::new(layout);
        m.bars[4] = (bar_addr, 0x4000);
        w.vp = Some(m);
        w.dev.dtype = dtype;
        w.dev.legacy = false;
        w.dev.cfg_missing = !with_device_cfg;
        let virt = bar_addr.wrapping_add(w.hal.mmio_offset);
        w.bus.map(virt, 0x4000, "bar4", Box::new(BarFront { bar: 4 }));
    });
}

pub fn std_transport() -> Result<virtio_drivers::transport::pci::PciTransport, virtio_drivers::transport::pci::VirtioPciError> {
    use virtio_drivers::transport::pci::bus::PciRoot;
    let mut root = PciRoot::new(ModelCam);
    virtio_drivers::transport::pci::PciTransport::new::<crate::hal::LHal, _>(&mut root, STD_DF)
}
