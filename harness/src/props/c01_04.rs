//! C01–C04: checks built on the queue-history engine.

use super::qh::{self, QCase};
use crate::runner::{run_items, run_proptest, Ctx, PartInfo, Stats};
use serde_json::json;

pub use crate::runner::Report;

fn prop_static(id: &str) -> &'static str {
    match id {
        "C01" => "C01",
        "C02" => "C02",
        "C03" => "C03",
        "C04" => "C04",
        _ => unreachable!(),
    }
}

/// C04 also holds for the buffers the drivers share: the same platform ledger judges complete
/// drivers on their reference devices. Only the ledger's share/unshare facts count here; whatever
/// else a driver's reference device notices belongs to that driver's property.
#[derive(Clone, Debug, serde::Serialize, serde::Deserialize)]
pub enum DrvCase {
    Blk(super::c14::BCase),
    Console(super::c15::KCase),
    Net(super::c16::NCase),
    Vsock(super::c18::VCase),
    Events(super::c19::ECase),
    Cmd(super::c20::CCase),
}

pub fn drivers(c: &DrvCase, st: &mut Stats) -> Result<(), String> {
    let mut scratch = Stats::default();
    let r = match c {
        DrvCase::Blk(c) => super::c14::check(c, &mut scratch),
        DrvCase::Console(c) => super::c15::check(c, &mut scratch),
        DrvCase::Net(c) => super::c16::check(c, &mut scratch),
        DrvCase::Vsock(c) => super::c18::check(c, &mut scratch),
        DrvCase::Events(c) => super::c19::check(c, &mut scratch),
        DrvCase::Cmd(c) => super::c20::check(c, &mut scratch),
    };
    st.class("driver_histories_under_the_ledger");
    match r {
        Err(m) if m.contains("[unshare]") || m.contains("[share]") => Err(m),
        Err(_) => {
            st.class("driver_run_stopped_by_another_oracle");
            Ok(())
        }
        Ok(()) => {
            let shares = crate::world::with(|w| w.hal.share_calls);
            if shares >= 4 {
                let mut s = crate::runner::Sig::new();
                s.add(0xd4).add(match c {
                    DrvCase::Blk(_) => 1,
                    DrvCase::Console(_) => 2,
                    DrvCase::Net(_) => 3,
                    DrvCase::Vsock(_) => 4,
                    DrvCase::Events(_) => 5,
                    DrvCase::Cmd(_) => 6,
                });
                s.add(shares).add(scratch.sigs.iter().copied().min().unwrap_or(0));
                st.nontrivial(s.get(), || json!({"driver_history": match c { DrvCase::Blk(_) => "blk", DrvCase::Console(_) => "console", DrvCase::Net(_) => "net", DrvCase::Vsock(_) => "vsock", DrvCase::Events(_) => "events", DrvCase::Cmd(_) => "cmd" }, "share_calls": shares}));
            }
            Ok(())
        }
    }
}

fn drv_strategy() -> impl proptest::strategy::Strategy<Value = DrvCase> {
    use proptest::prelude::*;
    prop_oneof![
        1 => super::c14::strategy().prop_map(DrvCase::Blk),
        1 => super::c15::strategy().prop_map(DrvCase::Console),
        3 => super::c16::strategy().prop_map(DrvCase::Net),
        1 => super::c18::strategy().prop_map(DrvCase::Vsock),
        1 => super::c19::strategy().prop_map(DrvCase::Events),
        1 => super::c20::strategy().prop_map(DrvCase::Cmd),
    ]
}

pub fn replay(id: &str, engine: &str, case: &serde_json::Value) -> Result<(), String> {
    if engine == "drivers" {
        let c: DrvCase = serde_json::from_value(case.clone()).map_err(|e| e.to_string())?;
        return drivers(&c, &mut Stats::default());
    }
    let c: QCase = serde_json::from_value(case.clone()).map_err(|e| e.to_string())?;
    let mut st = Stats::default();
    qh::run_case(&c, prop_static(id), &mut st)
}

pub fn run(ctx: &Ctx) -> Report {
    let prop = prop_static(&ctx.id);
    let mut stats = Stats::default();
    let mut failure = None;

    // 1. generated histories over all sizes and modes
    let cases = match prop {
        "C02" => ctx.n(12_000, 400_000),
        _ => ctx.n(20_000, 800_000),
    };
    let (st, f) = run_proptest(ctx, "qh", 1, cases, || qh::case_strategy(120, 15), |c: &QCase, st| qh::run_case(c, prop, st));
    stats.merge(st);
    failure = failure.or(f);

    // 2. longer histories on small queues (free list permuted many times)
    if failure.is_none() {
        let cases = ctx.n(2_000, 60_000);
        let (st, f) = run_proptest(ctx, "qh", 2, cases, || qh::case_strategy(600, 4), |c: &QCase, st| qh::run_case(c, prop, st));
        stats.merge(st);
        failure = failure.or(f);
    }

    // 3. runs longer than 65536 submissions (index wrap) for every small size and mode
    if failure.is_none() && prop != "C02" {
        let items = if ctx.quick() { qh::long_cases(70_000, &[0, 1, 2, 3]) } else { qh::long_cases(200_000, &[0, 1, 2, 3, 4, 5]) };
        let (st, f) = run_items(ctx, "qh", items, |c: &QCase, st| qh::run_case(c, prop, st));
        stats.merge(st);
        failure = failure.or(f);
    }
    if failure.is_none() && prop == "C02" {
        let items = if ctx.quick() { qh::long_cases(70_000, &[1, 2]) } else { qh::long_cases(140_000, &[0, 1, 2, 3, 4]) };
        let (st, f) = run_items(ctx, "qh", items, |c: &QCase, st| qh::run_case(c, prop, st));
        stats.merge(st);
        failure = failure.or(f);
    }

    // 4. buffer counts on the boundaries of queue size, free space and 16 bits, on an empty, a
    //    completely full and an all-but-one-full queue, for the smallest and the largest sizes
    if failure.is_none() {
        let sizes: &[u8] = if ctx.quick() { &[0, 1, 2, 5, 15] } else { &[0, 1, 2, 3, 4, 5, 8, 10, 12, 14, 15] };
        let (st, f) = run_items(ctx, "qh", qh::boundary_cases(sizes), |c: &QCase, st| {
            let r = qh::run_case(c, prop, st);
            if r.is_ok() {
                st.class("boundary_count_history");
            }
            r
        });
        stats.merge(st);
        failure = failure.or(f);
    }

    // 5. (C04) complete drivers under the same ledger
    if failure.is_none() && prop == "C04" {
        let (st, f) = run_proptest(ctx, "drivers", 3, ctx.n(30_000, 1_500_000), drv_strategy, |c: &DrvCase, st| drivers(c, st));
        stats.merge(st);
        failure = failure.or(f);
    }

    let (rule, assumptions): (&'static str, Vec<String>) = match prop {
        "C01" => (
            "proptest histories (Add/AddFill/Fetch/Complete/Pop/...) over queue sizes 2^0..2^15 x indirect x event-idx x access-platform x legacy/modern, plus explicit >65536-submission runs and deterministic histories with buffer counts on the boundaries of queue size / free space / 16 bits (n, n+-1, 2n, 65535..65537, free, free+1) on empty, full and all-but-one-full queues up to size 32768; after every accepted submission the reference device walks the chain from the new ring slot and compares it with the ledger of share() results and the caller's buffers. One case = one history. Non-trivial = a history with >=1 submission made while >=1 other chain is outstanding and after >=1 completion was consumed (free list permuted; their number is the class nontrivial_submissions); distinct = hash over (size, flags, buffer counts, descriptor ids of the chain) of all such submissions of the history. Whether a multi-buffer submission on an indirect-enabled queue uses an indirect table is read off the published chain, not prescribed.",
            vec!["the bounce Hal returns device addresses that never equal virtual addresses".into()],
        ),
        "C02" => (
            "same histories with the device looking at queue memory at every store hook (after each descriptor write, ring-slot write, index write, flags write, used_event write): index moves by 0/+1; the entry it newly covers validates completely at that instant; every outstanding chain is unchanged; when the index changes nothing else changed in the same interval (full snapshot compare for N<=256). One case = one history. Non-trivial = a history with >=1 submission of >=3 descriptors or an indirect table observed at >=3 store points while another chain is outstanding (class nontrivial_submissions counts them); distinct = hash over (size, flags, chain length, points, outstanding count, descriptor ids) of all such submissions.",
            vec![
                "decides program order of the driver's device-visible stores; hardware/compiler memory ordering (fence strength) is not observable by execution on x86-64 and is not claimed".into(),
                "store hooks (cargo feature verif-hooks) are placed after each store; oracle clause 3 does not rely on their placement".into(),
            ],
        ),
        "C03" => (
            "same histories compared in lock-step with a reference ring model (return value of every add/pop_used/peek_used/can_pop/available_desc, side-effect freedom of refused operations, behavioural free-descriptor count at the end). Non-trivial = history with >=2 chains outstanding completed out of submission order plus a wrong-token or not-ready poll, or a run crossing the 16-bit index wrap (the >65536-submission runs keep up to two chains in flight across rounds and poll between completions); distinct = (config, hash of op kinds and outcomes).",
            vec!["available_desc() in indirect mode is compared with the crate's documented N-or-0 behaviour; the true free count is measured behaviourally".into()],
        ),
        "C04" => (
            "same histories under the bounce Hal: per operation the ledger must show exactly one share per buffer (+1 per indirect table) with exact range/direction/flag, exactly the matching unshares on a successful pop, none on refused/failed operations, no live share at the end; device-written bytes appear in caller buffers exactly at pop. The same ledger also judges generated histories of complete drivers (blk, console, net raw/buffered, vsock, event queues, gpu/sound/rng/rtc/9p) on their reference devices: only share/unshare facts are reported here. Non-trivial = history containing an indirect or >=3-buffer chain, a refused submission and an out-of-order pop; distinct = (config, hash of op kinds and outcomes).",
            vec!["bounce buffers are initialised with the caller's bytes for both directions (as swiotlb does), and copied back in full at unshare".into()],
        ),
        _ => unreachable!(),
    };
    Report {
        stats,
        failure,
        info: PartInfo { level: "exploration", rule, assumptions, exhaustive: false, extra: json!({}) },
    }
}
