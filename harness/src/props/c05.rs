//! C05: no lost wake-ups. (1) notification-predicate sweep and full (new,event) table,
//! (2) flag mode / used_event via the queue-history engine, (3) blocking helper under device
//! servicing policies (co-simulation through the spin hook).

use crate::dev::MTransport;
use crate::devq::{Handler, Queues, Serve, Shared, SimDev};
use crate::dynq::{new_queue, DynQueue};
use crate::props::qh;
use crate::ring::{need_event, Chain, RefQueue};
use crate::runner::{guard, known_open, load_known, run_items, run_proptest, Caught, Ctx, PartInfo, Report, Sig, Stats};
use crate::world::{self, with, Escape, World};
use proptest::prelude::*;
use serde::{Deserialize, Serialize};
use serde_json::json;

pub const KEY_D1: &str = "should_notify-event-idx-wrap";

// ---------------------------------------------------------------------------------------------
// part 1: sweep

#[derive(Clone, Debug, Serialize, Deserialize)]
pub struct Sweep {
    pub log2: u8,
    pub indirect: bool,
    pub b: u16,
    /// event position relative to `old`: 0..b inside the window; -1 just before; b just after;
    /// 0x8000 far side.
    pub pos: i32,
    /// number of windows; 0 = the full 65536-cycle
    pub windows: u32,
    pub start: u16,
    /// skip scenarios matching the open known finding
    pub exclude_known: bool,
}

struct Raw {
    q: Box<dyn DynQueue>,
    t: MTransport,
    rq: RefQueue,
    bufs: Vec<Box<[u8; 1]>>,
}

fn raw_queue(log2: u8, indirect: bool, event_idx: bool) -> Result<Raw, String> {
    world::reset();
    with(|w| {
        w.dev.default_max = 65536;
        w.dev.status = 0xf;
        w.dev.log_events = false;
        w.hal.bounce = false;
    });
    let mut t = MTransport::new();
    let q = match guard(|| new_queue(log2, &mut t, 0, indirect, event_idx, false)) {
        Caught::Ok(Ok(q)) => q,
        other => return Err(format!("queue creation failed: {}", matches!(other, Caught::Ok(_)))),
    };
    let qs = with(|w| w.dev.queue(0).clone());
    let rq = RefQueue::new(qs.size, qs.desc, qs.avail, qs.used, indirect, event_idx);
    let n = 1usize << log2;
    Ok(Raw { q, t, rq, bufs: (0..n).map(|_| Box::new([7u8; 1])).collect() })
}

impl Raw {
    fn add_one(&mut self, i: usize) -> Result<u16, String> {
        let p = self.bufs[i].as_ptr();
        let s: &[u8] = unsafe { std::slice::from_raw_parts(p, 1) };
        match guard(|| unsafe { self.q.add(&[s], &mut []) }) {
            Caught::Ok(Ok(t)) => Ok(t),
            Caught::Ok(Err(e)) => Err(format!("add failed: {:?}", e)),
            Caught::Panic(p) => Err(p.render()),
            Caught::Escape(e) => Err(format!("{:?}", e)),
        }
    }
    /// device consumes and completes everything, driver pops everything
    fn drain(&mut self, toks: &[(u16, usize)]) -> Result<(), String> {
        with(|w| -> Result<(), String> {
            while let Some(c) = self.rq.fetch(&w.hal)? {
                self.rq.push_used(&w.hal, c.head as u32, 0)?;
            }
            Ok(())
        })?;
        for &(t, i) in toks {
            let p = self.bufs[i].as_ptr();
            let s: &[u8] = unsafe { std::slice::from_raw_parts(p, 1) };
            match guard(|| unsafe { self.q.pop_used(t, &[s], &mut []) }) {
                Caught::Ok(Ok(_)) => {}
                Caught::Ok(Err(e)) => return Err(format!("pop_used({}) failed: {:?}", t, e)),
                Caught::Panic(p) => return Err(p.render()),
                Caught::Escape(e) => return Err(format!("{:?}", e)),
            }
        }
        Ok(())
    }
    fn finish(self) {
        let Raw { q, mut t, .. } = self;
        let _ = guard(move || {
            use virtio_drivers::transport::Transport;
            t.queue_unset(0);
            drop(q);
            drop(t);
        });
    }
}

fn gcd(a: u32, b: u32) -> u32 {
    if b == 0 {
        a
    } else {
        gcd(b, a % b)
    }
}

pub fn sweep(c: &Sweep, st: &mut Stats) -> Result<(), String> {
    let mut r = raw_queue(c.log2, c.indirect, true)?;
    let mut idx: u16 = 0;
    // move to the starting index
    for _ in 0..c.start {
        let t = r.add_one(0)?;
        r.drain(&[(t, 0)])?;
        idx = idx.wrapping_add(1);
    }
    let b = c.b.max(1);
    let g = gcd(b as u32, 65536);
    let phases = if c.windows == 0 { g } else { 1 };
    let per_phase = if c.windows == 0 { 65536 / g } else { c.windows };
    let mut sig = Sig::new();
    sig.add(c.log2 as u64).add(b as u64).add(c.pos as u64 & 0xffff_ffff).add(c.indirect as u64);
    let mut wraps = 0u64;
    for ph in 0..phases {
        for _ in 0..per_phase {
            let old = idx;
            let _ = r.q.should_notify(); // the driver "last checked" here
            let mut toks = Vec::with_capacity(b as usize);
            for i in 0..b as usize {
                toks.push((r.add_one(i)?, i));
            }
            let new = old.wrapping_add(b);
            let ev = match c.pos {
                p if p >= 0x8000 => new.wrapping_add(0x8000),
                p => old.wrapping_add(p as u16),
            };
            with(|w| r.rq.set_avail_event(&w.hal, ev))?;
            let got = r.q.should_notify();
            let need = need_event(ev, new, old);
            let crosses = new < old;
            if crosses {
                wraps += 1;
            }
            if need && !got {
                // signature of the known finding: window crosses (or ends at) the wrap and the
                // requested index is below the wrap point
                let known_sig = new <= ev && ev != 0xffff;
                if c.exclude_known && known_sig {
                    st.known_excluded += 1;
                    *st.known_hits.entry(KEY_D1.to_string()).or_insert(0) += 1;
                } else {
                    r.finish();
                    return Err(format!(
                        "event-index: entries [{}, {}) were made available since the last check and the device asked to be notified at index {}, but should_notify() returned false (queue size {}, batch {})",
                        old,
                        new,
                        ev,
                        1u32 << c.log2,
                        b
                    ));
                }
            }
            r.drain(&toks)?;
            idx = new;
        }
        if ph + 1 < phases {
            let t = r.add_one(0)?;
            r.drain(&[(t, 0)])?;
            idx = idx.wrapping_add(1);
        }
    }
    r.finish();
    st.class_n("windows", (phases * per_phase) as u64);
    st.class_n("windows_crossing_wrap", wraps);
    if wraps > 0 {
        st.nontrivial(sig.get(), || json!(c));
    }
    Ok(())
}

// ---------------------------------------------------------------------------------------------
// part 1b: full (new, event) table for a stateless implementation

#[derive(Clone, Debug, Serialize, Deserialize)]
pub struct Table {
    pub log2: u8,
    pub from: u32,
    pub to: u32,
    /// event values per `new`: 0 = all 65536, else the N+4 nearest plus this many spread values
    pub spread: u32,
    pub exclude_known: bool,
}

pub fn table(c: &Table, st: &mut Stats) -> Result<(), String> {
    let mut r = raw_queue(c.log2, false, true)?;
    let n = 1u32 << c.log2;
    // statelessness probe
    let mut stateless = true;
    for k in 0..4u16 {
        let t = r.add_one(0)?;
        let idx_new = k + 1;
        with(|w| r.rq.set_avail_event(&w.hal, idx_new.wrapping_sub(1)))?;
        let a = r.q.should_notify();
        let b = r.q.should_notify();
        with(|w| r.rq.set_avail_event(&w.hal, idx_new.wrapping_add(100)))?;
        let _ = r.q.should_notify();
        with(|w| r.rq.set_avail_event(&w.hal, idx_new.wrapping_sub(1)))?;
        let c2 = r.q.should_notify();
        if a != b || a != c2 {
            stateless = false;
        }
        r.drain(&[(t, 0)])?;
    }
    if !stateless {
        st.class("table_skipped_implementation_is_stateful");
        r.finish();
        return Ok(());
    }
    let mut idx: u32 = 4;
    while idx < c.from {
        let t = r.add_one(0)?;
        r.drain(&[(t, 0)])?;
        idx += 1;
    }
    let mut pairs = 0u64;
    let used_evt = r.rq.used + 4 + 8 * n as u64;
    let host = with(|w| w.hal.translate(used_evt, 2, true))? as *mut u16;
    for new in c.from..c.to {
        // make `new` the current available index
        while idx < new {
            let t = r.add_one(0)?;
            r.drain(&[(t, 0)])?;
            idx += 1;
        }
        let newv = new as u16;
        let mut check = |e: u16| -> Result<(), String> {
            unsafe { host.write_volatile(e) };
            let got = r.q.should_notify();
            pairs += 1;
            let dist = newv.wrapping_sub(e).wrapping_sub(1) as u32;
            if dist < n && !got {
                // exists batch b<=N with need_event(e,new,new-b)
                let known_sig = e > newv && e != 0xffff;
                if c.exclude_known && known_sig {
                    st.known_excluded += 1;
                    *st.known_hits.entry(KEY_D1.to_string()).or_insert(0) += 1;
                    return Ok(());
                }
                return Err(format!(
                    "event-index (stateless implementation): with available index {} and avail_event {} a batch of {} entries contains the requested index, but should_notify() is false",
                    newv,
                    e,
                    dist + 1
                ));
            }
            Ok(())
        };
        if c.spread == 0 {
            for e in 0..=0xffffu16 {
                check(e)?;
            }
        } else {
            for d in 0..(n + 4) as u16 {
                check(newv.wrapping_sub(d))?;
                check(newv.wrapping_add(d))?;
            }
            for k in 0..c.spread {
                check((k.wrapping_mul(40503).wrapping_add(new.wrapping_mul(7))) as u16)?;
            }
        }
    }
    r.finish();
    st.class_n("table_pairs", pairs);
    let mut sig = Sig::new();
    sig.add(0x7ab1e).add(c.log2 as u64).add(c.from as u64).add(c.to as u64);
    if c.to > c.from {
        st.nontrivial(sig.get(), || json!(c));
    }
    Ok(())
}

// ---------------------------------------------------------------------------------------------
// part 3: blocking helper under device policies

#[derive(Clone, Debug, Serialize, Deserialize)]
pub enum COp {
    /// add_notify_wait_pop with the given buffer lengths
    Call { ins: Vec<u16>, outs: Vec<u16> },
    Policy(Serve),
}

#[derive(Clone, Debug, Serialize, Deserialize)]
pub struct CoCase {
    pub log2: u8,
    pub indirect: bool,
    pub event_idx: bool,
    pub policy: Serve,
    pub ops: Vec<COp>,
    /// additional identical calls at the end (index wrap)
    pub repeat: u32,
}

struct Echo {
    served: u64,
}

impl Handler for Echo {
    fn on_chain(&mut self, w: &mut World, qs: &mut Queues, q: u16, c: Chain) {
        let cap = c.writable_len();
        let data: Vec<u8> = (0..cap / 2 + cap % 2).map(|i| (i as u8) ^ 0x5a).collect();
        qs.complete(w, q, &c, &data);
        self.served += 1;
    }
}

pub fn cosim(c: &CoCase, st: &mut Stats) -> Result<(), String> {
    world::reset();
    with(|w| {
        w.dev.default_max = 65536;
        w.dev.status = 0xf;
        w.dev.log_events = false;
        w.dev.accepted = (c.indirect as u64) << 28 | (c.event_idx as u64) << 29;
    });
    let dev = Shared::install(SimDev::new(1, c.policy, Echo { served: 0 }));
    let mut t = MTransport::new();
    let mut q = match guard(|| new_queue(c.log2, &mut t, 0, c.indirect, c.event_idx, false)) {
        Caught::Ok(Ok(q)) => q,
        _ => return Err("queue creation failed".into()),
    };
    // device learns about the queue and arms its notification request
    dev.with(|d| with(|w| d.qs.ensure(w, 0)));
    let n = 1usize << c.log2;
    let mut sig = Sig::new();
    sig.add(c.log2 as u64).add(c.indirect as u64).add(c.event_idx as u64);
    let mut calls = 0u64;
    let mut policy = c.policy;
    let mut would_sleep = false;
    let mut switched = false;
    let one_call = |q: &mut Box<dyn DynQueue>, t: &mut MTransport, ins: &[u16], outs: &[u16], policy: Serve, calls: &mut u64| -> Result<(), String> {
        let mut ib: Vec<Vec<u8>> = ins.iter().map(|&l| vec![0x11; l.max(1) as usize]).collect();
        let mut ob: Vec<Vec<u8>> = outs.iter().map(|&l| vec![0x22; l.max(1) as usize]).collect();
        if ib.len() + ob.len() == 0 {
            ib.push(vec![1]);
        }
        let direct_need = if c.indirect && ib.len() + ob.len() > 1 { 1 } else { ib.len() + ob.len() };
        if direct_need > n || ib.len() + ob.len() > n {
            ib.truncate(1);
            ob.clear();
            if ib.is_empty() {
                ib.push(vec![1]);
            }
        }
        let cap: usize = ob.iter().map(|b| b.len()).sum();
        let is: Vec<&[u8]> = ib.iter().map(|b| b.as_slice()).collect();
        let mut os: Vec<&mut [u8]> = ob.iter_mut().map(|b| b.as_mut_slice()).collect();
        let (n0, served0) = dev.with(|d| (d.qs.v[0].as_ref().map(|s| s.notifies).unwrap_or(0), d.h.served));
        with(|w| w.spins = 0);
        let res = guard(|| q.add_notify_wait_pop(&is, &mut os, t));
        *calls += 1;
        let (n1, served1) = dev.with(|d| (d.qs.v[0].as_ref().map(|s| s.notifies).unwrap_or(0), d.h.served));
        let spins = with(|w| w.spins);
        match res {
            Caught::Ok(Ok(len)) => {
                let want = (cap / 2 + cap % 2) as u32;
                if len != want {
                    return Err(format!("add_notify_wait_pop returned length {} but the device recorded {}", len, want));
                }
            }
            Caught::Ok(Err(e)) => return Err(format!("add_notify_wait_pop failed: {:?}", e)),
            Caught::Panic(p) => return Err(p.render()),
            Caught::Escape(Escape::LostWakeup(m)) => return Err(format!("lost wake-up: {}", m)),
            Caught::Escape(Escape::Starved(m)) => {
                if served1 > served0 {
                    return Err(format!("blocking helper keeps waiting although the device has served the request: {}", m));
                }
                return Err(format!("blocking helper waits on a device that was not told about the request: {}", m));
            }
            Caught::Escape(e) => return Err(format!("inconclusive: {:?}", e)),
        }
        if served1 != served0 + 1 {
            return Err(format!("device served {} requests during one call", served1 - served0));
        }
        match policy {
            Serve::OnNotify | Serve::Late(_) => {
                if n1 == n0 {
                    return Err("helper returned but the device (which asked for notifications) was never notified".into());
                }
                let limit = match policy {
                    Serve::Late(k) => k as u64 + 3,
                    _ => 2,
                };
                if spins > limit {
                    return Err(format!("helper spun {} times although the device served the request after at most {} turns", spins, limit));
                }
            }
            Serve::Poll => {
                if !c.event_idx && n1 != n0 {
                    return Err("device set its suppression flag (polling), but the driver still sent a notification".into());
                }
                if spins > 3 {
                    return Err(format!("helper spun {} times although the polling device served the request on its first turn", spins));
                }
            }
        }
        Ok(())
    };
    for op in &c.ops {
        match op {
            COp::Call { ins, outs } => {
                if !matches!(policy, Serve::Poll) {
                    would_sleep = true;
                }
                one_call(&mut q, &mut t, ins, outs, policy, &mut calls)?;
                sig.add(ins.len() as u64).add(outs.len() as u64);
            }
            COp::Policy(p) => {
                policy = *p;
                switched = true;
                dev.with(|d| with(|w| d.set_policy(w, *p)));
                sig.add(match p {
                    Serve::OnNotify => 100,
                    Serve::Poll => 101,
                    Serve::Late(k) => 102 + *k as u64,
                });
            }
        }
    }
    for i in 0..c.repeat {
        if !matches!(policy, Serve::Poll) {
            would_sleep = true;
        }
        one_call(&mut q, &mut t, &[(i % 5 + 1) as u16], &[(i % 3) as u16 + 1], policy, &mut calls)?;
    }
    let _ = guard(move || {
        use virtio_drivers::transport::Transport;
        t.queue_unset(0);
        drop(q);
        drop(t);
    });
    if let Some(f) = world::first_fault() {
        return Err(f.msg);
    }
    st.class_n("blocking_calls", calls);
    if switched {
        st.class("policy_switched");
    }
    if c.repeat >= 65536 {
        st.class("cosim_wrap_run");
    }
    if would_sleep && calls > 0 {
        st.nontrivial(sig.add(c.repeat as u64).get(), || json!({"cfg": [c.log2 as u32, c.indirect as u32, c.event_idx as u32], "policy": c.policy, "ops": c.ops.iter().take(12).collect::<Vec<_>>(), "repeat": c.repeat}));
    }
    Ok(())
}

fn serve_strategy() -> impl Strategy<Value = Serve> {
    prop_oneof![3 => Just(Serve::OnNotify), 2 => Just(Serve::Poll), 2 => (0u8..6).prop_map(Serve::Late)]
}

fn co_strategy() -> impl Strategy<Value = CoCase> {
    (
        0u8..=5,
        any::<bool>(),
        any::<bool>(),
        serve_strategy(),
        prop::collection::vec(
            prop_oneof![
                6 => (prop::collection::vec(1u16..300, 0..4), prop::collection::vec(1u16..300, 0..4)).prop_map(|(ins, outs)| COp::Call { ins, outs }),
                1 => serve_strategy().prop_map(COp::Policy),
            ],
            1..40,
        ),
    )
        .prop_map(|(log2, indirect, event_idx, policy, ops)| CoCase { log2, indirect, event_idx, policy, ops, repeat: 0 })
}

// ---------------------------------------------------------------------------------------------

#[derive(Clone, Debug, Serialize, Deserialize)]
pub enum Item {
    Sweep(Sweep),
    Table(Table),
    Co(CoCase),
    Drv(crate::props::c08::HCase),
    Wrapped(Wrapped),
    /// stocked event queues: a buffer that is re-posted after a poll (handler Ok / None / Err) must
    /// be announced to a notification-driven device
    Events(crate::props::c19::ECase),
}

/// Interrupt suppression through the buffer-owning queue wrapper: the setting the caller made last
/// (on the plain queue before wrapping it, or through the wrapper) is what the device reads.
#[derive(Clone, Debug, Serialize, Deserialize)]
pub struct Wrapped {
    /// setting made on the plain queue before it is wrapped (None: left alone)
    pub pre: Option<bool>,
    pub toggles: Vec<bool>,
    /// a completion is delivered and polled between toggles
    pub traffic: bool,
}

pub fn events(c: &crate::props::c19::ECase, st: &mut Stats) -> Result<(), String> {
    let mut scratch = Stats::default();
    match crate::props::c19::check(c, &mut scratch) {
        Ok(()) => {}
        Err(m) if m.contains("lost wake-up") || m.contains("was it notified?") => return Err(format!("{:?} on {:?} policy {:?}: {}", c.target, c.kind, c.policy, m)),
        Err(_) => st.class("driver_run_stopped_by_another_oracle"),
    }
    st.class("event_queue_repost_runs");
    Ok(())
}

pub fn wrapped(c: &Wrapped, st: &mut Stats) -> Result<(), String> {
    use virtio_drivers::queue::{OwningQueue, VirtQueue};
    world::reset();
    with(|w| {
        w.dev.default_max = 65536;
        w.dev.status = 0xf;
        w.dev.log_events = false;
    });
    let mut t = MTransport::new();
    let mut q = match guard(|| VirtQueue::<crate::hal::LHal, 4>::new(&mut t, 0, false, false, false)) {
        Caught::Ok(Ok(q)) => q,
        _ => return Err("queue creation failed".into()),
    };
    if let Some(p) = c.pre {
        q.set_dev_notify(p);
    }
    let mut o = match guard(|| OwningQueue::<crate::hal::LHal, 4, 16>::new(q)) {
        Caught::Ok(Ok(o)) => o,
        _ => return Err("OwningQueue construction failed".into()),
    };
    let qs = with(|w| w.dev.queue(0).clone());
    let mut rq = RefQueue::new(qs.size, qs.desc, qs.avail, qs.used, false, false);
    for (i, &e) in c.toggles.iter().enumerate() {
        o.set_dev_notify(e);
        let f = with(|w| rq.avail_flags(&w.hal))?;
        if f != (!e) as u16 {
            let _ = guard(move || {
                drop(o);
                drop(t);
            });
            return Err(format!(
                "OwningQueue::set_dev_notify({}) (toggle #{}, setting before wrapping {:?}) but the device reads avail.flags = {:#x}",
                e, i, c.pre, f
            ));
        }
        if c.traffic {
            let r = with(|w| -> Result<(), String> {
                if let Some(ch) = rq.fetch(&w.hal)? {
                    rq.write_chain(&w.hal, &ch, &[i as u8; 4])?;
                    rq.push_used(&w.hal, ch.head as u32, 4)?;
                }
                Ok(())
            });
            r?;
            let _ = guard(|| o.poll(&mut t, |b| Ok(Some(b.len()))));
        }
    }
    let _ = guard(move || {
        use virtio_drivers::transport::Transport;
        t.queue_unset(0);
        drop(o);
        drop(t);
    });
    st.class("owning_queue_notify_settings");
    let mut s = Sig::new();
    s.add(0x0c).add(c.pre.map(|b| b as u64 + 1).unwrap_or(0)).add(c.traffic as u64);
    for &b in &c.toggles {
        s.add(b as u64);
    }
    if c.pre.is_some() && c.toggles.len() >= 2 {
        st.nontrivial(s.get(), || json!(c));
    }
    Ok(())
}

/// Part 4: the blocking helpers of every driver against notification-driven / late / polling
/// devices, for every combination of the two ring features. Only lost wake-ups are judged here
/// (everything else the driver's reference device notices belongs to that driver's property).
pub fn drivers(c: &crate::props::c08::HCase, st: &mut Stats) -> Result<(), String> {
    let mut scratch = Stats::default();
    match crate::props::c08::usage(c, &mut scratch) {
        Ok(()) => {}
        // "(was it notified?)": a non-blocking submission the notification-driven device never saw
        // ... or a blocking call that can never return because the device has nothing it could act on
        Err(m) if m.contains("lost wake-up") || m.contains("was it notified?") || m.contains("blocking call never returns") => return Err(format!("{:?} on {:?} offered {:#x} policy {:?}: {}", c.drv, c.kind, c.offered, c.policy, m)),
        Err(_) => st.class("driver_run_stopped_by_another_oracle"),
    }
    st.class("driver_blocking_helper_runs");
    let mut s = Sig::new();
    s.add(0xd7).add(c.drv as u64).add(c.kind as u64).add(c.offered).add(match c.policy {
        Serve::OnNotify => 1,
        Serve::Poll => 2,
        Serve::Late(n) => 3 + n as u64,
    });
    if !matches!(c.policy, Serve::Poll) {
        st.nontrivial(s.get(), || json!(c));
    }
    Ok(())
}

pub fn replay(engine: &str, case: &serde_json::Value) -> Result<(), String> {
    let mut st = Stats::default();
    match engine {
        "qh" => {
            let c: qh::QCase = serde_json::from_value(case.clone()).map_err(|e| e.to_string())?;
            qh::run_case(&c, "C05", &mut st)
        }
        "cosim" => {
            let c: CoCase = serde_json::from_value(case.clone()).map_err(|e| e.to_string())?;
            cosim(&c, &mut st)
        }
        _ => {
            let c: Item = serde_json::from_value(case.clone()).map_err(|e| e.to_string())?;
            let c = strict(c);
            match &c {
                Item::Sweep(s) => sweep(s, &mut st),
                Item::Table(t) => table(t, &mut st),
                Item::Co(c) => cosim(c, &mut st),
                Item::Drv(c) => drivers(c, &mut st),
                Item::Wrapped(c) => wrapped(c, &mut st),
                Item::Events(c) => events(c, &mut st),
            }
        }
    }
}

fn strict(i: Item) -> Item {
    // replay never excludes known findings
    match i {
        Item::Sweep(mut s) => {
            s.exclude_known = false;
            Item::Sweep(s)
        }
        Item::Table(mut t) => {
            t.exclude_known = false;
            Item::Table(t)
        }
        x => x,
    }
}

pub fn run(ctx: &Ctx) -> Report {
    let known = load_known(&ctx.root);
    let exclude = known_open(&known, "C05", KEY_D1);
    let mut stats = Stats::default();
    let mut items: Vec<Item> = Vec::new();
    let sizes: &[u8] = if ctx.quick() { &[1, 2, 3] } else { &[0, 1, 2, 3, 4, 5] };
    for &log2 in sizes {
        let n = 1u16 << log2;
        for b in 1..=n {
            let mut poss: Vec<i32> = (0..b as i32).collect();
            poss.extend([-1, b as i32, 0x8000]);
            for pos in poss {
                items.push(Item::Sweep(Sweep { log2, indirect: b.wrapping_add(pos as u16) % 2 == 1, b, pos, windows: 0, start: 0, exclude_known: exclude }));
            }
        }
    }
    if !ctx.quick() {
        // larger queues: windows around the wrap and a sample of batch sizes
        for log2 in [6u8, 8] {
            let n = 1u16 << log2;
            for b in [1, 2, 3, n / 2, n - 1, n] {
                for pos in [0, (b as i32) / 2, b as i32 - 1, -1, b as i32] {
                    items.push(Item::Sweep(Sweep { log2, indirect: false, b, pos, windows: 0, start: 0, exclude_known: exclude }));
                }
            }
        }
    }
    // full table, split over `new`
    let chunks = 64u32;
    for k in 0..chunks {
        let (from, to) = (k * 65536 / chunks, (k + 1) * 65536 / chunks);
        if ctx.quick() {
            items.push(Item::Table(Table { log2: 3, from, to, spread: 0, exclude_known: exclude }));
        } else {
            for log2 in [0u8, 2, 3, 5, 8] {
                items.push(Item::Table(Table { log2, from, to, spread: 0, exclude_known: exclude }));
            }
        }
    }
    // co-simulation long runs crossing the wrap
    for (i, pol) in [Serve::OnNotify, Serve::Late(2), Serve::Poll].into_iter().enumerate() {
        for ev in [false, true] {
            for indirect in [false, true] {
                let reps = if ctx.quick() { 70_000 } else { 140_000 };
                items.push(Item::Co(CoCase { log2: (i as u8 + ev as u8) % 3 + 1, indirect, event_idx: ev, policy: pol, ops: vec![], repeat: reps }));
            }
        }
    }
    // every driver's blocking helpers, every combination of the two ring features, three policies
    for drv in crate::props::c08::ALL_D {
        for kind in [crate::tkind::TK::Model, crate::tkind::TK::MmioModern, crate::tkind::TK::Pci, crate::tkind::TK::MmioLegacy] {
            for m in 0..4u64 {
                for policy in [Serve::OnNotify, Serve::Late(2), Serve::Poll] {
                    let offered = (m & 1) << 28 | (m >> 1) << 29 | 1 << 32 | (drv.supported() & 0xffff_ffff & !(1 << 28 | 1 << 29));
                    items.push(Item::Drv(crate::props::c08::HCase { drv, kind, offered, policy, legacy_raw_offer: false, refuse_features_ok: false }));
                }
            }
        }
    }
    // stocked event queues: every handler outcome x policy x ring feature
    {
        use crate::props::c19::{ECase, EOp, Target};
        for target in [Target::Owning(1, 0), Target::Owning(2, 1), Target::Input, Target::Sound] {
            for policy in [Serve::OnNotify, Serve::Late(1)] {
                for ev in [0u64, 1 << 29] {
                    for first in 0..3u8 {
                        let ops = vec![EOp::Fire { pick: 0, len: 8 }, EOp::PollWith(first), EOp::Fire { pick: 0, len: 8 }, EOp::PollWith((first + 1) % 3), EOp::Burst { n: 2, rot: 1 }, EOp::PollWith((first + 2) % 3), EOp::Poll, EOp::Drain];
                        items.push(Item::Events(ECase { target, kind: crate::tkind::TK::Model, offered: 1 << 32 | ev, policy, ops, rounds: 2 }));
                    }
                }
            }
        }
    }
    // interrupt suppression through the owning wrapper: every setting before wrapping x every
    // toggle sequence of length <= 4, with and without traffic in between
    for pre in [None, Some(false), Some(true)] {
        for len in 1..=4u32 {
            for bits in 0..(1u32 << len) {
                for traffic in [false, true] {
                    items.push(Item::Wrapped(Wrapped { pre, toggles: (0..len).map(|k| bits >> k & 1 != 0).collect(), traffic }));
                }
            }
        }
    }
    let (st, mut failure) = run_items(ctx, "items", items, |it: &Item, st| match it {
        Item::Sweep(s) => sweep(s, st),
        Item::Table(t) => table(t, st),
        Item::Co(c) => cosim(c, st),
        Item::Drv(c) => drivers(c, st),
        Item::Wrapped(c) => wrapped(c, st),
        Item::Events(c) => events(c, st),
    });
    stats.merge(st);
    if failure.is_none() {
        let (st, f) = run_proptest(ctx, "cosim", 51, ctx.n(30_000, 600_000), co_strategy, |c: &CoCase, st| cosim(c, st));
        stats.merge(st);
        failure = f;
    }
    if failure.is_none() {
        let (st, f) = run_proptest(ctx, "qh", 52, ctx.n(10_000, 300_000), || qh::case_strategy(120, 10), |c: &qh::QCase, st| qh::run_case(c, "C05", st));
        stats.merge(st);
        failure = f;
    }
    if exclude && stats.known_excluded > 0 {
        stats.known_hits.retain(|k, _| k == KEY_D1);
    }
    Report {
        stats,
        failure,
        info: PartInfo {
            level: "exploration",
            rule: "(1) event-index sweep: for every queue size in the tier, every batch size b<=N and every placement of avail_event relative to the window [old,new) (each position inside, the two just outside, the far side), walk the real queue through all 65536 index values (one independent should_notify scenario per window) and require vring_need_event(event,new,old) => should_notify(); plus, when the implementation is observed to be stateless, the full 65536x65536 (available index, avail_event) table. (2) queue histories: flag mode equivalence, set_dev_notify as read by the device, used_event after each consumed completion. (3) co-simulation of add_notify_wait_pop against OnNotify / Poll / Late devices through the spin hook, incl. runs of >65536 calls: returns, with the recorded length, within the policy's turn bound, having notified iff asked. (4) every driver's blocking helpers (11 drivers x 4 transports x {INDIRECT, EVENT_IDX} subsets x OnNotify / Late / Poll) on the driver's reference device, whose unused suppression field carries a decoy: no call may wait on a queue with entries the device was never told about. (6) stocked event queues (OwningQueue, input, sound): after a poll whose handler returns Ok / None / Err the re-posted buffer is announced to a notification-driven device. (5) OwningQueue::set_dev_notify for every setting made before wrapping and every toggle sequence of length <= 4: the device reads exactly the last setting. Histories (2) also check should_notify against vring_need_event over the window since the previous check, whatever was popped in between. Non-trivial = a sweep/table item that includes windows crossing 65535->0, or a co-simulation in which the device would sleep forever without the notification; distinct = item parameters / (config, call shapes, policy switches).",
            assumptions: vec![
                "the co-simulated device re-arms avail_event / used.flags after every service turn and re-checks the ring, as the specification requires of devices".into(),
                "blocking helpers of the individual drivers are exercised against notification-driven devices in the driver checks (C14-C20); this check covers the shared helper on the raw queue".into(),
            ],
            exhaustive: false,
            extra: json!({}),
        },
    }
}
