//! C06: queue memory layout / registration / release, exhaustive over the configuration grid,
//! plus generated device-address bases.

use crate::dev::{Ev, MTransport};
use crate::dynq::new_queue;
use crate::hal::{Dir, HalEv, Kind};
use crate::runner::{guard, run_items, run_proptest, Caught, Ctx, PartInfo, Report, Sig, Stats};
use crate::world::{self, with};
use proptest::prelude::*;
use serde::{Deserialize, Serialize};
use serde_json::json;
use virtio_drivers::transport::Transport;
use virtio_drivers::Error;

#[derive(Clone, Debug, Serialize, Deserialize)]
pub struct LCase {
    pub log2: u8,
    pub legacy: bool,
    pub indirect: bool,
    pub event_idx: bool,
    pub ap: bool,
    pub in_use: bool,
    pub max: u32,
    /// 0 = no fault, k = k-th dma_alloc fails
    pub fail: u8,
    pub base: u64,
    pub qidx: u16,
}

fn align_page(x: u64) -> u64 {
    (x + 4095) & !4095
}

pub fn check(c: &LCase, st: &mut Stats) -> Result<(), String> {
    world::reset();
    let n = 1u64 << c.log2;
    with(|w| {
        w.dev.legacy = c.legacy;
        w.dev.force_used = c.in_use;
        w.dev.default_max = c.max;
        w.dev.status = 0xb;
        w.hal.next_dma = c.base;
        w.hal.fail_alloc_at = if c.fail == 0 { None } else { Some(c.fail as u64) };
    });
    let mut t = MTransport::new();
    let res = match guard(|| new_queue(c.log2, &mut t, c.qidx, c.indirect, c.event_idx, c.ap)) {
        Caught::Ok(r) => r,
        Caught::Panic(p) => return Err(format!("queue creation panicked: {}", p.render())),
        Caught::Escape(e) => return Err(format!("{:?}", e)),
    };
    let (events, hal_log) = with(|w| (w.dev.ev.clone(), w.hal.log.clone()));
    let sets: Vec<&Ev> = events.iter().filter(|e| matches!(e, Ev::QueueSet { .. })).collect();
    let allocs = hal_log.iter().filter(|e| matches!(e, HalEv::Alloc(_) | HalEv::AllocFailed { .. })).count();
    let too_small = (c.max as u64) < n;
    let refused = c.in_use || too_small;
    // How many allocations back a queue is the implementation's choice; whether the injected
    // failure was reached is read off the platform's log, not predicted.
    let dma_fails = hal_log.iter().any(|e| matches!(e, HalEv::AllocFailed { .. }));
    let mut sig = Sig::new();
    sig.add(c.log2 as u64).add(c.legacy as u64).add(c.indirect as u64).add(c.event_idx as u64).add(c.ap as u64);
    sig.add(c.in_use as u64).add(c.max as u64).add(c.fail as u64).add(c.base);
    if refused {
        st.class("refused");
        // the property says "refused", not with which error value
        if res.is_ok() {
            return Err(format!(
                "in_use={} max={} size={}: expected refusal ({}), got {:?}",
                c.in_use,
                c.max,
                n,
                if c.in_use && too_small { "in use and too small" } else if c.in_use { "in use" } else { "too small" },
                res.as_ref().map(|_| "Ok(queue)")
            ));
        }
        if !sets.is_empty() || allocs != 0 {
            return Err(format!("refused creation made {} queue_set calls and {} dma_alloc calls", sets.len(), allocs));
        }
        st.nontrivial(sig.get(), || json!(c));
        return Ok(());
    }
    if dma_fails {
        st.class("dma_failure");
        if !matches!(res, Err(Error::DmaError)) {
            return Err(format!("dma_alloc #{} failed but creation returned {:?}", c.fail, res.as_ref().map(|_| "Ok(queue)")));
        }
        if !sets.is_empty() {
            return Err("queue_set was called although a DMA allocation failed".into());
        }
        let live = with(|w| w.hal.live_dma_count());
        if live != 0 {
            return Err(format!("{} DMA regions leaked after failed creation", live));
        }
        if let Some(f) = world::first_fault() {
            return Err(f.msg);
        }
        st.nontrivial(sig.get(), || json!(c));
        return Ok(());
    }
    let q = match res {
        Ok(q) => q,
        Err(e) => return Err(format!("creation failed with {:?} although the transport accepted (max {}, size {})", e, c.max, n)),
    };
    st.class("created");
    if sets.len() != 1 {
        return Err(format!("{} queue_set calls, expected exactly 1", sets.len()));
    }
    let Ev::QueueSet { q: qi, size, desc: d, avail: a, used: u } = sets[0].clone() else { unreachable!() };
    if qi != c.qidx || size as u64 != n {
        return Err(format!("queue_set(queue {}, size {}) for queue {} of size {}", qi, size, c.qidx, n));
    }
    if d % 16 != 0 || a % 2 != 0 || u % 4 != 0 {
        return Err(format!("misaligned areas: desc {:#x} (16) avail {:#x} (2) used {:#x} (4)", d, a, u));
    }
    let areas = [(d, 16 * n, false, "descriptor area"), (a, 6 + 2 * n, false, "driver area"), (u, 6 + 8 * n, true, "device area")];
    for i in 0..3 {
        for j in i + 1..3 {
            let (s1, l1, _, n1) = areas[i];
            let (s2, l2, _, n2) = areas[j];
            if (s1 as u128) < s2 as u128 + l2 as u128 && (s2 as u128) < s1 as u128 + l1 as u128 {
                return Err(format!("{} [{:#x},+{}) overlaps {} [{:#x},+{})", n1, s1, l1, n2, s2, l2));
            }
        }
    }
    for (s, l, dev_writes, name) in areas {
        let r = with(|w| w.hal.region_containing(s, l as usize).cloned());
        let Some(r) = r else {
            return Err(format!("{} [{:#x},+{}) is not wholly inside one live DMA region", name, s, l));
        };
        if !matches!(r.kind, Kind::Dma { .. }) {
            return Err(format!("{} is not in DMA memory", name));
        }
        let ok = match r.dir {
            Dir::Both => true,
            Dir::ToDev => !dev_writes,
            Dir::FromDev => dev_writes,
        };
        if !ok {
            return Err(format!("{} lies in a DMA region allocated with direction {:?}", name, r.dir));
        }
        if r.ap != c.ap {
            return Err(format!("{} allocated with access_platform={} on a queue with {}", name, r.ap, c.ap));
        }
    }
    // rings zeroed
    let (av, us) = with(|w| (w.hal.peek(a, (6 + 2 * n) as usize), w.hal.peek(u, (6 + 8 * n) as usize)));
    if av.map_err(|e| e)?.iter().any(|&b| b != 0) {
        return Err("available ring is not zeroed after creation".into());
    }
    if us.map_err(|e| e)?.iter().any(|&b| b != 0) {
        return Err("used ring is not zeroed after creation".into());
    }
    let alloc_idx: Vec<usize> = hal_log.iter().filter_map(|e| if let HalEv::Alloc(i) = e { Some(*i) } else { None }).collect();
    if c.legacy {
        if alloc_idx.len() != 1 {
            return Err(format!("legacy layout made {} DMA allocations, expected one contiguous region", alloc_idx.len()));
        }
        if d % 4096 != 0 {
            return Err(format!("legacy descriptor area {:#x} is not page aligned", d));
        }
        let want_a = d + 16 * n;
        let want_u = align_page(d + 16 * n + 6 + 2 * n);
        if a != want_a || u != want_u {
            return Err(format!("legacy layout: avail {:#x} (want {:#x}), used {:#x} (want {:#x})", a, want_a, u, want_u));
        }
    } else {
        // Any number of regions will do as long as every area lies in one whose direction
        // permits the device's accesses (checked per area above).
        if alloc_idx.is_empty() {
            return Err("queue created without any DMA allocation".into());
        }
    }
    // release
    let log0 = with(|w| w.hal.log.len());
    match guard(move || {
        let mut t = t;
        t.queue_unset(c.qidx);
        drop(q);
        drop(t);
    }) {
        Caught::Ok(()) => {}
        Caught::Panic(p) => return Err(format!("dropping the queue panicked: {}", p.render())),
        Caught::Escape(e) => return Err(format!("{:?}", e)),
    }
    if let Some(f) = world::first_fault() {
        return Err(f.msg);
    }
    let (deallocs, live) = with(|w| {
        let d: Vec<usize> = w.hal.log[log0..].iter().filter_map(|e| if let HalEv::Dealloc(i) = e { Some(*i) } else { None }).collect();
        (d, w.hal.live_dma_count())
    });
    let mut x = deallocs.clone();
    x.sort();
    let mut y = alloc_idx.clone();
    y.sort();
    if x != y || live != 0 {
        return Err(format!("allocations {:?} but deallocations {:?} ({} still live)", y, x, live));
    }
    if c.log2 >= 8 || c.legacy {
        st.nontrivial(sig.get(), || json!(c));
    }
    Ok(())
}

// ---------------------------------------------------------------------------------------------
// The same registration through the real register-level transports: what the *device* ends up
// being told (after the transport split the addresses into its registers) must be the areas the
// platform ledger knows, also when a ring straddles a 4 GiB boundary.

#[derive(Clone, Debug, Serialize, Deserialize)]
pub struct RealCase {
    pub kind: crate::tkind::TK,
    pub log2: u8,
    pub indirect: bool,
    pub event_idx: bool,
    /// address of the first DMA allocation
    pub base: u64,
}

struct RealRun<'a> {
    c: &'a RealCase,
    /// the areas the queue code hands to `Transport::queue_set` for this size, flags and DMA
    /// placement, observed on the recording transport
    want: (u64, u64, u64),
}

impl crate::tkind::WithT for RealRun<'_> {
    type Out = Result<(), String>;
    fn call<T: virtio_drivers::transport::Transport + 'static>(self, t: T) -> Self::Out {
        let c = self.c;
        let n = 1u64 << c.log2;
        let legacy = c.kind.legacy();
        let mut t = t;
        if legacy {
            t.set_guest_page_size(4096);
        }
        let log0 = with(|w| {
            w.hal.next_dma = c.base;
            w.hal.log.len()
        });
        let q = match guard(|| new_queue(c.log2, &mut t, 0, c.indirect, c.event_idx, false)) {
            Caught::Ok(Ok(q)) => q,
            Caught::Ok(Err(e)) => return Err(format!("creation failed with {:?}", e)),
            Caught::Panic(p) => return Err(format!("queue creation panicked: {}", p.render())),
            Caught::Escape(e) => return Err(format!("{:?}", e)),
        };
        let regions: Vec<(u64, usize, Dir)> = with(|w| {
            w.hal.log[log0..].iter().filter_map(|e| if let HalEv::Alloc(i) = e { Some((w.hal.regions[*i].paddr, w.hal.regions[*i].len, w.hal.regions[*i].dir)) } else { None }).collect()
        });
        let _ = &regions;
        let (want_d, want_a, want_u) = self.want;
        let told = with(|w| w.dev.queue(0).clone());
        if !told.ready || told.size as u64 != n || told.desc != want_d || told.avail != want_a || told.used != want_u {
            return Err(format!(
                "the device was told size {} desc {:#x} driver {:#x} device {:#x} (ready: {}), the queue lives at desc {:#x} driver {:#x} device {:#x} (size {})",
                told.size, told.desc, told.avail, told.used, told.ready, want_d, want_a, want_u, n
            ));
        }
        for (s_, l, name) in [(told.desc, 16 * n, "descriptor area"), (told.avail, 6 + 2 * n, "driver area"), (told.used, 6 + 8 * n, "device area")] {
            if with(|w| w.hal.region_containing(s_, l as usize).is_none()) {
                return Err(format!("{} [{:#x},+{}) as registered with the device is not wholly inside one live DMA region", name, s_, l));
            }
        }
        let _ = guard(move || {
            t.queue_unset(0);
            drop(q);
            drop(t);
        });
        if let Some(f) = world::first_fault() {
            if f.prop != "notify_early" {
                return Err(f.msg);
            }
        }
        Ok(())
    }
}

pub fn check_real(c: &RealCase, st: &mut Stats) -> Result<(), String> {
    // reference: what the queue passes to queue_set (allocation is deterministic given the base)
    world::reset();
    with(|w| {
        w.dev.legacy = c.kind.legacy();
        w.dev.default_max = 65536;
        w.dev.status = 0xb;
        w.hal.next_dma = c.base;
    });
    let want = {
        let mut mt = MTransport::new();
        let q = match guard(|| new_queue(c.log2, &mut mt, 0, c.indirect, c.event_idx, false)) {
            Caught::Ok(Ok(q)) => q,
            Caught::Ok(Err(e)) => return Err(format!("{:?}: creation failed with {:?}", c, e)),
            Caught::Panic(p) => return Err(format!("{:?}: queue creation panicked: {}", c, p.render())),
            Caught::Escape(e) => return Err(format!("{:?}: {:?}", c, e)),
        };
        let set = with(|w| w.dev.ev.iter().find_map(|e| if let Ev::QueueSet { desc, avail, used, .. } = e { Some((*desc, *avail, *used)) } else { None }));
        let _ = guard(move || {
            mt.queue_unset(0);
            drop(q);
            drop(mt);
        });
        match set {
            Some(s) => s,
            None => return Err(format!("{:?}: queue created without a queue_set call", c)),
        }
    };
    world::reset();
    with(|w| {
        w.dev.default_max = 65536;
        w.dev.offered = 1 << 32 | 1 << 28 | 1 << 29;
    });
    crate::tkind::with_transport(c.kind, 4, 0, RealRun { c, want }).map_err(|m| format!("{:?}: {}", c, m))?.map_err(|m| format!("{:?} size {} base {:#x}: {}", c.kind, 1u32 << c.log2, c.base, m))?;
    st.class("registered_through_real_transport");
    let n = 1u64 << c.log2;
    let crosses = (c.base >> 32) != ((c.base + 16 * n + 6 + 2 * n + 4096 + 6 + 8 * n) >> 32);
    let mut s = Sig::new();
    s.add(0x4ea1).add(c.kind as u64).add(c.log2 as u64).add(c.base);
    if crosses {
        st.class("queue_straddles_4gib");
        st.nontrivial(s.get(), || json!(c));
    }
    Ok(())
}

pub fn real_grid() -> Vec<RealCase> {
    use crate::tkind::TK;
    let mut v = Vec::new();
    for kind in [TK::MmioModern, TK::MmioLegacy, TK::Pci] {
        for log2 in [0u8, 3, 8, 10, 12] {
            let n = 1u64 << log2;
            let table = (16 * n + 4095) & !4095;
            // plain, and placements that put the 4 GiB boundary after the descriptor table, inside
            // the first region, and between the two regions
            let mut bases = vec![0x4000_0000u64, (1 << 32) - table, (1 << 32) - 4096, (1 << 32) - table - 4096, (3u64 << 32) - table];
            if kind == TK::MmioLegacy {
                // the legacy page frame number is 32 bits wide: stay below 2^44
                bases.retain(|b| *b < 1 << 43);
            }
            for base in bases {
                v.push(RealCase { kind, log2, indirect: log2 % 2 == 0, event_idx: log2 % 3 == 0, base });
            }
        }
    }
    v
}

pub fn grid() -> Vec<LCase> {
    let mut v = Vec::new();
    for log2 in 0..=15u8 {
        let n = 1u32 << log2;
        for legacy in [false, true] {
            for m in 0..8u8 {
                for in_use in [false, true] {
                    for max in [0, n / 2, n - 1, n, n + 1, 65536, u32::MAX] {
                        for fail in 0..=2u8 {
                            v.push(LCase {
                                log2,
                                legacy,
                                indirect: m & 1 != 0,
                                event_idx: m & 2 != 0,
                                ap: m & 4 != 0,
                                in_use,
                                max,
                                fail,
                                base: if legacy { 0x4000_0000 } else { 0x12_3400_0000 },
                                qidx: (log2 as u16) % 3,
                            });
                        }
                    }
                }
            }
        }
    }
    v
}

fn strategy() -> impl Strategy<Value = LCase> {
    (
        0u8..=15,
        any::<bool>(),
        0u8..8,
        prop::bool::weighted(0.1),
        prop_oneof![3 => Just(65536u32), 1 => any::<u32>(), 1 => 0u32..=40000],
        prop_oneof![3 => Just(0u8), 1 => 1u8..=3],
        prop_oneof![
            (1u64..(1 << 20)).prop_map(|p| p << 12),
            (1u64..(1 << 40)).prop_map(|p| p << 12),
            (0u64..(1 << 12)).prop_map(|p| 0xffff_fff0_0000_0000u64.wrapping_sub(p << 24)),
        ],
        any::<u16>(),
    )
        .prop_map(|(log2, legacy, m, in_use, max, fail, base, qidx)| LCase {
            log2,
            legacy,
            indirect: m & 1 != 0,
            event_idx: m & 2 != 0,
            ap: m & 4 != 0,
            in_use,
            max,
            fail,
            // legacy MMIO needs a 32-bit page frame number
            base: if legacy { base & 0x0000_0fff_ffff_f000 | 0x1000 } else { base },
            qidx,
        })
}

pub fn replay(case: &serde_json::Value) -> Result<(), String> {
    if case.get("kind").is_some() {
        let c: RealCase = serde_json::from_value(case.clone()).map_err(|e| e.to_string())?;
        return check_real(&c, &mut Stats::default());
    }
    let c: LCase = serde_json::from_value(case.clone()).map_err(|e| e.to_string())?;
    check(&c, &mut Stats::default())
}

pub fn run(ctx: &Ctx) -> Report {
    let mut stats = Stats::default();
    let items = grid();
    let grid_n = items.len();
    let (st, mut failure) = run_items(ctx, "layout", items, check);
    stats.merge(st);
    if failure.is_none() {
        let (st, f) = run_proptest(ctx, "layout", 7, ctx.n(100_000, 30_000_000), strategy, |c: &LCase, st| check(c, st));
        stats.merge(st);
        failure = f;
    }
    if failure.is_none() {
        let (st, f) = run_items(ctx, "real-transport", real_grid(), check_real);
        stats.merge(st);
        failure = f;
    }
    if failure.is_none() {
        let strat = || {
            use crate::tkind::TK;
            (0usize..3, 0u8..=12, any::<bool>(), any::<bool>(), prop_oneof![Just(1u64 << 32), Just(2u64 << 32), Just(0x8000_0000u64)], 0u64..40).prop_map(|(k, log2, indirect, event_idx, edge, pages)| {
                let kind = [TK::MmioModern, TK::MmioLegacy, TK::Pci][k];
                RealCase { kind, log2, indirect, event_idx, base: edge - pages * 4096 }
            })
        };
        let (st, f) = run_proptest(ctx, "real-transport", 8, ctx.n(20_000, 2_000_000), strat, |c: &RealCase, st| check_real(c, st));
        stats.merge(st);
        failure = f;
    }
    Report {
        stats,
        failure,
        info: PartInfo {
            level: "exploration",
            rule: "real transports: the same creation through the register-level MMIO (modern, legacy) and PCI transports with the first DMA allocation placed so that a 4 GiB boundary falls after the descriptor table, inside a region or between the regions: what the device model ends up being told equals where the platform ledger says the queue lives. exhaustive grid: sizes 2^0..2^15 x {modern,legacy} x 8 flag combinations x in-use answer x max-size in {0,N/2,N-1,N,N+1,65536,u32::MAX} x DMA fault at allocation {none,1,2}; plus proptest over random device-address bases, queue indices and max sizes. Oracle: geometry (alignment, size, disjointness, containment in live DMA memory of a permitting direction, zeroed rings, legacy contiguity) computed independently, refusal without side effects, exact release. Non-trivial = size >= 256, legacy layout, a refusal or a DMA failure; distinct = configuration tuple.",
            assumptions: vec!["the grid part is enumerated completely on every run (grid_configurations); the device-address-base part is sampled".into()],
            exhaustive: false,
            extra: json!({"grid_configurations": grid_n, "grid_exhaustive": true}),
        },
    }
}
