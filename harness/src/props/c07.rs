//! C07: a misbehaving device cannot corrupt driver state or cause invalid memory access.
//! One decoder (from bytes) serves both the proptest engine and the libFuzzer/ASan targets.

use crate::dev::MTransport;
use crate::devq::{Handler, Queues, Serve, Shared, SimDev};
use crate::hal::LHal;
#[cfg(not(feature = "fuzz-min"))]
use crate::props::{c14, c15, c16, c18, c19, c20, qh};
use crate::ring::Chain;
use crate::runner::{guard, known_open, load_known, Caught, Sig, Stats};
#[cfg(not(feature = "fuzz-min"))]
use crate::runner::{run_proptest, Ctx, PartInfo, Report};
use crate::world::{self, with, World};
use embedded_io::{BufRead, Read, ReadReady, Write};
#[cfg(not(feature = "fuzz-min"))]
use proptest::prelude::*;
use serde::{Deserialize, Serialize};
use serde_json::json;
use virtio_drivers::device::blk::{BlkReq, BlkResp, VirtIOBlk};
use virtio_drivers::device::console::VirtIOConsole;
use virtio_drivers::device::gpu::VirtIOGpu;
use virtio_drivers::device::input::VirtIOInput;
use virtio_drivers::device::net::{VirtIONet, VirtIONetRaw};
use virtio_drivers::device::rng::VirtIORng;
use virtio_drivers::device::rtc::VirtIORtc;
use virtio_drivers::device::socket::{VirtIOSocket, VsockAddr, VsockConnectionManager};
use virtio_drivers::device::sound::{PcmFeatures, PcmFormat, PcmRate, VirtIOSound};
use virtio_drivers::device::virtio_9p::VirtIO9p;
use virtio_drivers::queue::{OwningQueue, VirtQueue};
use virtio_drivers::transport::Transport;

pub const KEY_D9: &str = "owning-queue-oversize-len-not-reposted";
pub const KEY_D10: &str = "sound-pcm_xfer-returns-with-stack-buffers-posted";

#[derive(Clone, Copy, Debug, Serialize, Deserialize, PartialEq, Eq)]
pub enum Tgt {
    RawQueue,
    Owning,
    Blk,
    Console,
    NetRaw,
    Net,
    Input,
    Vsock,
    Sound,
    Gpu,
    Rng,
    Rtc,
    P9,
}

pub const ALL_TGT: [Tgt; 13] = [Tgt::RawQueue, Tgt::Owning, Tgt::Blk, Tgt::Console, Tgt::NetRaw, Tgt::Net, Tgt::Input, Tgt::Vsock, Tgt::Sound, Tgt::Gpu, Tgt::Rng, Tgt::Rtc, Tgt::P9];

#[derive(Clone, Debug, Serialize, Deserialize)]
pub struct XCase {
    pub tgt: Tgt,
    pub features: u8,
    /// device behaviour script (consumed cyclically)
    pub chaos: Vec<u8>,
    /// driver call script
    pub calls: Vec<u8>,
    /// configuration-space bytes
    pub config: Vec<u8>,
}

/// Byte cursor that cycles.
pub struct Script {
    b: Vec<u8>,
    i: usize,
}
impl Script {
    pub fn new(b: &[u8]) -> Self {
        Script { b: if b.is_empty() { vec![0] } else { b.to_vec() }, i: 0 }
    }
    pub fn u8(&mut self) -> u8 {
        let v = self.b[self.i % self.b.len()];
        self.i += 1;
        v
    }
    pub fn u16(&mut self) -> u16 {
        u16::from_le_bytes([self.u8(), self.u8()])
    }
    pub fn u32(&mut self) -> u32 {
        u32::from_le_bytes([self.u8(), self.u8(), self.u8(), self.u8()])
    }
}

/// The chaotic device.
pub struct ChaosDev {
    pub s: Script,
    pub held: Vec<(u16, Chain)>,
    pub last_ids: Vec<u32>,
    pub malformed: u64,
    pub completions: u64,
    pub plausible: Tgt,
    pub scribble: bool,
}

impl ChaosDev {
    fn response(&mut self, cap: usize, q: u16) -> Vec<u8> {
        let mode = self.s.u8() % 4;
        let n = match mode {
            0 => cap,
            1 => 0,
            2 => (self.s.u16() as usize) % (cap + 1),
            _ => cap.min(64),
        };
        let mut v: Vec<u8> = (0..n).map(|_| self.s.u8()).collect();
        // plausible headers so that parsing gets past the first check now and then
        if !v.is_empty() && self.s.u8() % 2 == 0 {
            match (self.plausible, q) {
                (Tgt::Gpu, 0) if v.len() >= 4 => {
                    let t: u32 = [0x1100, 0x1101, 0x1104, 0x1200][self.s.u8() as usize % 4];
                    v[..4].copy_from_slice(&t.to_le_bytes());
                }
                (Tgt::Sound, 0) if v.len() >= 4 => v[..4].copy_from_slice(&0x8000u32.to_le_bytes()),
                (Tgt::Sound, 2) if v.len() >= 4 => v[..4].copy_from_slice(&0x8000u32.to_le_bytes()),
                (Tgt::Rtc, 0) => v[0] = 0,
                (Tgt::Blk, 0) => {
                    let l = v.len();
                    v[l - 1] = self.s.u8() % 4;
                }
                (Tgt::Vsock, 0) if v.len() >= 44 => {
                    v[8..16].copy_from_slice(&0x42u64.to_le_bytes());
                    if self.s.u8() % 8 != 0 {
                        // addressed to the connection the exerciser uses
                        v[0..8].copy_from_slice(&2u64.to_le_bytes());
                        v[16..20].copy_from_slice(&7u32.to_le_bytes());
                        v[20..24].copy_from_slice(&80u32.to_le_bytes());
                    }
                    v[28..30].copy_from_slice(&1u16.to_le_bytes());
                    v[30..32].copy_from_slice(&((self.s.u8() % 9) as u16).to_le_bytes());
                    let len_mode = self.s.u8() % 4;
                    let l: u32 = match len_mode {
                        0 => 0,
                        1 => (v.len() - 44) as u32,
                        2 => [u32::MAX, 469, 600, 1000][self.s.u8() as usize % 4],
                        _ => self.s.u16() as u32 % 1200,
                    };
                    v[24..28].copy_from_slice(&l.to_le_bytes());
                }
                _ => {}
            }
        }
        v
    }

    /// Complete `c` on queue `q` according to the script.
    fn misbehave(&mut self, w: &mut World, qs: &mut Queues, q: u16, c: Chain) {
        let n = qs.v[q as usize].as_ref().map(|s| s.rq.n).unwrap_or(1);
        let cap = c.writable_len();
        let d = self.s.u8() % 16;
        let data = self.response(cap, q);
        // write the response bytes (only into what the chain offers)
        if let Some(s) = qs.v[q as usize].as_ref() {
            let _ = s.rq.write_chain(&w.hal, &c, &data);
        }
        let head = c.head as u32;
        let push = |w: &mut World, qs: &mut Queues, id: u32, len: u32| {
            if let Some(s) = qs.v[q as usize].as_mut() {
                let _ = s.rq.push_used(&w.hal, id, len);
            }
        };
        match d {
            0..=7 => {
                push(w, qs, head, data.len() as u32);
                self.completions += 1;
            }
            8 => {
                let over = match self.s.u8() % 3 {
                    0 => cap as u32 + 1,
                    1 => u32::MAX,
                    _ => cap as u32 + self.s.u16() as u32,
                };
                push(w, qs, head, over);
                self.malformed += 1;
            }
            9 => {
                // an id that was completed before, then the right one
                let old = self.last_ids.last().copied().unwrap_or(head);
                push(w, qs, old, data.len() as u32);
                push(w, qs, head, data.len() as u32);
                self.malformed += 1;
            }
            10 => {
                // never issued / out of range, then the right one
                let bogus = match self.s.u8() % 3 {
                    0 => n + self.s.u8() as u32,
                    1 => u32::MAX,
                    _ => (head + 1 + self.s.u8() as u32) % n.max(1),
                };
                push(w, qs, bogus, self.s.u32());
                push(w, qs, head, data.len() as u32);
                self.malformed += 1;
            }
            11 => {
                // the same id twice
                push(w, qs, head, data.len() as u32);
                push(w, qs, head, data.len() as u32);
                self.malformed += 1;
            }
            12 => {
                // used.idx jumps ahead
                push(w, qs, head, data.len() as u32);
                if let Some(s) = qs.v[q as usize].as_mut() {
                    let j = 1 + (self.s.u8() % 5) as u16;
                    s.rq.used_idx = s.rq.used_idx.wrapping_add(j);
                    let _ = w.hal.wr16(s.rq.used + 2, s.rq.used_idx);
                }
                self.malformed += 1;
            }
            13 => {
                // hold it for later
                self.held.push((q, c.clone()));
            }
            14 => {
                // the right descriptor index in the low 16 bits of the 32-bit id, garbage above
                push(w, qs, head | (1 + self.s.u16() as u32 % 0xffff) << 16, data.len() as u32);
                self.malformed += 1;
            }
            _ => {
                push(w, qs, head, data.len() as u32);
                self.completions += 1;
            }
        }
        self.last_ids.push(head);
        if self.last_ids.len() > 8 {
            self.last_ids.remove(0);
        }
        if self.scribble && self.s.u8() % 3 == 0 {
            qs.scribble = Some(self.s.u8());
            qs.scribble_queue(w, q);
        }
    }
}

impl Handler for ChaosDev {
    fn on_chain(&mut self, w: &mut World, qs: &mut Queues, q: u16, c: Chain) {
        self.misbehave(w, qs, q, c);
    }
    fn on_turn(&mut self, w: &mut World, qs: &mut Queues) -> bool {
        // the device always eventually completes what it holds, so that blocking calls can end
        if let Some((q, c)) = self.held.pop() {
            if let Some(s) = qs.v.get_mut(q as usize).and_then(|s| s.as_mut()) {
                let _ = s.rq.push_used(&w.hal, c.head as u32, 0);
            }
            return true;
        }
        false
    }
}

// ---------------------------------------------------------------------------------------------

pub struct Known {
    pub d9: bool,
    pub d10: bool,
    pub blocking: bool,
}

pub const KEY_BLOCKING: &str = "blocking-helper-returns-error-with-chain-posted";

/// Did a driver call report an error?
trait IsErr {
    fn errored(&self) -> bool;
}
impl<T, E> IsErr for Result<T, E> {
    fn errored(&self) -> bool {
        self.is_err()
    }
}
impl<T> IsErr for Option<T> {
    fn errored(&self) -> bool {
        false
    }
}
impl IsErr for () {
    fn errored(&self) -> bool {
        false
    }
}
impl IsErr for bool {
    fn errored(&self) -> bool {
        false
    }
}

struct Ctl {
    dev: Shared<ChaosDev>,
    panics: u32,
    stopped: bool,
    frame_marker: usize,
    /// device addresses of shares already reported under a known finding
    excused: Vec<u64>,
    malformed_seen: u64,
    regions_before: usize,
}

/// What a single guarded driver call ended in.
enum End {
    Returned,
    Panicked,
    Inconclusive,
}

impl Ctl {
    /// Post-call checks: ledger faults and posted buffers in dead stack frames.
    fn after_call(&mut self, what: &str, errored: bool, known: &Known, st: &mut Stats) -> Result<(), String> {
        // (a bogus used element produced during an earlier call can still sit at the front of the ring)
        let malformed_now = self.dev.with(|d| d.h.malformed);
        let misbehaved = malformed_now != 0;
        self.malformed_seen = malformed_now;
        // shares created during this call that are still live
        let idx0 = self.regions_before;
        let left: Vec<(usize, usize, u64)> = with(|w| {
            w.hal.regions[idx0.min(w.hal.regions.len())..]
                .iter()
                .filter(|r| r.live)
                .filter_map(|r| if let crate::hal::Kind::Share { vaddr, .. } = r.kind { Some((vaddr, r.len, r.paddr)) } else { None })
                .collect()
        });
        let is_xfer_call = what.starts_with("pcm_xfer(");
        let blocking = BLOCKING_CALLS.iter().any(|b| what.starts_with(b)) || is_xfer_call;
        // Recorded findings: an *error* return of a call built on the blocking helper, after the
        // device misbehaved (or, for pcm_xfer, answered an error), leaves the submitted chain posted.
        // The buffers of that chain (caller's stack frame or heap) are excused under the open finding.
        // (a driver may swallow the failure of an inner blocking request, e.g. the sound driver's
        // optional jack/chmap queries, and return normally: the misbehaviour condition stays)
        if (errored || misbehaved) && blocking && !left.is_empty() {
            let fresh: Vec<u64> = left.iter().map(|l| l.2).filter(|p| !self.excused.contains(p)).collect();
            if !fresh.is_empty() {
                let own_chain = is_xfer_call && left.iter().any(|l| l.1 == 8 || l.1 == 4);
                if own_chain && errored && known.d10 {
                    st.known_excluded += 1;
                    *st.known_hits.entry(KEY_D10.to_string()).or_insert(0) += 1;
                    self.excused.extend(fresh);
                } else if !own_chain && misbehaved && known.blocking {
                    st.known_excluded += 1;
                    *st.known_hits.entry(KEY_BLOCKING.to_string()).or_insert(0) += 1;
                    self.excused.extend(fresh);
                }
            }
        }
        // the caller freeing a buffer that a failed blocking call left posted is the same recorded finding
        let excused = self.excused.clone();
        with(|w| w.faults.retain(|f| !(f.prop == "freed_posted" && excused.contains(&f.addr))));
        let f = with(|w| w.faults.iter().find(|f| ["unshare", "dealloc", "share", "freed_posted", "bus"].contains(&f.prop)).cloned());
        if let Some(f) = f {
            let msg = format!("{}: [{}] {}", what, f.prop, f.msg);
            return Err(msg);
        }
        // a buffer still posted to the live device must not lie in a stack frame that has returned
        let lo = self.frame_marker.saturating_sub(512 << 20);
        let hits: Vec<(usize, usize, u64)> = with(|w| {
            let live = w.dev.driver_ok() && w.dev.q.values().any(|q| q.ready);
            if !live {
                return vec![];
            }
            w.hal
                .live_by_vaddr
                .range(lo..self.frame_marker)
                .map(|(&va, &i)| (va, w.hal.regions[i].len, w.hal.regions[i].paddr))
                .collect()
        });
        for (vaddr, len, paddr) in hits {
            if self.excused.contains(&paddr) {
                continue;
            }
            return Err(format!(
                "[stack] {}: returned {} while a buffer in its (dead) stack frame is still posted to the live device: {:#x}+{} (device address {:#x}); the device may write into it later",
                what,
                if errored { "an error" } else { "normally" },
                vaddr,
                len,
                paddr
            ));
        }
        Ok(())
    }
}

/// Calls that are built on `VirtQueue::add_notify_wait_pop`.
const BLOCKING_CALLS: [&str; 31] = [
    "add_notify_wait_pop",
    "receive_wait",
    "read_blocks",
    "write_blocks",
    "flush",
    "device_id",
    "send",
    "write",
    "connect",
    "shutdown/force_close",
    "update_credit",
    "poll",
    "recv",
    "pcm_set_params",
    "pcm_prepare/start",
    "queries",
    "jack_remap",
    "resolution",
    "setup_framebuffer",
    "change_resolution",
    "setup_cursor",
    "move_cursor",
    "edid",
    "request_entropy",
    "num_clocks",
    "clock_cap",
    "read",
    "request",
    "pcm_xfer_nb",
    "pcm_xfer_ok",
    "latest_notification",
];

macro_rules! call {
    ($ctl:expr, $known:expr, $st:expr, $what:expr, $e:expr) => {{
        if !$ctl.stopped {
            $ctl.regions_before = with(|w| {
                w.spins = 0;
                w.hal.regions.len()
            });
            let mut errored = false;
            let end = match guard(|| {
                let r = $e;
                errored = IsErr::errored(&r);
            }) {
                Caught::Ok(()) => End::Returned,
                Caught::Panic(_) => End::Panicked,
                Caught::Escape(_) => End::Inconclusive,
            };
            match end {
                End::Returned => {}
                End::Panicked => {
                    // a clean panic is an allowed outcome; the object is not used again
                    $ctl.panics += 1;
                    $ctl.stopped = true;
                    errored = true;
                }
                End::Inconclusive => {
                    $ctl.stopped = true;
                    errored = true;
                }
            }
            $ctl.after_call(&$what, errored, $known, $st)?;
        }
    }};
}

fn offered_of(f: u8) -> u64 {
    ((f & 1) as u64) << 28 | ((f >> 1 & 1) as u64) << 29 | ((f >> 2 & 1) as u64) << 32 | ((f >> 3 & 1) as u64) << 33 | 0x1ff
}

/// Run one hostile-device case. `Err` = property violated.
pub fn run_case(c: &XCase, st: &mut Stats, known: &Known) -> Result<(), String> {
    let mut calls = Script::new(&c.calls);
    // bounded configuration values: counts that only make the driver allocate are clamped
    let mut cfg = c.config.clone();
    cfg.resize(160, 0);
    match c.tgt {
        Tgt::Sound => {
            for k in 0..3 {
                let v = u32::from_le_bytes(cfg[4 * k..4 * k + 4].try_into().unwrap()) % 5;
                cfg[4 * k..4 * k + 4].copy_from_slice(&v.to_le_bytes());
            }
        }
        Tgt::Vsock => cfg[..8].copy_from_slice(&0x42u64.to_le_bytes()),
        _ => {}
    }
    let (dtype, nq): (u32, u16) = match c.tgt {
        Tgt::RawQueue | Tgt::Owning => (0, 1),
        Tgt::Blk => (2, 1),
        Tgt::Console => (3, 2),
        Tgt::NetRaw | Tgt::Net => (1, 2),
        Tgt::Input => (18, 2),
        Tgt::Vsock => (19, 3),
        Tgt::Sound => (25, 4),
        Tgt::Gpu => (16, 2),
        Tgt::Rng => (4, 1),
        Tgt::Rtc => (17, 2),
        Tgt::P9 => (9, 1),
    };
    let offered = offered_of(c.features);
    crate::props::drv::setup_world(crate::tkind::TK::Model, offered, cfg, 64);
    with(|w| {
        w.dev.dtype = dtype;
        w.spin_limit = 2_000;
    });
    let policy = match c.features >> 4 & 3 {
        0 => Serve::OnNotify,
        1 => Serve::Poll,
        _ => Serve::Late((c.features >> 6) & 3),
    };
    let dev = Shared::install(SimDev::new(
        nq,
        policy,
        ChaosDev { s: Script::new(&c.chaos), held: vec![], last_ids: vec![], malformed: 0, completions: 0, plausible: c.tgt, scribble: c.features & 0x80 != 0 },
    ));
    let marker = 0u8;
    let mut ctl = Ctl { dev: dev.clone(), panics: 0, stopped: false, frame_marker: &marker as *const u8 as usize, excused: vec![], malformed_seen: 0, regions_before: 0 };
    let t = MTransport::new();
    let r = exercise(c, t, &mut calls, &mut ctl, st, known);
    let (malformed, completions) = dev.with(|d| (d.h.malformed, d.h.completions));
    r?;
    // final ledger state: nothing may have been released twice, and DMA memory is gone
    let f = with(|w| w.faults.iter().find(|f| ["unshare", "dealloc", "share", "freed_posted"].contains(&f.prop)).cloned());
    if let Some(f) = f {
        return Err(format!("at drop: [{}] {}", f.prop, f.msg));
    }
    st.class_n("malformed_completions", malformed);
    st.class_n("caught_panics", ctl.panics as u64);
    if malformed >= 1 && completions + malformed >= 2 {
        let mut s = Sig::new();
        s.add(c.tgt as u64).add(c.features as u64).add(malformed).add(completions.min(20)).add(ctl.panics as u64);
        st.nontrivial(s.get(), || json!({"tgt": c.tgt, "features": c.features, "chaos": c.chaos.iter().take(24).collect::<Vec<_>>(), "calls": c.calls.iter().take(24).collect::<Vec<_>>()}));
    }
    Ok(())
}

#[inline(never)]
fn exercise(c: &XCase, t: MTransport, calls: &mut Script, ctl: &mut Ctl, st: &mut Stats, known: &Known) -> Result<(), String> {
    let ncalls = (c.calls.len()).clamp(1, 40);
    macro_rules! construct {
        ($e:expr) => {
            match guard(|| $e) {
                Caught::Ok(Ok(d)) => d,
                Caught::Ok(Err(_)) => return Ok(()),
                Caught::Panic(_) => {
                    ctl.panics += 1;
                    return ctl.after_call("constructor", true, known, st);
                }
                Caught::Escape(_) => return Ok(()),
            }
        };
    }
    macro_rules! finish {
        ($d:expr) => {{
            let d = $d;
            let _ = guard(move || drop(d));
            ctl.after_call("drop", false, known, st)?;
        }};
    }
    match c.tgt {
        Tgt::RawQueue => {
            let mut t = t;
            with(|w| {
                w.dev.status = 0xf;
                w.dev.accepted = offered_of(c.features) & (1 << 28 | 1 << 29);
            });
            let ind = c.features & 1 != 0;
            let ev = c.features & 2 != 0;
            let mut q = construct!(VirtQueue::<LHal, 4>::new(&mut t, 0, ind, ev, false));
            // the caller keeps honouring the unsafe contracts: it only presents tokens it holds
            let mut held: Vec<(u16, Box<[u8]>, Box<[u8]>)> = Vec::new();
            for _ in 0..ncalls {
                match calls.u8() % 5 {
                    0 | 1 => {
                        let a = vec![1u8; 1 + calls.u8() as usize % 40].into_boxed_slice();
                        let mut b = vec![2u8; 1 + calls.u8() as usize % 40].into_boxed_slice();
                        let mut tok = None;
                        call!(ctl, known, st, "add".to_string(), {
                            let r = unsafe { q.add(&[&a], &mut [&mut b]) };
                            tok = r.ok();
                            r.map(|_| ())
                        });
                        if let Some(tk) = tok {
                            if q.should_notify() {
                                t.notify(0);
                            }
                            held.push((tk, a, b));
                        } else {
                            // keep the buffers alive anyway: a failed add shares nothing
                            held.push((u16::MAX, a, b));
                        }
                    }
                    2 => {
                        if let Some(tk) = q.peek_used() {
                            if let Some(pos) = held.iter().position(|h| h.0 == tk) {
                                let (tk, a, mut b) = held.remove(pos);
                                let mut ok = false;
                                call!(ctl, known, st, format!("pop_used({})", tk), {
                                    ok = unsafe { q.pop_used(tk, &[&a], &mut [&mut b]) }.is_ok();
                                });
                                if !ok {
                                    held.push((tk, a, b));
                                }
                            }
                        }
                    }
                    3 => {
                        let _ = q.can_pop();
                        let _ = q.available_desc();
                        dev_turn(ctl);
                    }
                    _ => {
                        if held.iter().all(|h| h.0 == u16::MAX) {
                            let a = [3u8; 8];
                            let mut b = [0u8; 8];
                            call!(ctl, known, st, "add_notify_wait_pop".to_string(), q.add_notify_wait_pop(&[&a], &mut [&mut b], &mut t));
                        }
                    }
                }
            }
            let _ = guard(|| t.queue_unset(0));
            finish!(q);
            let _ = guard(move || drop(t));
            drop(held);
        }
        Tgt::Owning => {
            let mut t = t;
            with(|w| {
                w.dev.status = 0xf;
                w.dev.accepted = offered_of(c.features) & (1 << 28 | 1 << 29);
            });
            let q = construct!(VirtQueue::<LHal, 8>::new(&mut t, 0, c.features & 1 != 0, c.features & 2 != 0, false));
            let mut o = construct!(OwningQueue::<LHal, 8, 64>::new(q));
            if o.should_notify() {
                t.notify(0);
            }
            for _ in 0..ncalls {
                let mode = calls.u8() % 3;
                let mut seen = 0usize;
                call!(ctl, known, st, "poll".to_string(), o.poll(&mut t, |b: &[u8]| {
                    // read the whole slice handed to the caller
                    seen = b.iter().map(|x| *x as usize).sum::<usize>() + b.len();
                    match mode {
                        0 => Ok(Some(1u8)),
                        1 => Ok(None),
                        _ => Err(virtio_drivers::Error::IoError),
                    }
                }));
                let _ = seen;
                dev_turn(ctl);
            }
            let _ = guard(|| t.queue_unset(0));
            finish!(o);
            let _ = guard(move || drop(t));
        }
        Tgt::Blk => {
            let mut d = construct!(VirtIOBlk::<LHal, _>::new(t));
            let mut keep: Vec<(u16, Box<BlkReq>, Box<[u8]>, Box<BlkResp>, bool)> = Vec::new();
            for _ in 0..ncalls {
                match calls.u8() % 8 {
                    // blocking calls only while nothing non-blocking is outstanding (documented precondition)
                    0..=3 if keep.iter().any(|k| k.0 != u16::MAX) => dev_turn(ctl),
                    0 => {
                        let mut b = vec![0u8; 512];
                        call!(ctl, known, st, "read_blocks".to_string(), d.read_blocks(calls.u8() as usize, &mut b));
                    }
                    1 => {
                        let b = vec![7u8; 1024];
                        call!(ctl, known, st, "write_blocks".to_string(), d.write_blocks(calls.u8() as usize, &b));
                    }
                    2 => call!(ctl, known, st, "flush".to_string(), d.flush()),
                    3 => {
                        let mut id = [0u8; 20];
                        call!(ctl, known, st, "device_id".to_string(), d.device_id(&mut id));
                    }
                    4 | 5 => {
                        let mut req = Box::new(BlkReq::default());
                        let mut buf = vec![0u8; 512].into_boxed_slice();
                        let mut resp = Box::new(BlkResp::default());
                        let wr = calls.u8() % 2 == 0;
                        let mut tok = None;
                        call!(ctl, known, st, "nb".to_string(), {
                            tok = unsafe {
                                if wr {
                                    d.write_blocks_nb(3, &mut req, &buf, &mut resp)
                                } else {
                                    d.read_blocks_nb(3, &mut req, &mut buf, &mut resp)
                                }
                            }
                            .ok();
                        });
                        keep.push((tok.unwrap_or(u16::MAX), req, buf, resp, wr));
                    }
                    6 => {
                        if let Some(tk) = d.peek_used() {
                            if let Some(pos) = keep.iter().position(|k| k.0 == tk) {
                                let (tk, req, mut buf, mut resp, wr) = keep.remove(pos);
                                // the token is at the front of the used ring, so the completion is consumed
                                // whatever status the device wrote (an error result comes from the status byte)
                                call!(ctl, known, st, "complete".to_string(), unsafe {
                                    if wr {
                                        d.complete_write_blocks(tk, &req, &buf, &mut resp)
                                    } else {
                                        d.complete_read_blocks(tk, &req, &mut buf, &mut resp)
                                    }
                                });
                                keep.push((u16::MAX, req, buf, resp, wr));
                            }
                        }
                    }
                    _ => dev_turn(ctl),
                }
            }
            finish!(d);
            drop(keep);
        }
        Tgt::Console => {
            let mut d = construct!(VirtIOConsole::<LHal, _>::new(t));
            for _ in 0..ncalls {
                match calls.u8() % 10 {
                    0 => call!(ctl, known, st, "recv".to_string(), d.recv(calls.u8() % 2 == 0)),
                    1 => {
                        let mut b = vec![0u8; calls.u8() as usize];
                        let mut n = 0;
                        call!(ctl, known, st, "read".to_string(), {
                            let r = d.read(&mut b);
                            n = *r.as_ref().unwrap_or(&0);
                            r.map(|_| ())
                        });
                        let _ = b[..n.min(b.len())].iter().map(|x| *x as usize).sum::<usize>();
                    }
                    2 => {
                        let mut l = 0usize;
                        call!(ctl, known, st, "fill_buf".to_string(), {
                            let r = d.fill_buf().map(|s| s.iter().map(|x| *x as usize).sum::<usize>() % 7 + s.len());
                            l = *r.as_ref().unwrap_or(&0);
                            r.map(|_| ())
                        });
                        let k = calls.u8() as usize % (l + 1);
                        call!(ctl, known, st, "consume".to_string(), d.consume(k.min(1)));
                    }
                    3 => call!(ctl, known, st, "read_ready".to_string(), d.read_ready()),
                    4 => {
                        with(|w| w.dev.isr = 1);
                        call!(ctl, known, st, "ack_interrupt".to_string(), d.ack_interrupt());
                    }
                    5 => call!(ctl, known, st, "send".to_string(), d.send(calls.u8())),
                    6 => {
                        let b = vec![9u8; 1 + calls.u8() as usize];
                        call!(ctl, known, st, "write".to_string(), d.write(&b));
                    }
                    7 => call!(ctl, known, st, "size".to_string(), d.size()),
                    _ => dev_turn(ctl),
                }
            }
            finish!(d);
        }
        Tgt::NetRaw => {
            let mut d = construct!(VirtIONetRaw::<LHal, _, 4>::new(t));
            let mut rx: Vec<(u16, Box<[u8]>)> = Vec::new();
            let mut tx: Vec<(u16, Box<[u8]>)> = Vec::new();
            for _ in 0..ncalls {
                match calls.u8() % 8 {
                    0 => {
                        let mut b = vec![0u8; 2048].into_boxed_slice();
                        let mut tok = None;
                        call!(ctl, known, st, "receive_begin".to_string(), {
                            tok = unsafe { d.receive_begin(&mut b) }.ok();
                        });
                        rx.push((tok.unwrap_or(u16::MAX), b));
                    }
                    1 => {
                        if let Some(tk) = d.poll_receive() {
                            if let Some(pos) = rx.iter().position(|r| r.0 == tk) {
                                let (tk, mut b) = rx.remove(pos);
                                let mut res = None;
                                call!(ctl, known, st, "receive_complete".to_string(), {
                                    res = unsafe { d.receive_complete(tk, &mut b) }.ok();
                                });
                                if let Some((h, l)) = res {
                                    // the caller slices its own buffer with the reported lengths: a
                                    // well-written caller checks them; we only read what is in bounds
                                    let end = (h + l).min(b.len());
                                    let _ = b[h.min(end)..end].iter().map(|x| *x as usize).sum::<usize>();
                                }
                                rx.push((u16::MAX, b));
                            }
                        }
                    }
                    2 => {
                        let mut b = vec![0u8; 100].into_boxed_slice();
                        let _ = d.fill_buffer_header(&mut b);
                        let mut tok = None;
                        call!(ctl, known, st, "transmit_begin".to_string(), {
                            tok = unsafe { d.transmit_begin(&b) }.ok();
                        });
                        tx.push((tok.unwrap_or(u16::MAX), b));
                    }
                    3 => {
                        if let Some(tk) = d.poll_transmit() {
                            if let Some(pos) = tx.iter().position(|r| r.0 == tk) {
                                let (tk, b) = tx.remove(pos);
                                call!(ctl, known, st, "transmit_complete".to_string(), unsafe { d.transmit_complete(tk, &b) });
                                tx.push((u16::MAX, b));
                            }
                        }
                    }
                    4 => {
                        if tx.iter().all(|t| t.0 == u16::MAX) {
                            let b = vec![5u8; calls.u8() as usize];
                            call!(ctl, known, st, "send".to_string(), d.send(&b));
                        }
                    }
                    5 => {
                        if rx.iter().all(|t| t.0 == u16::MAX) {
                            let mut b = vec![0u8; 2048];
                            call!(ctl, known, st, "receive_wait".to_string(), d.receive_wait(&mut b));
                        }
                    }
                    _ => dev_turn(ctl),
                }
            }
            finish!(d);
            drop(rx);
            drop(tx);
        }
        Tgt::Net => {
            let mut d = construct!(VirtIONet::<LHal, _, 4>::new(t, 2048));
            let mut bufs = Vec::new();
            for _ in 0..ncalls {
                match calls.u8() % 5 {
                    0 => {
                        let mut got = None;
                        call!(ctl, known, st, "receive".to_string(), {
                            got = d.receive().ok();
                        });
                        if let Some(b) = got {
                            // packet() slices the buffer with the device-reported length
                            let mut l = 0;
                            call!(ctl, known, st, "packet".to_string(), {
                                l = b.packet().iter().map(|x| *x as usize).sum::<usize>() + b.packet_len();
                            });
                            let _ = l;
                            bufs.push(b);
                        }
                    }
                    1 => {
                        if let Some(b) = bufs.pop() {
                            call!(ctl, known, st, "recycle_rx_buffer".to_string(), d.recycle_rx_buffer(b));
                        }
                    }
                    2 => {
                        let mut tb = d.new_tx_buffer(calls.u8() as usize);
                        for x in tb.packet_mut() {
                            *x = 3;
                        }
                        call!(ctl, known, st, "send".to_string(), d.send(tb));
                    }
                    3 => {
                        let _ = d.can_recv();
                        let _ = d.can_send();
                    }
                    _ => dev_turn(ctl),
                }
            }
            finish!(d);
            drop(bufs);
        }
        Tgt::Input => {
            let mut d = construct!(VirtIOInput::<LHal, _>::new(t));
            for _ in 0..ncalls {
                match calls.u8() % 5 {
                    0 | 1 => call!(ctl, known, st, "pop_pending_event".to_string(), d.pop_pending_event()),
                    2 => call!(ctl, known, st, "name".to_string(), d.name()),
                    3 => call!(ctl, known, st, "ids/prop_bits/abs_info".to_string(), {
                        let e = [d.ids().is_err(), d.prop_bits().is_err(), d.ev_bits(calls.u8()).is_err(), d.abs_info(calls.u8()).is_err()];
                        if e.iter().any(|x| *x) { Err(()) } else { Ok(()) }
                    }),
                    _ => dev_turn(ctl),
                }
            }
            finish!(d);
        }
        Tgt::Vsock => {
            let s = construct!(VirtIOSocket::<LHal, _>::new(t));
            let mut m = VsockConnectionManager::new_with_capacity(s, 1024);
            let peer = VsockAddr { cid: 2, port: 7 };
            m.listen(80);
            for _ in 0..ncalls {
                match calls.u8() % 8 {
                    0 | 1 => call!(ctl, known, st, "poll".to_string(), m.poll()),
                    2 => call!(ctl, known, st, "connect".to_string(), m.connect(peer, calls.u8() as u32 % 3 + 80)),
                    3 => {
                        let b = vec![1u8; calls.u8() as usize % 70 + 1];
                        call!(ctl, known, st, "send".to_string(), m.send(peer, 80, &b));
                    }
                    4 => {
                        let mut b = vec![0u8; calls.u8() as usize];
                        let mut n = 0;
                        call!(ctl, known, st, "recv".to_string(), {
                            let r = m.recv(peer, 80, &mut b);
                            n = *r.as_ref().unwrap_or(&0);
                            r.map(|_| ())
                        });
                        let _ = b[..n.min(b.len())].iter().map(|x| *x as usize).sum::<usize>();
                    }
                    5 => call!(ctl, known, st, "shutdown/force_close".to_string(), {
                        if calls.u8() % 2 == 0 {
                            m.shutdown(peer, 80)
                        } else {
                            m.force_close(peer, 80)
                        }
                    }),
                    6 => call!(ctl, known, st, "update_credit".to_string(), m.update_credit(peer, 80)),
                    _ => dev_turn(ctl),
                }
            }
            finish!(m);
        }
        Tgt::Sound => {
            let mut d = construct!(VirtIOSound::<LHal, _>::new(t));
            let streams = d.streams();
            let mut toks: Vec<u16> = Vec::new();
            for _ in 0..ncalls {
                let sid = if streams == 0 { 0 } else { calls.u8() as u32 % streams };
                match calls.u8() % 9 {
                    0 => {
                        if streams > 0 {
                            call!(ctl, known, st, "pcm_set_params".to_string(), d.pcm_set_params(sid, 64, 32, PcmFeatures::empty(), 2, PcmFormat::S16, PcmRate::Rate48000));
                        }
                    }
                    1 => call!(ctl, known, st, "pcm_prepare/start".to_string(), {
                        let a = d.pcm_prepare(sid).is_err();
                        let b = d.pcm_start(sid).is_err();
                        if a || b { Err(()) } else { Ok(()) }
                    }),
                    2 => {
                        if streams > 0 && toks.is_empty() {
                            let f = vec![4u8; calls.u8() as usize];
                            call!(ctl, known, st, format!("pcm_xfer({} bytes)", f.len()), d.pcm_xfer(sid, &f));
                        }
                    }
                    3 => {
                        if streams > 0 {
                            let f = vec![4u8; 32];
                            let mut tok = None;
                            call!(ctl, known, st, "pcm_xfer_nb".to_string(), {
                                let r = d.pcm_xfer_nb(sid, &f);
                                tok = r.as_ref().ok().copied();
                                r.map(|_| ())
                            });
                            if let Some(t) = tok {
                                toks.push(t);
                            }
                        }
                    }
                    4 => {
                        if let Some(t) = toks.pop() {
                            let mut ok = false;
                            call!(ctl, known, st, "pcm_xfer_ok".to_string(), {
                                let r = d.pcm_xfer_ok(t);
                                ok = r.is_ok();
                                r
                            });
                            if !ok && !ctl.stopped {
                                toks.push(t);
                            }
                        }
                    }
                    5 => call!(ctl, known, st, "latest_notification".to_string(), d.latest_notification()),
                    6 => call!(ctl, known, st, "queries".to_string(), {
                        let e = [d.output_streams().is_err(), d.rates_supported(sid).is_err(), d.formats_supported(sid).is_err(), d.channel_range_supported(sid).is_err(), d.features_supported(sid).is_err()];
                        if e.iter().any(|x| *x) { Err(()) } else { Ok(()) }
                    }),
                    7 => call!(ctl, known, st, "jack_remap".to_string(), d.jack_remap(calls.u8() as u32 % 3, 1, 2)),
                    _ => dev_turn(ctl),
                }
            }
            finish!(d);
        }
        Tgt::Gpu => {
            let mut d = construct!(VirtIOGpu::<LHal, _>::new(t));
            for _ in 0..ncalls {
                match calls.u8() % 9 {
                    0 => call!(ctl, known, st, "resolution".to_string(), d.resolution()),
                    1 => call!(ctl, known, st, "setup_framebuffer".to_string(), d.setup_framebuffer().map(|b| {
                        // touch the slice handed to the caller (bounded so that hostile resolutions stay cheap)
                        let n = b.len().min(1 << 16);
                        b[..n].iter().map(|x| *x as usize).sum::<usize>()
                    })),
                    2 => call!(ctl, known, st, "change_resolution".to_string(), d.change_resolution(1 + calls.u8() as u32 % 64, 1 + calls.u8() as u32 % 64).map(|b| b.len())),
                    3 => call!(ctl, known, st, "flush".to_string(), d.flush()),
                    4 => {
                        let img = vec![1u8; 64 * 64 * 4];
                        call!(ctl, known, st, "setup_cursor".to_string(), d.setup_cursor(&img, 1, 2, 3, 4));
                    }
                    5 => call!(ctl, known, st, "move_cursor".to_string(), d.move_cursor(calls.u8() as u32, 9)),
                    6 => call!(ctl, known, st, "edid".to_string(), {
                        let a = d.edid_preferred_resolution().is_err();
                        let b = d.edid_supported_resolutions().is_err();
                        if a || b { Err(()) } else { Ok(()) }
                    }),
                    _ => dev_turn(ctl),
                }
            }
            finish!(d);
        }
        Tgt::Rng => {
            let mut d = construct!(VirtIORng::<LHal, _>::new(t));
            for _ in 0..ncalls {
                let mut b = vec![0u8; 1 + calls.u8() as usize];
                call!(ctl, known, st, "request_entropy".to_string(), d.request_entropy(&mut b));
            }
            finish!(d);
        }
        Tgt::Rtc => {
            let mut d = construct!(VirtIORtc::<LHal, _>::new(t));
            for _ in 0..ncalls {
                match calls.u8() % 3 {
                    0 => call!(ctl, known, st, "num_clocks".to_string(), d.num_clocks()),
                    1 => call!(ctl, known, st, "clock_cap".to_string(), d.clock_cap(calls.u8() as u16)),
                    _ => call!(ctl, known, st, "read".to_string(), d.read(calls.u8() as u16)),
                }
            }
            finish!(d);
        }
        Tgt::P9 => {
            let mut d = construct!(VirtIO9p::<LHal, _>::new(t));
            for _ in 0..ncalls {
                let req = vec![1u8; 1 + calls.u8() as usize % 50];
                let mut resp = vec![0u8; 7 + calls.u8() as usize % 60];
                call!(ctl, known, st, "request".to_string(), d.request(&req, &mut resp));
            }
            finish!(d);
        }
    }
    Ok(())
}

fn dev_turn(ctl: &Ctl) {
    for _ in 0..3 {
        ctl.dev.turn_spin();
    }
}

/// D9 signature: the failure is an unshare that hit nothing, on an OwningQueue-based path.
fn is_d9(c: &XCase, msg: &str) -> bool {
    matches!(c.tgt, Tgt::Owning | Tgt::Vsock | Tgt::Sound) && msg.contains("[unshare]") && msg.contains("paddr=0x0")
}

pub fn check(c: &XCase, st: &mut Stats, known: &Known) -> Result<(), String> {
    let t0 = std::time::Instant::now();
    let r = run_case(c, st, known);
    let ms = t0.elapsed().as_millis();
    if ms > 100 {
        // measured for the evidence only (never a verdict)
        st.class(&format!("slow_case_over_100ms_{:?}", c.tgt));
        if std::env::var("VDV_DEBUG").is_ok() {
            eprintln!("slow case {} ms: {}", ms, serde_json::to_string(c).unwrap_or_default());
        }
    }
    match r {
        Err(m) if known.d9 && is_d9(c, &m) => {
            st.known_excluded += 1;
            *st.known_hits.entry(KEY_D9.to_string()).or_insert(0) += 1;
            Ok(())
        }
        other => other,
    }
}

// ---------------------------------------------------------------------------------------------
// decoding from raw bytes (shared with the libFuzzer targets)

pub fn decode(data: &[u8]) -> XCase {
    let mut u = arbitrary_lite(data);
    let tgt = ALL_TGT[u.u8() as usize % ALL_TGT.len()];
    decode_for(tgt, &data[data.len().min(1)..])
}

pub fn decode_for(tgt: Tgt, data: &[u8]) -> XCase {
    let mut u = arbitrary_lite(data);
    let features = u.u8();
    let ncfg = (u.u8() as usize % 40).min(u.left());
    let config = u.take(ncfg);
    let ncalls = (u.u8() as usize % 48).min(u.left());
    let calls = u.take(ncalls);
    let chaos = u.rest();
    XCase { tgt, features, chaos, calls, config }
}

struct Lite<'a> {
    d: &'a [u8],
    i: usize,
}
fn arbitrary_lite(d: &[u8]) -> Lite<'_> {
    Lite { d, i: 0 }
}
impl Lite<'_> {
    fn u8(&mut self) -> u8 {
        let v = self.d.get(self.i).copied().unwrap_or(0);
        self.i += 1;
        v
    }
    fn left(&self) -> usize {
        self.d.len().saturating_sub(self.i)
    }
    fn take(&mut self, n: usize) -> Vec<u8> {
        let e = (self.i + n).min(self.d.len());
        let v = self.d[self.i.min(e)..e].to_vec();
        self.i = e;
        v
    }
    fn rest(&mut self) -> Vec<u8> {
        let v = self.d[self.i.min(self.d.len())..].to_vec();
        self.i = self.d.len();
        v
    }
}

/// Inverse of `decode` (used to write seed corpora).
pub fn encode(c: &XCase) -> Vec<u8> {
    let mut v = vec![ALL_TGT.iter().position(|t| *t == c.tgt).unwrap_or(0) as u8, c.features];
    let cfg = &c.config[..c.config.len().min(39)];
    v.push(cfg.len() as u8);
    v.extend_from_slice(cfg);
    let calls = &c.calls[..c.calls.len().min(47)];
    v.push(calls.len() as u8);
    v.extend_from_slice(calls);
    v.extend_from_slice(&c.chaos);
    v
}

static FUZZ_STATS: std::sync::Mutex<Option<Stats>> = std::sync::Mutex::new(None);

extern "C" fn dump_fuzz_stats() {
    let Ok(path) = std::env::var("VDV_FUZZ_PART") else { return };
    let Ok(g) = FUZZ_STATS.lock() else { return };
    let Some(st) = g.as_ref() else { return };
    let mut sigs: Vec<String> = st.sigs.iter().map(|s| format!("{:x}", s)).collect();
    sigs.sort();
    let body = json!({
        "property_id": "C07",
        "tier": std::env::var("VDV_FUZZ_TIER").unwrap_or_else(|_| "quick".into()),
        "seed": std::env::var("VERIF_SEED").ok().and_then(|s| s.parse::<i64>().ok()).unwrap_or(0),
        "profile": "asan-libfuzzer",
        "level": "exploration",
        "rule": "",
        "assumptions": [],
        "exhaustive": false,
        "extra": {},
        "evaluations": st.evals,
        "discarded": 0,
        "known_excluded": st.known_excluded,
        "known_hits": st.known_hits,
        "classes": st.classes,
        "samples": st.samples,
        "sigs": sigs,
        "wall_s": 0.0,
        "violations": 0,
    });
    let _ = std::fs::write(path, serde_json::to_string(&body).unwrap_or_default());
}

extern "C" {
    fn atexit(cb: extern "C" fn()) -> i32;
}

/// Entry point for the fuzz targets: panics (so that libFuzzer keeps the input) on a violation.
pub fn fuzz_entry(tgt: Option<Tgt>, data: &[u8]) {
    crate::world::install_hooks();
    let c = match tgt {
        Some(t) => decode_for(t, data),
        None => decode(data),
    };
    let known = fuzz_known();
    let mut g = FUZZ_STATS.lock().unwrap();
    if g.is_none() {
        *g = Some(Stats::default());
        unsafe {
            atexit(dump_fuzz_stats);
        }
    }
    let st = g.as_mut().unwrap();
    st.evals += 1;
    let r = check(&c, st, &known);
    if st.samples.len() > 3 {
        st.samples.truncate(3);
    }
    drop(g);
    if let Err(m) = r {
        eprintln!("VIOLATION-IN-FUZZ-TARGET: {}", m);
        std::process::abort();
    }
    world::reset();
}

fn fuzz_known() -> Known {
    static K: std::sync::OnceLock<(bool, bool, bool)> = std::sync::OnceLock::new();
    let k = K.get_or_init(|| {
        let root = std::env::var("VERIF_ROOT").unwrap_or_else(|_| "/verif".to_string());
        let kn = load_known(&root);
        (known_open(&kn, "C07", KEY_D9), known_open(&kn, "C07", KEY_D10), known_open(&kn, "C07", KEY_BLOCKING))
    });
    Known { d9: k.0, d10: k.1, blocking: k.2 }
}

#[cfg(not(feature = "fuzz-min"))]
pub use full::*;

#[cfg(not(feature = "fuzz-min"))]
mod full {
    use super::*;
    // ---------------------------------------------------------------------------------------------
    // differential: well-behaved histories with and without scribbling over driver-owned areas

    #[derive(Clone, Debug, Serialize, Deserialize)]
    pub enum Diff {
        Blk(c14::BCase),
        Console(c15::KCase),
        Net(c16::NCase),
        Vsock(c18::VCase),
        Events(c19::ECase),
        Cmd(c20::CCase),
        Queue(qh::QCase),
    }

    use crate::devq::SCRIBBLE_ALL;

    pub fn check_diff(d: &Diff, st: &mut Stats) -> Result<(), String> {
        let run = |scribble: Option<u8>| -> (Result<(), String>, Stats) {
            SCRIBBLE_ALL.with(|s| s.set(scribble));
            let mut s2 = Stats::default();
            let r = match d {
                Diff::Blk(c) => c14::check(c, &mut s2),
                Diff::Console(c) => c15::check(c, &mut s2),
                Diff::Net(c) => c16::check(c, &mut s2),
                Diff::Vsock(c) => c18::check(c, &mut s2),
                Diff::Events(c) => c19::check(c, &mut s2),
                Diff::Cmd(c) => c20::check(c, &mut s2),
                Diff::Queue(c) => qh::run_case(c, "C07", &mut s2),
            };
            SCRIBBLE_ALL.with(|s| s.set(None));
            (r, s2)
        };
        let (clean, s_clean) = run(None);
        let (dirty, s_dirty) = run(Some(0x5b));
        match (&clean, &dirty) {
            (Ok(()), Ok(())) => {}
            (Ok(()), Err(m)) => return Err(format!("with the device overwriting the descriptor table and available ring after fetching, the history no longer behaves as in the clean run: {}", m)),
            (Err(m), _) => return Err(format!("clean run failed (reported by the owning property's check as well): {}", m)),
        }
        // transcripts: the per-driver model comparisons passed in both runs; the measured class counters must agree too
        if s_clean.classes != s_dirty.classes {
            return Err(format!("observable outcome differs between the clean and the scribbled run: {:?} vs {:?}", s_clean.classes, s_dirty.classes));
        }
        st.class("differential_pairs");
        let mut s = Sig::new();
        s.add(0xd1ff).add(match d {
            Diff::Blk(_) => 1,
            Diff::Console(_) => 2,
            Diff::Net(_) => 3,
            Diff::Vsock(_) => 4,
            Diff::Events(_) => 5,
            Diff::Cmd(_) => 6,
            Diff::Queue(_) => 7,
        });
        for (k, v) in &s_clean.classes {
            s.add(k.len() as u64).add(*v);
        }
        s.add(s_clean.sigs.iter().copied().min().unwrap_or(0));
        st.nontrivial(s.get(), || json!({"differential": match d { Diff::Blk(_) => "blk", Diff::Console(_) => "console", Diff::Net(_) => "net", Diff::Vsock(_) => "vsock", Diff::Events(_) => "events", Diff::Cmd(_) => "cmd", Diff::Queue(_) => "queue" }}));
        Ok(())
    }

    fn diff_strategy() -> impl Strategy<Value = Diff> {
        prop_oneof![
            c14::strategy().prop_map(Diff::Blk),
            c15::strategy().prop_map(Diff::Console),
            c16::strategy().prop_map(Diff::Net),
            c18::strategy().prop_map(Diff::Vsock),
            c19::strategy().prop_map(Diff::Events),
            c20::strategy().prop_map(Diff::Cmd),
            qh::case_strategy(80, 8).prop_map(Diff::Queue),
        ]
    }

    fn x_strategy() -> impl Strategy<Value = XCase> {
        (0usize..ALL_TGT.len(), any::<u8>(), prop::collection::vec(any::<u8>(), 1..96), prop::collection::vec(any::<u8>(), 1..40), prop::collection::vec(any::<u8>(), 0..40))
            .prop_map(|(t, features, chaos, calls, config)| XCase { tgt: ALL_TGT[t], features, chaos, calls, config })
    }

    /// Write `n` generated cases, encoded for the fuzz targets, into `dir`.
    pub fn gencorpus(dir: &str, n: usize, seed: u64) {
        use proptest::strategy::ValueTree;
        use proptest::test_runner::{Config, RngSeed, TestRunner};
        let mut cfg = Config::default();
        cfg.rng_seed = RngSeed::Fixed(seed);
        cfg.failure_persistence = None;
        let mut r = TestRunner::new(cfg);
        let s = x_strategy();
        let _ = std::fs::create_dir_all(dir);
        for i in 0..n {
            let c = s.new_tree(&mut r).unwrap().current();
            let mut b = encode(&c);
            b.truncate(250);
            let _ = std::fs::write(format!("{}/seed-{:04}", dir, i), b);
        }
    }

    pub fn replay(engine: &str, case: &serde_json::Value) -> Result<(), String> {
        let k = Known { d9: false, d10: false, blocking: false };
        let mut st = Stats::default();
        match engine {
            "diff" => check_diff(&serde_json::from_value(case.clone()).map_err(|e| e.to_string())?, &mut st),
            "bytes" => {
                let b: Vec<u8> = serde_json::from_value(case["bytes"].clone()).map_err(|e| e.to_string())?;
                let t: Option<Tgt> = serde_json::from_value(case["target"].clone()).ok();
                let c = match t {
                    Some(t) => decode_for(t, &b),
                    None => decode(&b),
                };
                check(&c, &mut st, &k)
            }
            _ => check(&serde_json::from_value(case.clone()).map_err(|e| e.to_string())?, &mut st, &k),
        }
    }

    pub fn run(ctx: &Ctx) -> Report {
        let kn = load_known(&ctx.root);
        let known = Known { d9: known_open(&kn, "C07", KEY_D9), d10: known_open(&kn, "C07", KEY_D10), blocking: known_open(&kn, "C07", KEY_BLOCKING) };
        let mut stats = Stats::default();
        let (st, mut failure) = run_proptest(ctx, "hostile", 71, ctx.n(150_000, 4_000_000), x_strategy, |c: &XCase, st| check(c, st, &known));
        stats.merge(st);
        if failure.is_none() {
            let (st, f) = run_proptest(ctx, "diff", 72, ctx.n(30_000, 600_000), diff_strategy, |d: &Diff, st| check_diff(d, st));
            stats.merge(st);
            failure = f;
        }
        Report {
            stats,
            failure,
            info: PartInfo {
                level: "exploration",
                rule: "hostile device: for each of 13 targets (raw VirtQueue, OwningQueue, blk, console incl. embedded-io, net raw, net buffered, input, vsock connection manager, sound, gpu, rng, rtc, 9p) a byte script drives a chaotic reference device (valid / repeated / never-issued / out-of-range used ids, ids with garbage in the upper 16 bits, lengths 0 / short / exact / oversize / u32::MAX, used-index jumps, duplicate completions, held completions, arbitrary or plausible-looking response bytes, arbitrary configuration-space bytes, scribbling over descriptor table and available ring) while a second script calls the public API (the caller keeps honouring the unsafe contracts). Oracle: every call ends in a value, an error or a caught panic; the ledger sees no unshare without a live share and no double dealloc; no heap block still posted to the live device is freed (allocator interposer); no call returns while a buffer in its dead stack frame is still posted; every slice handed to the caller is read in full. The same decoder feeds libFuzzer/ASan targets (see ./run C07). Differential: histories of the well-behaved checks (blk, console, net, vsock table, event queues, command drivers, raw queue) are run clean and with the device overwriting the descriptor table and available ring after every fetch; both must pass their model comparison with identical outcome counters. Non-trivial = a case in which the driver consumed >=1 malformed completion and was called again; each differential pair. distinct = (target, features, malformed/normal completion counts, panics) / differential outcome signature.",
                assumptions: vec![
                    "configuration-space counts that only size driver-side allocations (sound jacks/streams/chmaps) are clamped to < 5 to keep cases cheap".into(),
                    "the caller (harness) never presents a token it does not hold and keeps every buffer alive until the driver is dropped".into(),
                    "a spin budget exhaustion ends the case as inconclusive".into(),
                ],
                exhaustive: false,
                extra: json!({}),
            },
        }
    }

}
