//! C08: every driver performs the init handshake and honours the negotiated features.
//! Exhaustive over the relevant feature subsets x drivers x transports; the feature-gated
//! behaviours are judged by the per-driver reference devices during a short usage phase.

use crate::dev::Ev;
use crate::devq::Serve;
use crate::props::{c14, c15, c16, c17, c18, c19, c20};
use crate::runner::{run_items, run_proptest, Ctx, PartInfo, Report, Sig, Stats};
use crate::tkind::{ALL_TK, TK};
use crate::world::with;
use proptest::prelude::*;
use serde::{Deserialize, Serialize};
use serde_json::json;

#[derive(Clone, Copy, Debug, Serialize, Deserialize, PartialEq, Eq, Hash, PartialOrd, Ord)]
pub enum D {
    Blk,
    Console,
    Gpu,
    Input,
    NetRaw,
    Net,
    Rng,
    Rtc,
    Socket,
    Sound,
    P9,
}

pub const ALL_D: [D; 11] = [D::Blk, D::Console, D::Gpu, D::Input, D::NetRaw, D::Net, D::Rng, D::Rtc, D::Socket, D::Sound, D::P9];

const COMMON: u64 = 1 << 28 | 1 << 29 | 1 << 32 | 1 << 33;

impl D {
    /// Feature bits the driver implements (what "supports" means for the oracle).
    pub fn supported(self) -> u64 {
        COMMON
            | match self {
                D::Blk => 1 << 5 | 1 << 9,
                D::Console => 1 << 0 | 1 << 2,
                D::Gpu => 1 << 1,
                D::NetRaw | D::Net => 1 << 5 | 1 << 16,
                _ => 0,
            }
    }
    /// Device-specific feature bits whose negotiation puts no obligation on the driver: they only
    /// announce that a read-only configuration field is valid (block geometry / block size /
    /// topology, link speed) or name the one mode the driver has anyway (vsock stream sockets).
    /// Accepting one of them is within "accepts only offered features that the driver supports"
    /// whether or not the driver goes on to read the field; every other bit outside `supported`
    /// changes the protocol between driver and device and must not be accepted.
    pub fn passive(self) -> u64 {
        match self {
            D::Blk => 1 << 4 | 1 << 6 | 1 << 10,
            D::NetRaw | D::Net => 1 << 63,
            D::Socket => 1 << 0,
            _ => 0,
        }
    }
    pub fn optional_bits(self) -> Vec<u64> {
        let mut v = vec![1u64 << 28, 1 << 29, 1 << 32, 1 << 33];
        let s = self.supported() & !COMMON;
        for b in 0..64 {
            if s >> b & 1 != 0 {
                v.push(1 << b);
            }
        }
        v
    }
}

#[derive(Clone, Debug, Serialize, Deserialize)]
pub struct HCase {
    pub drv: D,
    pub kind: TK,
    pub offered: u64,
    pub policy: Serve,
    /// legacy transports only: the device offers the upper feature word as given instead of the
    /// usual "no VERSION_1, nothing above bit 31"
    #[serde(default)]
    pub legacy_raw_offer: bool,
    /// the device refuses the accepted feature subset: FEATURES_OK never reads back as set. A
    /// driver may go on regardless or give up (then DRIVER_OK must never be written); whatever it
    /// reads, the status values it *writes* must still follow the initialisation sequence.
    #[serde(default)]
    pub refuse_features_ok: bool,
}

/// Run a short usage script of the driver on its reference device (the per-driver checks carry
/// the feature-gating oracles), leaving the transport event trace in the world.
pub fn usage(c: &HCase, st: &mut Stats) -> Result<(), String> {
    let mut scratch = Stats::default();
    let _ = st;
    let st = &mut scratch;
    match c.drv {
        D::Blk => c14::check(
            &c14::BCase {
                kind: c.kind,
                offered: c.offered,
                capacity: 64,
                policy: c.policy,
                repeat: 0,
                ops: vec![c14::BOp::Flush, c14::BOp::Write { s: c14::Sect::In(3), n: 1, seed: 9 }, c14::BOp::Read { s: c14::Sect::In(3), n: 1 }, c14::BOp::DeviceId],
            },
            st,
        ),
        D::Console => c15::check(
            &c15::KCase { kind: c.kind, offered: c.offered, policy: c.policy, chunks: vec![5, 3, 4, 2], ops: vec![c15::KOp::Size, c15::KOp::Emerg(0x41), c15::KOp::Send(0x42), c15::KOp::SendBytes(7), c15::KOp::Deliver, c15::KOp::Read(8), c15::KOp::Deliver, c15::KOp::FillConsume(65535), c15::KOp::Read(2), c15::KOp::Fmt(1, 0x1234), c15::KOp::Recv(true), c15::KOp::FmtFail((c.offered >> 28) as u8 & 1, 0x2345)] },
            st,
        ),
        D::Gpu => c20::check(
            &c20::CCase {
                kind: c.kind,
                offered: c.offered,
                policy: c.policy,
                body: c20::Body::Gpu { w: 8, h: 4, edid: vec![0; 128], edid_size: 128, ops: vec![c20::GOp::Resolution, c20::GOp::GetEdid, c20::GOp::EdidPreferred, c20::GOp::EdidSupported, c20::GOp::SetupFb, c20::GOp::Flush, c20::GOp::MoveCursor(1, 2), c20::GOp::SetupCursor { x: 1, y: 2, hx: 3, hy: 4, bad_len: false }, c20::GOp::ChangeRes(16, 8)] },
            },
            st,
        ),
        D::Input => c19::check(
            &c19::ECase { target: c19::Target::Input, kind: c.kind, offered: c.offered, policy: c.policy, ops: vec![c19::EOp::Fire { pick: 0, len: 0 }, c19::EOp::Poll, c19::EOp::Burst { n: 3, rot: 5 }, c19::EOp::Drain], rounds: 0 },
            st,
        ),
        D::NetRaw | D::Net => c16::check(
            &c16::NCase {
                kind: c.kind,
                offered: c.offered,
                policy: c.policy,
                buffered: c.drv == D::Net,
                nsel: 1,
                buf_len: 2048,
                big: false,
                repeat: 0,
                ops: vec![c16::NOp::Send(60), c16::NOp::Send(0), c16::NOp::RxBegin, c16::NOp::Inject { pick: 0, len: 900 }, c16::NOp::RxFinish, c16::NOp::Receive, c16::NOp::Recycle(0), c16::NOp::TxBegin(100), c16::NOp::TxFinish(0)],
            },
            st,
        ),
        D::Rng => c20::check(&c20::CCase { kind: c.kind, offered: c.offered, policy: c.policy, body: c20::Body::Rng { ops: vec![c20::ROp::Entropy { len: 31, fill: 0xffff }, c20::ROp::Entropy { len: 600, fill: 0x4000 }] } }, st),
        D::Rtc => c20::check(
            &c20::CCase { kind: c.kind, offered: c.offered, policy: c.policy, body: c20::Body::Rtc { clocks: vec![(0, 0, 1), (3, 2, 0)], ops: vec![c20::TOp::NumClocks(0), c20::TOp::Cap(1, 0), c20::TOp::Read(0, 0)] } },
            st,
        ),
        D::Socket => c18::check(
            &c18::VCase {
                kind: c.kind,
                offered: c.offered,
                policy: c.policy,
                big: false,
                ops: vec![c18::VOp::Listen(0), c18::VOp::Peer { peer: 0, port: 0, op: 1, len: 0, bad_cid: false }, c18::VOp::Poll, c18::VOp::Send(0, 0, 10), c18::VOp::Peer { peer: 0, port: 0, op: 5, len: 30, bad_cid: false }, c18::VOp::Poll, c18::VOp::Recv(0, 0, 100)],
            },
            st,
        ),
        D::Sound => c20::check(
            &c20::CCase {
                kind: c.kind,
                offered: c.offered,
                policy: c.policy,
                body: c20::Body::Sound {
                    streams: 2,
                    jacks: 1,
                    chmaps: 1,
                    ops: vec![c20::SOp::SetParams { stream: 0, periods: 1, period: 63, channels: 2, format: 1, rate: 2 }, c20::SOp::Prepare(0), c20::SOp::Start(0), c20::SOp::Xfer { stream: 0, len: 200, lag: 2 }, c20::SOp::Xfer { stream: 0, len: 8 * 32 + 7, lag: 0 }, c20::SOp::Xfer { stream: 0, len: 8 * 33 + 7, lag: 200 }, c20::SOp::Xfer { stream: 0, len: 8 * 10 + 7, lag: 3 }, c20::SOp::Stop(0)],
                },
            },
            st,
        ),
        D::P9 => c20::check(
            &c20::CCase { kind: c.kind, offered: c.offered, policy: c.policy, body: c20::Body::P9 { tag: "share0".into(), ops: vec![c20::POp::Request { req_len: 20, resp_len: 40, reply_len: 0x8000, bad_size: None }] } },
            st,
        ),
    }
}

const ACK: u32 = 1;
const DRIVER: u32 = 2;
const DRIVER_OK: u32 = 4;
const FEATURES_OK: u32 = 8;

/// The ordered-trace automaton of §3.1.1 "Device Initialization".
pub fn automaton(ev: &[Ev], offered: u64, supported: u64) -> Result<u64, String> {
    automaton_ext(ev, offered, supported, false).map(|(w, _)| w)
}

/// `may_give_up`: the handshake may stop before DRIVER_OK (a driver that notices the device's
/// refusal), optionally setting FAILED. Returns the accepted features and whether DRIVER_OK was reached.
pub fn automaton_ext(ev: &[Ev], offered: u64, supported: u64, may_give_up: bool) -> Result<(u64, bool), String> {
    #[derive(PartialEq, Debug, Clone, Copy)]
    enum S {
        Start,
        Reset,
        Acked,
        FeaturesRead,
        FeaturesWritten,
        FeaturesOk,
        Running,
    }
    let mut s = S::Start;
    let mut written: u64 = 0;
    let mut queues = 0;
    for (i, e) in ev.iter().enumerate() {
        let at = |m: &str| format!("transport event #{} {:x?}: {} (state {:?})", i, e, m, s);
        match e {
            Ev::Status(v) => {
                let v = *v;
                s = match (s, v) {
                    (S::Running, 0) => return Ok((written, true)), // teardown
                    (st, v) if may_give_up && st != S::Running && v & 0x80 != 0 && v & DRIVER_OK == 0 => st, // FAILED
                    (_, 0) => S::Reset,
                    (S::Reset, v) if v & (FEATURES_OK | DRIVER_OK) == 0 && v & ACK != 0 => {
                        if v & DRIVER != 0 {
                            S::Acked
                        } else {
                            S::Reset
                        }
                    }
                    (S::Acked, v) if v & (FEATURES_OK | DRIVER_OK) == 0 => S::Acked,
                    (S::FeaturesWritten, v) if v & FEATURES_OK != 0 && v & DRIVER_OK == 0 && v & (ACK | DRIVER) == (ACK | DRIVER) => {
                        if written & !offered != 0 {
                            return Err(at(&format!("driver accepted features {:#x} the device did not offer ({:#x})", written & !offered, offered)));
                        }
                        if written & !supported != 0 {
                            return Err(at(&format!("driver accepted features {:#x} it does not implement", written & !supported)));
                        }
                        if offered & (1 << 32) != 0 && written & (1 << 32) == 0 {
                            return Err(at("VERSION_1 was offered but not accepted"));
                        }
                        if written & (1 << 34 | 1 << 38 | 1 << 39) != 0 {
                            return Err(at("driver accepted a ring/notification format it does not implement"));
                        }
                        S::FeaturesOk
                    }
                    (S::FeaturesOk, v) if v & DRIVER_OK != 0 && v & (ACK | DRIVER | FEATURES_OK) == (ACK | DRIVER | FEATURES_OK) => S::Running,
                    (S::FeaturesOk, v) if v & DRIVER_OK == 0 && v & FEATURES_OK != 0 => S::FeaturesOk,
                    _ => return Err(at("status write out of order")),
                };
            }
            Ev::ReadFeat => {
                if matches!(s, S::Start | S::Reset) {
                    return Err(at("features read before ACKNOWLEDGE|DRIVER"));
                }
                if s == S::Acked {
                    s = S::FeaturesRead;
                }
            }
            Ev::WriteFeat(v) => {
                if !matches!(s, S::FeaturesRead | S::FeaturesWritten) {
                    return Err(at("driver features written before the offered features were read (or after FEATURES_OK)"));
                }
                written = *v;
                s = S::FeaturesWritten;
            }
            Ev::QueueSet { .. } => {
                if s != S::FeaturesOk {
                    return Err(at("queue configured outside the window between FEATURES_OK and DRIVER_OK"));
                }
                queues += 1;
            }
            Ev::Notify(q) => {
                if s != S::Running {
                    return Err(at(&format!("available-buffer notification for queue {} before DRIVER_OK", q)));
                }
            }
            _ => {}
        }
    }
    let _ = queues;
    if s != S::Running && s != S::Start && !may_give_up {
        return Err(format!("initialisation never reached DRIVER_OK (ended in state {:?})", s));
    }
    Ok((written, s == S::Running))
}

pub fn check(c: &HCase, st: &mut Stats) -> Result<(), String> {
    crate::props::drv::LEGACY_RAW_OFFER.with(|f| f.set(c.legacy_raw_offer));
    crate::props::drv::REFUSE_FEATURES_OK.with(|f| f.set(c.refuse_features_ok));
    let r = usage(c, st);
    crate::props::drv::LEGACY_RAW_OFFER.with(|f| f.set(false));
    crate::props::drv::REFUSE_FEATURES_OK.with(|f| f.set(false));
    let (ev, offered) = with(|w| (w.dev.ev.clone(), 0u64));
    let _ = offered;
    // what the device really offered (legacy transports mask VERSION_1 and the high word)
    let eff = if c.kind.legacy() && !c.legacy_raw_offer { c.offered & !(1 << 32) & 0xffff_ffff } else { c.offered };
    let (written, running) = automaton_ext(&ev, eff, c.drv.supported() | c.drv.passive(), c.refuse_features_ok).map_err(|m| format!("{:?} on {:?} offered {:#x}{}: {}", c.drv, c.kind, c.offered, if c.refuse_features_ok { " (device does not keep FEATURES_OK set)" } else { "" }, m))?;
    if c.refuse_features_ok {
        st.class("device_refuses_features_ok");
        if !running {
            // the driver gave up before DRIVER_OK: nothing further to judge
            st.class("driver_gave_up_on_refused_features");
            return Ok(());
        }
    }
    // the usage phase (feature-gated behaviour judged by the reference device)
    if let Err(m) = r {
        // an early notification is reported by the automaton above; everything else is the usage phase's finding
        return Err(format!("{:?} on {:?} offered {:#x}: usage phase: {}", c.drv, c.kind, c.offered, m));
    }
    let opt = c.drv.supported() & !(1 << 32);
    let has_opt = c.offered & opt != 0;
    let has_unsupported = c.offered & !c.drv.supported() != 0;
    let mut s = Sig::new();
    s.add(c.drv as u64).add(c.kind as u64).add(written);
    if has_opt && has_unsupported {
        st.nontrivial(s.get(), || json!(c));
    }
    st.class(&format!("driver_{:?}", c.drv));
    Ok(())
}

pub fn grid() -> Vec<HCase> {
    let mut v = Vec::new();
    for drv in ALL_D {
        let bits = drv.optional_bits();
        for kind in ALL_TK {
            for m in 0..(1u32 << bits.len()) {
                let mut f = 0u64;
                for (i, b) in bits.iter().enumerate() {
                    if m >> i & 1 != 0 {
                        f |= b;
                    }
                }
                // plain subset, and the subset together with unsupported noise bits
                v.push(HCase { drv, kind, offered: f, policy: Serve::OnNotify, legacy_raw_offer: false, refuse_features_ok: false });
                let noise = (0x00c0_1f00_0000_4000u64 | 1 << 34 | 1 << 38 | 1 << 39 | 1 << 35 | 1 << 27) & !drv.supported();
                v.push(HCase { drv, kind, offered: f | noise, policy: if m % 2 == 0 { Serve::Late(1) } else { Serve::Poll }, legacy_raw_offer: false, refuse_features_ok: false });
            }
            v.push(HCase { drv, kind, offered: u64::MAX, policy: Serve::OnNotify, legacy_raw_offer: false, refuse_features_ok: false });
            for offered in [drv.supported(), 0, u64::MAX] {
                v.push(HCase { drv, kind, offered, policy: Serve::OnNotify, legacy_raw_offer: false, refuse_features_ok: true });
            }
            if kind.legacy() {
                // legacy-interface devices that offer the upper feature word anyway
                for hi in [1u64 << 32, 1 << 33, 1 << 32 | 1 << 33, 1 << 32 | 1 << 28 | 1 << 29] {
                    v.push(HCase { drv, kind, offered: hi | (drv.supported() & 0xffff_ffff & !(1 << 28 | 1 << 29)), policy: Serve::OnNotify, legacy_raw_offer: true, refuse_features_ok: false });
                    v.push(HCase { drv, kind, offered: hi, policy: Serve::Late(1), legacy_raw_offer: true, refuse_features_ok: false });
                }
            }
        }
    }
    v
}

fn strategy() -> impl Strategy<Value = HCase> {
    (0usize..11, 0usize..5, any::<u64>(), any::<u64>(), crate::props::drv::serve_strategy()).prop_map(|(d, k, a, b, policy)| HCase { drv: ALL_D[d], kind: ALL_TK[k], offered: a & b | (a & (1 << 32)), policy, legacy_raw_offer: b >> 61 == 0, refuse_features_ok: b >> 57 & 7 == 0 })
}

pub fn replay(_e: &str, case: &serde_json::Value) -> Result<(), String> {
    check(&serde_json::from_value(case.clone()).map_err(|e| e.to_string())?, &mut Stats::default())
}

pub fn run(ctx: &Ctx) -> Report {
    let items = grid();
    let n = items.len();
    let mut stats = Stats::default();
    let (st, mut failure) = run_items(ctx, "init", items, check);
    stats.merge(st);
    if failure.is_none() {
        let (st, f) = run_proptest(ctx, "init", 81, ctx.n(40_000, 40_000_000), strategy, |c: &HCase, st| check(c, st));
        stats.merge(st);
        failure = f;
    }
    let _ = c17::KEY_D8;
    Report {
        stats,
        failure,
        info: PartInfo {
            level: "exploration",
            rule: "exhaustive: 11 constructors (blk, console, gpu, input, net raw, net buffered, rng, rtc, socket, sound, 9p) x {model, model-legacy, MMIO legacy, MMIO modern, PCI} x every subset of the bits the driver inspects ({INDIRECT, EVENT_IDX, VERSION_1, ACCESS_PLATFORM} + its device-specific supported bits), each alone and together with unsupported/ring-format-changing noise bits, plus all-ones; proptest adds random 64-bit sets. Oracle: an automaton over the ordered transport trace (model-transport calls or emulated register writes mapped to the same events): reset -> ACKNOWLEDGE|DRIVER -> feature read -> accepted features subset of offered and of what the driver implements, VERSION_1 iff offered, never RING_PACKED / NOTIFICATION_DATA / NOTIF_CONFIG_DATA -> FEATURES_OK -> all queue_set -> DRIVER_OK, no notification before DRIVER_OK; then a short usage phase on the driver's reference device, which rejects indirect descriptors unless negotiated and carries the feature-gated oracles (flush, console size/emergency write, EDID, read-only, 12/10-byte net header). Non-trivial = offered set with >=1 supported optional bit and >=1 unsupported bit; distinct = (driver, transport, accepted set).",
            assumptions: vec!["'supports' is taken to be each driver's current SUPPORTED_FEATURES set; accepting a bit outside it is reported".into()],
            exhaustive: false,
            extra: json!({"grid_cases": n, "grid_exhaustive": true}),
        },
    }
}
