//! C09: teardown and failed construction free each resource once, after quiescing.
//! Fault enumeration: every k-th DMA allocation of (construction + usage script) fails in turn;
//! plus drops at generated points of a usage history with requests/buffers outstanding.

use crate::devq::{Handler, Queues, Serve, Shared, SimDev};
use crate::devs_cmd::{GpuDev, SndStream, SoundDev};
use crate::hal::LHal;
use crate::props::c08::{ALL_D, D};
use crate::props::drv;
use crate::ring::Chain;
use crate::runner::{guard, run_items, run_proptest, Caught, Ctx, PartInfo, Report, Sig, Stats};
use crate::tkind::{with_transport, WithT, ALL_TK, TK};
use crate::world::{self, with, World};
use proptest::prelude::*;
use serde::{Deserialize, Serialize};
use serde_json::json;
use virtio_drivers::device::blk::{BlkReq, BlkResp, VirtIOBlk};
use virtio_drivers::device::console::VirtIOConsole;
use virtio_drivers::device::gpu::VirtIOGpu;
use virtio_drivers::device::input::VirtIOInput;
use virtio_drivers::device::net::{VirtIONet, VirtIONetRaw};
use virtio_drivers::device::rng::VirtIORng;
use virtio_drivers::device::rtc::VirtIORtc;
use virtio_drivers::device::socket::{VirtIOSocket, VsockAddr, VsockConnectionManager};
use virtio_drivers::device::sound::{PcmFeatures, PcmFormat, PcmRate, VirtIOSound};
use virtio_drivers::device::virtio_9p::VirtIO9p;
use virtio_drivers::transport::Transport;

#[derive(Clone, Debug, Serialize, Deserialize)]
pub struct TCase {
    pub drv: D,
    pub kind: TK,
    pub offered: u64,
    /// 0 = no fault; k = the k-th dma_alloc call fails
    pub fail: u16,
    /// how many usage steps before the drop
    pub steps: u8,
    pub policy: Serve,
    /// generated usage history executed after the fixed `steps` prefix and before the drop
    #[serde(default)]
    pub script: Vec<u8>,
}

/// A device that keeps everything posted to it (nothing completes), except that it answers
/// the control requests a driver needs to get going.
pub enum AnyDev {
    Hold { chains: u64 },
    Gpu(GpuDev),
    Sound(SoundDev),
    /// 9p / rng / rtc / blk blocking helpers need an answer: complete with a canned reply
    Echo { replies: u64 },
    /// buffered net driver: receive buffers are held until the script completes one (with a proper
    /// frame or with a runt shorter than the header)
    Net { rx: Vec<Chain> },
}

impl Handler for AnyDev {
    fn on_turn(&mut self, w: &mut World, qs: &mut Queues) -> bool {
        match self {
            AnyDev::Sound(s) if s.patience > 0 => s.on_turn(w, qs),
            _ => false,
        }
    }
    fn on_chain(&mut self, w: &mut World, qs: &mut Queues, q: u16, c: Chain) {
        match self {
            AnyDev::Hold { chains } => {
                *chains += 1;
                let _ = (w, qs, q, c);
            }
            AnyDev::Gpu(g) => g.on_chain(w, qs, q, c),
            AnyDev::Sound(s) => {
                // everything is held, except while a blocking transfer runs against the slow device
                s.hold_all = s.patience == 0;
                s.on_chain(w, qs, q, c)
            }
            AnyDev::Net { rx } => {
                if q == 0 {
                    rx.push(c);
                } else {
                    qs.complete_len(w, q, &c, 0);
                }
            }
            AnyDev::Echo { replies } => {
                *replies += 1;
                let cap = c.writable_len();
                let mut r = vec![0u8; cap.min(64)];
                if cap >= 4 {
                    let l = r.len() as u32;
                    r[..4].copy_from_slice(&l.to_le_bytes());
                }
                qs.complete(w, q, &c, &r);
            }
        }
    }
}

pub struct Outcome {
    pub constructed: bool,
    pub construct_err: Option<String>,
    pub op_errors: u32,
}

struct Run<'a> {
    c: &'a TCase,
    dev: Shared<AnyDev>,
}

impl WithT for Run<'_> {
    type Out = Result<Outcome, String>;
    fn call<T: Transport + 'static>(self, t: T) -> Self::Out {
        let c = self.c;
        let steps = c.steps as usize;
        let mut out = Outcome { constructed: false, construct_err: None, op_errors: 0 };
        // buffers handed to non-blocking APIs must outlive the driver
        let mut keep_blk: Vec<(Box<BlkReq>, Box<[u8]>, Box<BlkResp>)> = Vec::new();
        let mut keep_bufs: Vec<Box<[u8]>> = Vec::new();
        macro_rules! construct {
            ($e:expr) => {
                match guard(|| $e) {
                    Caught::Ok(Ok(d)) => {
                        out.constructed = true;
                        d
                    }
                    Caught::Ok(Err(e)) => {
                        out.construct_err = Some(format!("{:?}", e));
                        return Ok(out);
                    }
                    Caught::Panic(p) => return Err(format!("constructor panicked: {}", p.render())),
                    Caught::Escape(e) => return Err(format!("constructor: {:?}", e)),
                }
            };
        }
        let frame_marker = 0u8;
        let marker = &frame_marker as *const u8 as usize;
        macro_rules! step {
            ($what:expr, $e:expr) => {{
                step_inner!($what, $e);
                if let Some(m) = drv::posted_in_dead_stack(marker) {
                    return Err(format!("{} returned, but {}", $what, m));
                }
            }};
        }
        macro_rules! step_inner {
            ($what:expr, $e:expr) => {
                match guard(|| $e) {
                    Caught::Ok(Ok(_)) => {}
                    Caught::Ok(Err(_)) => {
                        if with(|w| w.hal.log.iter().any(|e| matches!(e, crate::hal::HalEv::AllocFailed { .. }))) {
                            out.op_errors += 1
                        }
                    }
                    Caught::Panic(p) => return Err(format!("{} panicked: {}", $what, p.render())),
                    Caught::Escape(e) => return Err(format!("{}: {:?}", $what, e)),
                }
            };
        }
        macro_rules! finish {
            ($d:expr) => {{
                let d = $d;
                match guard(move || drop(d)) {
                    Caught::Ok(()) => {}
                    Caught::Panic(p) => return Err(format!("drop panicked: {}", p.render())),
                    Caught::Escape(e) => return Err(format!("drop: {:?}", e)),
                }
            }};
        }
        match c.drv {
            D::Blk => {
                let mut d = construct!(VirtIOBlk::<LHal, T>::new(t));
                for i in 0..steps.min(6) {
                    let mut req = Box::new(BlkReq::default());
                    let mut buf = vec![0u8; 512].into_boxed_slice();
                    let mut resp = Box::new(BlkResp::default());
                    step!("read_blocks_nb", unsafe { d.read_blocks_nb(i, &mut req, &mut buf, &mut resp) });
                    keep_blk.push((req, buf, resp));
                }
                // generated history: more requests, and polls for requests the device still holds
                let mut toks: Vec<(u16, usize, bool)> = Vec::new();
                for (i, &b) in c.script.iter().enumerate() {
                    match b % 4 {
                        0 | 1 => {
                            let wr = b % 4 == 1;
                            let mut req = Box::new(BlkReq::default());
                            let mut buf = vec![i as u8; 512].into_boxed_slice();
                            let mut resp = Box::new(BlkResp::default());
                            let mut tok = None;
                            step!("read/write_blocks_nb", {
                                let r = if wr { unsafe { d.write_blocks_nb(i, &mut req, &buf, &mut resp) } } else { unsafe { d.read_blocks_nb(i, &mut req, &mut buf, &mut resp) } };
                                tok = r.as_ref().ok().copied();
                                r
                            });
                            keep_blk.push((req, buf, resp));
                            if let Some(t) = tok {
                                toks.push((t, keep_blk.len() - 1, wr));
                            }
                        }
                        2 => {
                            if let Some(&(t, k, wr)) = toks.get(b as usize / 4 % toks.len().max(1)) {
                                let (req, buf, resp) = &mut keep_blk[k];
                                step!("complete_*_blocks", if wr { unsafe { d.complete_write_blocks(t, req, buf, resp) } } else { unsafe { d.complete_read_blocks(t, req, buf, resp) } });
                            }
                        }
                        _ => {
                            let _ = guard(|| d.peek_used());
                        }
                    }
                }
                finish!(d);
            }
            D::Console => {
                let mut d = construct!(VirtIOConsole::<LHal, T>::new(t));
                for _ in 0..steps.min(3) {
                    step!("recv", d.recv(true));
                }
                for &op in c.script.iter() {
                    match op % 4 {
                        0 => step!("recv", d.recv(op & 4 != 0)),
                        1 => step!("send", d.send(op)),
                        2 => step!("ack_interrupt", d.ack_interrupt()),
                        _ => step!("size", d.size()),
                    }
                }
                finish!(d);
            }
            D::Gpu => {
                let mut d = construct!(VirtIOGpu::<LHal, T>::new(t));
                if steps >= 1 {
                    step!("setup_framebuffer", d.setup_framebuffer().map(|_| ()));
                }
                if steps >= 2 {
                    let img = vec![1u8; 64 * 64 * 4];
                    step!("setup_cursor", d.setup_cursor(&img, 1, 2, 3, 4));
                }
                if steps >= 3 {
                    step!("change_resolution", d.change_resolution(64, 48).map(|_| ()));
                }
                if steps >= 4 {
                    step!("flush", d.flush());
                }
                for &op in c.script.iter() {
                    match op % 5 {
                        0 => step!("setup_framebuffer", d.setup_framebuffer().map(|_| ())),
                        1 => step!("change_resolution", d.change_resolution(16 + (op as u32 / 5) * 4, 16).map(|_| ())),
                        2 => {
                            let img = vec![op; 64 * 64 * 4];
                            step!("setup_cursor", d.setup_cursor(&img, 1, 2, 3, 4));
                        }
                        3 => step!("flush", d.flush()),
                        _ => step!("move_cursor", d.move_cursor(op as u32, 7)),
                    }
                }
                finish!(d);
            }
            D::Input => {
                let mut d = construct!(VirtIOInput::<LHal, T>::new(t));
                for _ in 0..steps.min(3) {
                    let _ = guard(|| d.pop_pending_event());
                }
                for &op in c.script.iter() {
                    if op % 2 == 0 {
                        let _ = guard(|| d.pop_pending_event());
                    } else {
                        let _ = guard(|| d.ack_interrupt());
                    }
                }
                finish!(d);
            }
            D::NetRaw => {
                let mut d = construct!(VirtIONetRaw::<LHal, T, 4>::new(t));
                for i in 0..steps.min(5) {
                    let mut b = vec![0u8; 2048].into_boxed_slice();
                    if i % 2 == 0 {
                        step!("receive_begin", unsafe { d.receive_begin(&mut b) });
                    } else {
                        let _ = d.fill_buffer_header(&mut b);
                        step!("transmit_begin", unsafe { d.transmit_begin(&b[..100]) });
                    }
                    keep_bufs.push(b);
                }
                let mut rx: Vec<(u16, usize)> = Vec::new();
                let mut tx: Vec<(u16, usize)> = Vec::new();
                for &op in c.script.iter() {
                    match op % 5 {
                        0 => {
                            let mut b = vec![0u8; 2048].into_boxed_slice();
                            let mut tok = None;
                            step!("receive_begin", {
                                let r = unsafe { d.receive_begin(&mut b) };
                                tok = r.as_ref().ok().copied();
                                r
                            });
                            keep_bufs.push(b);
                            if let Some(t) = tok {
                                rx.push((t, keep_bufs.len() - 1));
                            }
                        }
                        1 => {
                            let mut b = vec![0u8; 2048].into_boxed_slice();
                            let _ = d.fill_buffer_header(&mut b);
                            let mut tok = None;
                            step!("transmit_begin", {
                                let r = unsafe { d.transmit_begin(&b[..100]) };
                                tok = r.as_ref().ok().copied();
                                r
                            });
                            keep_bufs.push(b);
                            if let Some(t) = tok {
                                tx.push((t, keep_bufs.len() - 1));
                            }
                        }
                        2 => {
                            if let Some(&(t, k)) = rx.get(op as usize / 5 % rx.len().max(1)) {
                                step!("receive_complete", unsafe { d.receive_complete(t, &mut keep_bufs[k]) });
                            }
                        }
                        3 => {
                            if let Some(&(t, k)) = tx.get(op as usize / 5 % tx.len().max(1)) {
                                step!("transmit_complete", unsafe { d.transmit_complete(t, &keep_bufs[k][..100]) });
                            }
                        }
                        _ => {
                            let _ = guard(|| (d.poll_receive(), d.poll_transmit()));
                        }
                    }
                }
                finish!(d);
            }
            D::Net => {
                let mut d = construct!(VirtIONet::<LHal, T, 4>::new(t, 2048));
                for _ in 0..steps.min(3) {
                    let _ = guard(|| d.can_recv());
                }
                // generated history: the device completes held receive buffers with a frame or with
                // a runt; the caller receives, keeps and recycles buffers
                let mut held_rx = Vec::new();
                for &op in c.script.iter() {
                    match op % 6 {
                        0 => {
                            let _ = guard(|| (d.can_recv(), d.can_send()));
                        }
                        1 => {
                            let mut got = None;
                            step!("receive", {
                                let r = d.receive();
                                match r {
                                    Ok(b) => {
                                        got = Some(b);
                                        Ok(())
                                    }
                                    Err(e) => Err(e),
                                }
                            });
                            if let Some(b) = got {
                                held_rx.push(b);
                            }
                        }
                        2 | 3 => {
                            let len = if op % 6 == 2 { 12 + 20 + (op as u32 / 6) } else { (op as u32 / 6) % 10 };
                            self.dev.with(|dv| {
                                world::with(|w| {
                                    let dv = &mut *dv;
                                    if let AnyDev::Net { rx } = &mut dv.h {
                                        if !rx.is_empty() {
                                            let ch = rx.remove(0);
                                            dv.qs.complete_len(w, 0, &ch, len);
                                        }
                                    }
                                })
                            });
                        }
                        _ => {
                            if !held_rx.is_empty() {
                                let b = held_rx.remove((op as usize / 6) % held_rx.len());
                                step!("recycle_rx_buffer", d.recycle_rx_buffer(b));
                            }
                        }
                    }
                }
                drop(held_rx);
                finish!(d);
            }
            D::Rng => {
                let mut d = construct!(VirtIORng::<LHal, T>::new(t));
                for _ in 0..steps.min(2) {
                    let mut b = [0u8; 32];
                    step!("request_entropy", d.request_entropy(&mut b));
                }
                finish!(d);
            }
            D::Rtc => {
                let mut d = construct!(VirtIORtc::<LHal, T>::new(t));
                for _ in 0..steps.min(2) {
                    step!("num_clocks", d.num_clocks());
                }
                finish!(d);
            }
            D::Socket => {
                let s = construct!(VirtIOSocket::<LHal, T>::new(t));
                let mut m = VsockConnectionManager::new(s);
                if steps >= 1 {
                    m.listen(80);
                    step!("connect", m.connect(VsockAddr { cid: 2, port: 9 }, 1234));
                }
                for _ in 0..steps.min(3) {
                    step!("poll", m.poll());
                }
                for &op in c.script.iter() {
                    let peer = VsockAddr { cid: 2, port: 9 + (op as u32 / 8) % 2 };
                    match op % 6 {
                        0 => step!("connect", m.connect(peer, 1234)),
                        1 => step!("poll", m.poll()),
                        2 => step!("send", m.send(peer, 1234, &[op; 24])),
                        3 => step!("shutdown", m.shutdown(peer, 1234)),
                        4 => step!("force_close", m.force_close(peer, 1234)),
                        _ => {
                            let mut b = [0u8; 16];
                            step!("recv", m.recv(peer, 1234, &mut b));
                        }
                    }
                }
                finish!(m);
            }
            D::Sound => {
                let mut d = construct!(VirtIOSound::<LHal, T>::new(t));
                if steps >= 1 {
                    step!("pcm_set_params", d.pcm_set_params(0, 64, 32, PcmFeatures::empty(), 2, PcmFormat::S16, PcmRate::Rate48000));
                }
                for _ in 1..steps.min(6) {
                    let frames = [7u8; 32];
                    step!("pcm_xfer_nb", d.pcm_xfer_nb(0, &frames));
                }
                // generated history: transfers and acknowledgements, also for transfers the device
                // has not completed (in and out of submission order)
                let mut toks: Vec<u16> = Vec::new();
                for &op in c.script.iter() {
                    match op % 7 {
                        0 | 1 => {
                            let frames = [op; 32];
                            let mut tok = None;
                            step!("pcm_xfer_nb", {
                                let r = d.pcm_xfer_nb(0, &frames);
                                tok = r.as_ref().ok().copied();
                                r
                            });
                            if let Some(t) = tok {
                                toks.push(t);
                            }
                        }
                        2 | 3 => {
                            if !toks.is_empty() {
                                let k = if op % 7 == 2 { 0 } else { toks.len() - 1 };
                                let t = toks[k];
                                let mut ok = false;
                                step!("pcm_xfer_ok", {
                                    let r = d.pcm_xfer_ok(t);
                                    ok = r.is_ok();
                                    r
                                });
                                if ok {
                                    toks.remove(k);
                                }
                            }
                        }
                        4 => step!("pcm_set_params", d.pcm_set_params(0, 64, 32, PcmFeatures::empty(), 2, PcmFormat::S16, PcmRate::Rate48000)),
                        6 => {
                            // a blocking transfer of 33..48 periods against a slow device that lets
                            // the queue fill up (only while nothing non-blocking is outstanding)
                            if toks.is_empty() && steps < 2 {
                                let frames = vec![op; 32 * (33 + (op as usize / 7) % 16)];
                                self.dev.with(|dv| {
                                    if let AnyDev::Sound(s) = &mut dv.h {
                                        s.patience = 1 + (op as u32 / 7) % 3;
                                        s.patience_left = s.patience;
                                        s.lag = 40;
                                        s.hold_all = false;
                                    }
                                });
                                // (an *error* return of pcm_xfer with transfers still posted is the open
                                // finding recorded under C07; only a normal return is judged here)
                                let mut ok = false;
                                step_inner!("pcm_xfer", {
                                    let r = d.pcm_xfer(0, &frames);
                                    ok = r.is_ok();
                                    r
                                });
                                if ok {
                                    if let Some(m) = drv::posted_in_dead_stack(marker) {
                                        return Err(format!("pcm_xfer returned Ok, but {}", m));
                                    }
                                }
                                self.dev.with(|dv| {
                                    if let AnyDev::Sound(s) = &mut dv.h {
                                        s.patience = 0;
                                        s.patience_left = 0;
                                        s.hold_all = true;
                                    }
                                });
                            }
                        }
                        _ => step!("latest_notification", d.latest_notification()),
                    }
                }
                finish!(d);
            }
            D::P9 => {
                let mut d = construct!(VirtIO9p::<LHal, T>::new(t));
                for _ in 0..steps.min(2) {
                    let mut r = [0u8; 32];
                    step!("request", d.request(&[1, 2, 3], &mut r));
                }
                finish!(d);
            }
        }
        drop(keep_blk);
        drop(keep_bufs);
        Ok(out)
    }
}

fn setup(c: &TCase) -> (u32, usize, Shared<AnyDev>) {
    let (dtype, cfg): (u32, Vec<u8>) = match c.drv {
        D::Blk => (2, {
            let mut v = vec![0u8; 64];
            v[0] = 64;
            v
        }),
        D::Console => (3, vec![0u8; 12]),
        D::Gpu => (16, {
            let mut v = vec![0u8; 16];
            v[8] = 1;
            v
        }),
        D::Input => (18, vec![0u8; 136]),
        D::NetRaw | D::Net => (1, vec![2u8; 12]),
        D::Rng => (4, vec![]),
        D::Rtc => (17, vec![]),
        D::Socket => (19, vec![3, 0, 0, 0, 0, 0, 0, 0]),
        D::Sound => (25, vec![1, 0, 0, 0, 1, 0, 0, 0, 0, 0, 0, 0]),
        D::P9 => (9, vec![4, 0, b't', b'a', b'g', b'0', 0, 0]),
    };
    let l = cfg.len();
    drv::setup_world(c.kind, c.offered, cfg, 64);
    let dev = match c.drv {
        D::Gpu => AnyDev::Gpu(GpuDev::new(8, 4)),
        D::Sound => AnyDev::Sound(SoundDev::new(
            vec![SndStream { features: 0, formats: 0xff, rates: 0xff, direction: 0, ch_min: 1, ch_max: 2, params_set: false, period: 0 }],
            vec![(1, 0, 0, 0, 0)],
            vec![],
        )),
        D::Rng | D::Rtc | D::P9 | D::Socket | D::Console => AnyDev::Echo { replies: 0 },
        D::Net => AnyDev::Net { rx: vec![] },
        _ => AnyDev::Hold { chains: 0 },
    };
    // socket/console tx must complete for blocking sends; their rx buffers are simply held
    let nq = match c.drv {
        D::Sound => 4,
        D::Socket => 3,
        _ => 2,
    };
    let mut sim = SimDev::new(nq, c.policy, dev);
    if matches!(c.drv, D::Socket | D::Console) {
        sim.qs.policy_of = vec![Some(Serve::Late(200)), None, None]; // the receive queue is never served
    }
    let dev = Shared::install(sim);
    (dtype, l, dev)
}

pub fn run_one(c: &TCase) -> Result<(Outcome, u64), String> {
    let (dtype, cfg_len, dev) = setup(c);
    with(|w| w.hal.fail_alloc_at = if c.fail == 0 { None } else { Some(c.fail as u64) });
    let out = with_transport(c.kind, dtype, cfg_len, Run { c, dev })??;
    let (calls, live, failed_hit) = with(|w| (w.hal.alloc_calls, w.hal.live_dma_count(), w.hal.log.iter().any(|e| matches!(e, crate::hal::HalEv::AllocFailed { .. }))));
    // substrate faults: wrong dealloc arguments, double free, release while the device is live
    if let Some(f) = world::with(|w| w.faults.iter().find(|f| ["dealloc", "quiesce", "attached", "unshare", "share", "freed_posted"].contains(&f.prop)).cloned()) {
        return Err(format!("[{}] {}", f.prop, f.msg));
    }
    if live != 0 {
        return Err(format!("{} DMA regions are still allocated after the driver and its transport were dropped (leak)", live));
    }
    if c.fail != 0 && failed_hit {
        // the failure must have surfaced as an error
        if out.constructed && out.op_errors == 0 {
            return Err(format!("dma_alloc #{} failed but neither the constructor nor any operation reported an error", c.fail));
        }
        if !out.constructed && out.construct_err.is_none() {
            return Err("constructor neither succeeded nor returned an error".into());
        }
    }
    Ok((out, calls))
}

pub fn check(c: &TCase, st: &mut Stats) -> Result<(), String> {
    let what = format!("{:?} on {:?} offered {:#x} fail={} steps={} script={:?}", c.drv, c.kind, c.offered, c.fail, c.steps, c.script);
    let (out, calls) = run_one(c).map_err(|m| format!("{}: {}", what, m))?;
    let mut s = Sig::new();
    s.add(c.drv as u64).add(c.kind as u64).add(c.offered & 0x3_3000_0000).add(c.fail as u64).add(c.steps as u64);
    for &b in &c.script {
        s.add(b as u64 % 6);
    }
    if !c.script.is_empty() {
        st.class("generated_usage_history");
    }
    let fault_after_success = c.fail > 1 && (c.fail as u64) <= calls;
    if fault_after_success || (c.fail == 0 && (c.steps > 0 || !c.script.is_empty())) {
        st.nontrivial(s.get(), || json!(c));
    }
    if c.fail != 0 && !out.constructed {
        st.class("construction_failed_by_injected_fault");
    }
    Ok(())
}

/// All (driver, transport, flags, steps) with every fault index 1..=A.
pub fn enumerate(steps_list: &[u8], flag_sets: &[u64]) -> Result<Vec<TCase>, String> {
    let mut items = Vec::new();
    for drv in ALL_D {
        for kind in ALL_TK {
            for &offered in flag_sets {
                for &steps in steps_list {
                    let base = TCase { drv, kind, offered, fail: 0, steps, policy: Serve::OnNotify, script: vec![] };
                    let (_, a) = run_one(&base).map_err(|m| format!("dry run {:?}: {}", base, m))?;
                    items.push(base.clone());
                    for k in 1..=a as u16 {
                        items.push(TCase { fail: k, ..base.clone() });
                    }
                }
            }
        }
    }
    world::reset();
    Ok(items)
}

fn strategy() -> impl Strategy<Value = TCase> {
    (0usize..11, 0usize..5, drv::feature_strategy(&[1, 2, 4, 1 << 5, 1 << 9, 1 << 16]), 0u16..12, 0u8..8, drv::serve_strategy(), prop_oneof![1 => Just(vec![]), 3 => prop::collection::vec(any::<u8>(), 1..12)])
        .prop_map(|(d, k, offered, fail, steps, policy, script)| TCase { drv: ALL_D[d], kind: ALL_TK[k], offered, fail, steps, policy, script })
}

pub fn replay(_e: &str, case: &serde_json::Value) -> Result<(), String> {
    check(&serde_json::from_value(case.clone()).map_err(|e| e.to_string())?, &mut Stats::default())
}

pub fn run(ctx: &Ctx) -> Report {
    let v1 = 1u64 << 32;
    let flag_sets: Vec<u64> = if ctx.quick() {
        vec![v1, v1 | 1 << 28, v1 | 1 << 29 | 1 << 33, 0]
    } else {
        (0..16u64).map(|m| (m & 1) << 28 | (m >> 1 & 1) << 29 | (m >> 2 & 1) << 32 | (m >> 3 & 1) << 33).collect()
    };
    let steps: &[u8] = if ctx.quick() { &[0, 4] } else { &[0, 1, 2, 3, 4, 6] };
    let mut stats = Stats::default();
    let items = match enumerate(steps, &flag_sets) {
        Ok(i) => i,
        Err(m) => {
            return Report {
                stats,
                failure: Some(crate::runner::Failure { msg: m, engine: "teardown".into(), case: json!(null) }),
                info: PartInfo { level: "fault_enumeration", rule: "dry run failed", assumptions: vec![], exhaustive: false, extra: json!({}) },
            }
        }
    };
    let n = items.len();
    let (st, mut failure) = run_items(ctx, "teardown", items, check);
    stats.merge(st);
    if failure.is_none() {
        let (st, f) = run_proptest(ctx, "teardown", 91, ctx.n(60_000, 40_000_000), strategy, |c: &TCase, st| check(c, st));
        stats.merge(st);
        failure = f;
    }
    Report {
        stats,
        failure,
        info: PartInfo {
            level: "fault_enumeration",
            rule: "for each of the 11 constructors x {model, model-legacy, MMIO legacy, MMIO modern, PCI} x flag combinations x usage-script lengths: a dry run counts the DMA allocations A of construction + usage script (outstanding non-blocking block requests, posted net/console/input/vsock/sound buffers, GPU framebuffer, cursor and resolution change) + drop; then every k in 1..=A is failed in turn (exhaustive in k); proptest adds random feature sets, fault indices, script lengths, device policies and a generated usage history per driver (non-blocking block requests and early/out-of-order completion polls, raw-net begin/complete pairs for buffers the device still holds, console/socket/gpu/input/buffered-net operations, sound pcm_xfer_nb / pcm_xfer_ok for transfers the device has not completed, in and out of order) executed before the drop. Oracle (ledger Hal + transport model): an injected failure surfaces as Err, never a panic; every DMA region is returned exactly once with its original (paddr, vaddr, pages) and none is live after drop; no queue memory is released while the device is live on that queue (DRIVER_OK set, queue enabled, no reset since), no GPU backing while still attached, and (allocator interposer) no heap block that is still shared with the live device is freed. Non-trivial = a failure point with >=1 earlier successful allocation, or a fault-free drop with something still posted; distinct = (driver, transport, flags, k, steps).",
            assumptions: vec![
                "a reset of the device (dropping the transport) counts as quiescing, as on both real transports".into(),
                "release of heap buffers posted to the device is observed by the allocator interposer (a heap block freed while a range inside it is shared with a live device) in addition to the share ledger".into(),
            ],
            exhaustive: false,
            extra: json!({"enumerated_cases": n, "exhaustive_in_fault_index": true}),
        },
    }
}
