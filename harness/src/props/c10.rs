//! C10: the MMIO transport performs exactly the register accesses the specification prescribes.

use crate::bus::Access;
use crate::mmio_dev::{self, MmioQueueRegs, MAGIC, MMIO_BASE};
use crate::runner::{guard, run_proptest, Caught, Ctx, PartInfo, Report, Sig, Stats};
use crate::world::{self, with};
use proptest::prelude::*;
use serde::{Deserialize, Serialize};
use serde_json::json;
use virtio_drivers::transport::mmio::{MmioError, MmioTransport};
use virtio_drivers::transport::{DeviceStatus, SomeTransport, Transport};

#[derive(Clone, Debug, Serialize, Deserialize, PartialEq)]
pub enum TOp {
    DevType,
    ReadFeat,
    WriteFeat(u64),
    MaxQ(u16),
    Notify(u16),
    GetStatus,
    SetStatus(u32),
    GuestPage(u32),
    LegacyLayout,
    /// size is 2^size_log2 for legacy, `size` verbatim for modern
    /// the first half of device initialisation as every driver performs it (`Transport::begin_init`)
    /// with this set of driver-supported features (VERSION_1 is added when the device offers it)
    BeginInit(u64),
    QueueSet {
        q: u16,
        size_log2: u8,
        size: u32,
        d: u64,
        a: u64,
        u: u64,
        /// legacy only: a layout-consistent, page-aligned triple at or above 2^44, whose page frame
        /// number does not fit the 32-bit QueuePFN register
        #[serde(default)]
        high: bool,
    },
    QueueUnset(u16),
    QueueUsed(u16),
    AckInt(u32),
    Gen,
    CfgRead32(u16),
    CfgWrite32(u16, u32),
}

#[derive(Clone, Debug, Serialize, Deserialize)]
pub struct TCase {
    pub version: u32,
    pub dtype: u32,
    pub offered: u64,
    pub max: u32,
    pub ready_delay: u8,
    pub cfg_len: u16,
    pub ops: Vec<TOp>,
}

#[derive(Clone, Debug, PartialEq)]
pub enum Res {
    None,
    U64(u64),
    Bool(bool),
    Cfg(Result<u32, String>),
    Panic(String),
}

fn apply<T: Transport>(t: &mut T, op: &TOp, version: u32) -> Res {
    match op {
        TOp::DevType => Res::U64(t.device_type() as u64),
        TOp::ReadFeat => Res::U64(t.read_device_features()),
        TOp::BeginInit(sup) => {
            let offered = t.read_device_features();
            let sup = AllBits::from_bits_retain(*sup | (offered & 1 << 32));
            Res::U64(t.begin_init(sup).bits())
        }
        TOp::WriteFeat(v) => {
            t.write_driver_features(*v);
            Res::None
        }
        TOp::MaxQ(q) => Res::U64(t.max_queue_size(*q) as u64),
        TOp::Notify(q) => {
            t.notify(*q);
            Res::None
        }
        TOp::GetStatus => Res::U64(t.get_status().bits() as u64),
        TOp::SetStatus(v) => {
            t.set_status(DeviceStatus::from_bits_retain(*v));
            Res::None
        }
        TOp::GuestPage(v) => {
            t.set_guest_page_size(*v);
            Res::None
        }
        TOp::LegacyLayout => Res::Bool(t.requires_legacy_layout()),
        TOp::QueueSet { q, size_log2, size, d, a, u, high } => {
            let (s, d, a, u) = qs_args(version, *size_log2, *size, *d, *a, *u, *high);
            t.queue_set(*q, s, d, a, u);
            Res::None
        }
        TOp::QueueUnset(q) => {
            t.queue_unset(*q);
            Res::None
        }
        TOp::QueueUsed(q) => Res::Bool(t.queue_used(*q)),
        TOp::AckInt(_) => Res::U64(t.ack_interrupt().bits() as u64),
        TOp::Gen => Res::U64(t.read_config_generation() as u64),
        TOp::CfgRead32(o) => Res::Cfg(t.read_config_space::<u32>(*o as usize * 4).map_err(|e| format!("{:?}", e))),
        TOp::CfgWrite32(o, v) => Res::Cfg(t.write_config_space::<u32>(*o as usize * 4, *v).map(|_| 0).map_err(|e| format!("{:?}", e))),
    }
}

/// The arguments actually passed for a QueueSet op.
fn qs_args(version: u32, size_log2: u8, size: u32, d: u64, a: u64, u: u64, high: bool) -> (u32, u64, u64, u64) {
    if version == 1 && high {
        let s = 1u32 << (size_log2 % 16);
        let d = (d | 1 << 44) & 0x7fff_ffff_ffff_f000;
        let a = d + 16 * s as u64;
        let u = (a + 6 + 2 * s as u64 + 4095) & !4095;
        (s, d, a, u)
    } else if version == 1 {
        // the legacy transport documents (asserts) a layout-consistent triple below 2^44
        let s = 1u32 << (size_log2 % 16);
        let d = (d & 0x0000_0fff_ffff_f000).max(0x1000);
        let a = d + 16 * s as u64;
        let u = (a + 6 + 2 * s as u64 + 4095) & !4095;
        (s, d, a, u)
    } else {
        (size, d, a, u)
    }
}

bitflags::bitflags! {
    /// A driver feature set in which every bit is a known flag.
    #[derive(Copy, Clone, Debug, PartialEq, Eq)]
    pub struct AllBits: u64 {
        const ALL = !0;
    }
}

fn rel(tr: &[Access]) -> Vec<(bool, u64, u8, u64)> {
    tr.iter().map(|a| (a.write, a.addr.wrapping_sub(MMIO_BASE), a.width, a.val)).collect()
}

struct Pre {
    isr: u32,
    status: u32,
    offered: u64,
    gen: u32,
    max_of: u32,
    regs: MmioQueueRegs,
    cfg: Vec<u8>,
}

/// Spec oracle for one operation.
fn check_op(c: &TCase, op: &TOp, tr: &[(bool, u64, u8, u64)], res: &Res, pre: &Pre) -> Result<(), String> {
    let legacy = c.version == 1;
    let only = |allowed: &[u64]| -> Result<(), String> {
        for a in tr {
            if !allowed.contains(&a.1) {
                return Err(format!("touches register {:#05x}, not part of this operation", a.1));
            }
        }
        Ok(())
    };
    let first_sel = |q: u16| -> Result<(), String> {
        match tr.first() {
            Some((true, 0x30, 4, v)) if *v == q as u64 => Ok(()),
            other => Err(format!("first access must select queue {} (write {:#x} to 0x030), got {:x?}", q, q, other)),
        }
    };
    let exact = |want: &[(bool, u64, u64)]| -> Result<(), String> {
        let got: Vec<(bool, u64, u64)> = tr.iter().map(|a| (a.0, a.1, a.3)).collect();
        if got != want {
            return Err(format!("accesses (write?, offset, value) {:x?}, specification prescribes {:x?}", got, want));
        }
        Ok(())
    };
    let post = with(|w| {
        let m = w.mmio.as_ref().unwrap();
        (m.q.clone(), m.queue_sel, m.guest_page_size, w.dev.accepted, w.dev.status)
    });
    match op {
        TOp::DevType => {
            only(&[0x008])?;
            if *res != Res::U64(c.dtype as u64) {
                return Err(format!("device_type() = {:?}, device id is {}", res, c.dtype));
            }
        }
        TOp::ReadFeat => {
            only(&[0x014, 0x010])?;
            let mut sel: Option<u64> = None;
            let (mut lo, mut hi) = (None, None);
            for a in tr {
                match (a.0, a.1) {
                    (true, 0x014) => sel = Some(a.3),
                    (false, 0x010) => match sel {
                        Some(0) => lo = Some(a.3),
                        Some(1) => hi = Some(a.3),
                        other => return Err(format!("DeviceFeatures read with selector {:?}", other)),
                    },
                    _ => {}
                }
            }
            if lo.is_none() || hi.is_none() {
                return Err("both feature words must be read".into());
            }
            if *res != Res::U64(pre.offered) {
                return Err(format!("read_device_features() = {:x?}, device offers {:#x}", res, pre.offered));
            }
        }
        TOp::BeginInit(sup) => {
            // (the extra feature read made by the harness itself is part of the trace)
            only(&[0x070, 0x014, 0x010, 0x024, 0x020, 0x028])?;
            let sup = *sup | (pre.offered & 1 << 32);
            // negotiated: a subset of offered-and-supported (which of them to take is C08's
            // business, as is VERSION_1), and exactly what the device was told
            let Res::U64(neg) = res else { return Err(format!("begin_init returned {:?}", res)) };
            if neg & !(pre.offered & sup) != 0 || (pre.offered & 1 << 32 != 0 && neg & 1 << 32 == 0) {
                return Err(format!("begin_init negotiated {:#x}, device offers {:#x}, driver supports {:#x}", neg, pre.offered, sup));
            }
            if post.3 != *neg {
                return Err(format!("driver features seen by the device {:#x}, negotiated {:#x}", post.3, neg));
            }
            let gps: Vec<u64> = tr.iter().filter(|a| a.0 && a.1 == 0x028).map(|a| a.3).collect();
            if legacy {
                // legacy interface: GuestPageSize must be programmed before any queue is used,
                // whatever features the device offered
                if gps != vec![4096] {
                    return Err(format!("legacy device: GuestPageSize writes during initialisation {:?}, expected one write of 4096", gps));
                }
            } else if !gps.is_empty() {
                return Err("modern device: GuestPageSize (a legacy-only register) was written".into());
            }
            if post.4 & 0xb != 0xb {
                return Err(format!("status after begin_init is {:#x}, expected ACKNOWLEDGE|DRIVER|FEATURES_OK", post.4));
            }
        }
        TOp::WriteFeat(v) => {
            only(&[0x024, 0x020])?;
            if post.3 != *v {
                return Err(format!("driver features seen by the device {:#x}, written {:#x}", post.3, v));
            }
            let w20 = tr.iter().filter(|a| a.1 == 0x020).count();
            if w20 != 2 {
                return Err(format!("{} writes of DriverFeatures, expected one per word", w20));
            }
        }
        TOp::MaxQ(q) => {
            first_sel(*q)?;
            exact(&[(true, 0x30, *q as u64), (false, 0x34, pre.max_of as u64)])?;
            if *res != Res::U64(pre.max_of as u64) {
                return Err(format!("max_queue_size = {:?}, QueueNumMax = {}", res, pre.max_of));
            }
        }
        TOp::Notify(q) => exact(&[(true, 0x50, *q as u64)])?,
        TOp::GetStatus => {
            exact(&[(false, 0x70, pre.status as u64)])?;
            if *res != Res::U64(pre.status as u64) {
                return Err(format!("get_status() = {:?}, Status register = {:#x}", res, pre.status));
            }
        }
        TOp::SetStatus(v) => {
            // Status is read/write: reading it back (e.g. waiting for a reset to take effect) is the
            // implementation's choice; the one value written must be the caller's
            only(&[0x70])?;
            let writes: Vec<u64> = tr.iter().filter(|a| a.0).map(|a| a.3).collect();
            if writes != vec![*v as u64] {
                return Err(format!("set_status({:#x}) wrote {:x?} to Status", v, writes));
            }
        }
        TOp::GuestPage(v) => {
            if legacy {
                exact(&[(true, 0x28, *v as u64)])?
            } else {
                exact(&[])?
            }
        }
        TOp::LegacyLayout => {
            exact(&[])?;
            if *res != Res::Bool(legacy) {
                return Err(format!("requires_legacy_layout() = {:?} on a version {} device", res, c.version));
            }
        }
        TOp::QueueSet { q, size_log2, size, d, a, u, high } => {
            let (s, d, a, u) = qs_args(c.version, *size_log2, *size, *d, *a, *u, *high);
            first_sel(*q)?;
            let regs = post.0.get(&(*q as u32)).cloned().unwrap_or_default();
            if legacy {
                only(&[0x30, 0x38, 0x3c, 0x40])?;
                match tr.last() {
                    Some((true, 0x40, 4, v)) if *v == d >> 12 => {}
                    other => return Err(format!("last access must write QueuePFN = {:#x}, got {:x?}", d >> 12, other)),
                }
                if regs.num != s || regs.align != 4096 || regs.pfn as u64 != d >> 12 {
                    return Err(format!("device state after queue_set: {:?}; expected num {} align 4096 pfn {:#x}", regs, s, d >> 12));
                }
                if post.2 != 4096 {
                    return Err(format!("GuestPageSize is {} when the queue is enabled", post.2));
                }
                let i_pfn = tr.len() - 1;
                for need in [0x38u64, 0x3c] {
                    if !tr[..i_pfn].iter().any(|x| x.0 && x.1 == need) {
                        return Err(format!("register {:#05x} not written before QueuePFN", need));
                    }
                }
            } else {
                only(&[0x30, 0x38, 0x80, 0x84, 0x90, 0x94, 0xa0, 0xa4, 0x44])?;
                match tr.last() {
                    Some((true, 0x44, 4, 1)) => {}
                    other => return Err(format!("last access must write QueueReady = 1, got {:x?}", other)),
                }
                // QueueReady may be read (is the queue live?) and a live queue may be stopped first
                // (write 0); 1 is written exactly once, last
                if tr.iter().filter(|x| x.0 && x.1 == 0x44 && x.3 != 0).count() != 1 {
                    return Err("QueueReady = 1 written more than once".into());
                }
                if regs.num != s || regs.desc != d || regs.driver != a || regs.device != u || regs.ready != 1 {
                    return Err(format!(
                        "device state after queue_set(size {}, desc {:#x}, driver {:#x}, device {:#x}): {:x?}",
                        s, d, a, u, regs
                    ));
                }
                for need in [0x38u64, 0x80, 0x84, 0x90, 0x94, 0xa0, 0xa4] {
                    if !tr.iter().any(|x| x.0 && x.1 == need) {
                        return Err(format!("register {:#05x} not written before QueueReady", need));
                    }
                }
            }
            if post.1 != *q as u32 {
                return Err("queue selector changed during queue_set".into());
            }
        }
        TOp::QueueUnset(q) => {
            first_sel(*q)?;
            let regs = post.0.get(&(*q as u32)).cloned().unwrap_or_default();
            if legacy {
                only(&[0x30, 0x38, 0x3c, 0x40])?;
                if regs.pfn != 0 {
                    return Err("QueuePFN not cleared by queue_unset".into());
                }
            } else {
                only(&[0x30, 0x38, 0x80, 0x84, 0x90, 0x94, 0xa0, 0xa4, 0x44])?;
                if regs.ready != 0 {
                    return Err("QueueReady not cleared by queue_unset".into());
                }
                let w0 = tr.iter().position(|x| x.0 && x.1 == 0x44 && x.3 == 0);
                let Some(w0) = w0 else {
                    // a queue that was not ready needs no write, if the transport looked
                    if pre.regs.ready == 0 && tr.iter().any(|x| !x.0 && x.1 == 0x44 && x.3 == 0) && !tr.iter().any(|x| x.0 && x.1 != 0x30) {
                        return Ok(());
                    }
                    return Err("QueueReady = 0 never written".into());
                };
                let r0 = tr[w0..].iter().position(|x| !x.0 && x.1 == 0x44 && x.3 == 0);
                let Some(r0) = r0 else {
                    return Err("queue_unset returned without reading QueueReady back as 0 (the device delays the transition)".into());
                };
                // nothing else may be touched between the write and the successful read-back
                for x in &tr[w0 + 1..w0 + r0] {
                    if x.1 != 0x44 {
                        return Err(format!("register {:#05x} touched while waiting for QueueReady to read 0", x.1));
                    }
                }
            }
        }
        TOp::QueueUsed(q) => {
            first_sel(*q)?;
            let reg = if legacy { 0x40 } else { 0x44 };
            let val = if legacy { pre.regs.pfn } else { pre.regs.ready } as u64;
            exact(&[(true, 0x30, *q as u64), (false, reg, val)])?;
            if *res != Res::Bool(val != 0) {
                return Err(format!("queue_used = {:?} with register value {}", res, val));
            }
        }
        TOp::AckInt(_) => {
            if pre.isr != 0 {
                exact(&[(false, 0x60, pre.isr as u64), (true, 0x64, pre.isr as u64)])?;
            } else {
                exact(&[(false, 0x60, 0)])?;
            }
            if *res != Res::U64((pre.isr & 3) as u64) {
                return Err(format!("ack_interrupt() = {:?} with InterruptStatus = {:#x}", res, pre.isr));
            }
        }
        TOp::Gen => {
            if legacy {
                // legacy devices have no ConfigGeneration register
                exact(&[])?;
            } else {
                exact(&[(false, 0xfc, pre.gen as u64)])?;
                if *res != Res::U64(pre.gen as u64) {
                    return Err(format!("read_config_generation() = {:?}, register = {}", res, pre.gen));
                }
            }
        }
        TOp::CfgRead32(o) => {
            let off = *o as usize * 4;
            if off + 4 <= c.cfg_len as usize {
                let v = u32::from_le_bytes(pre.cfg[off..off + 4].try_into().unwrap());
                exact(&[(false, 0x100 + off as u64, v as u64)])?;
                if *res != Res::Cfg(Ok(v)) {
                    return Err(format!("config read at {} = {:?}, device holds {:#x}", off, res, v));
                }
            } else {
                exact(&[])?;
                if *res != Res::Cfg(Err("ConfigSpaceTooSmall".into())) {
                    return Err(format!("config read at {} beyond a {}-byte window returned {:?}", off, c.cfg_len, res));
                }
            }
        }
        TOp::CfgWrite32(o, v) => {
            let off = *o as usize * 4;
            if off + 4 <= c.cfg_len as usize {
                exact(&[(true, 0x100 + off as u64, *v as u64)])?;
            } else {
                exact(&[])?;
                if *res != Res::Cfg(Err("ConfigSpaceTooSmall".into())) {
                    return Err(format!("config write at {} beyond a {}-byte window returned {:?}", off, c.cfg_len, res));
                }
            }
        }
    }
    let _ = post.4;
    Ok(())
}

fn setup(c: &TCase) {
    world::reset();
    let size = 0x100 + c.cfg_len as u64;
    mmio_dev::install(c.version, c.dtype, size);
    with(|w| {
        w.dev.offered = c.offered;
        w.dev.default_max = c.max;
        w.dev.config = (0..c.cfg_len as usize).map(|i| (i as u8).wrapping_mul(37) ^ 0xa5).collect();
        w.dev.gen = c.offered as u32 ^ 0x1234;
        w.mmio.as_mut().unwrap().ready_delay = c.ready_delay as u32;
    });
}

fn pre_state(op: &TOp) -> Pre {
    with(|w| {
        if let TOp::AckInt(v) = op {
            w.dev.isr = *v;
        }
        let q = match op {
            TOp::MaxQ(q) | TOp::QueueUsed(q) | TOp::QueueUnset(q) => *q,
            TOp::QueueSet { q, .. } => *q,
            _ => 0,
        };
        Pre {
            isr: w.dev.isr,
            status: w.dev.status,
            offered: w.dev.offered,
            gen: w.dev.gen,
            max_of: w.dev.queue(q).max,
            regs: w.mmio.as_ref().unwrap().q.get(&(q as u32)).cloned().unwrap_or_default(),
            cfg: w.dev.config.clone(),
        }
    })
}

type Transcript = Vec<(Vec<(bool, u64, u8, u64)>, Res)>;

fn run_on<T: Transport>(c: &TCase, mk: impl FnOnce(MmioTransport<'static>) -> T, oracle: bool) -> Result<Transcript, String> {
    setup(c);
    let size = 0x100 + c.cfg_len as usize;
    let t = match guard(|| mmio_dev::transport(size)) {
        Caught::Ok(Ok(t)) => t,
        Caught::Ok(Err(e)) => return Err(format!("probe of a well-formed version {} device failed: {:?}", c.version, e)),
        Caught::Panic(p) => return Err(format!("probe: {}", p.render())),
        Caught::Escape(e) => return Err(format!("{:?}", e)),
    };
    let probe_tr = rel(&with(|w| w.bus.take_trace()));
    if probe_tr.iter().any(|a| a.0) {
        return Err(format!("probing wrote to the device: {:x?}", probe_tr));
    }
    let mut t = mk(t);
    let mut out: Transcript = Vec::new();
    for (i, op) in c.ops.iter().enumerate() {
        let pre = pre_state(op);
        let res = match guard(|| apply(&mut t, op, c.version)) {
            Caught::Ok(r) => r,
            Caught::Panic(p) => Res::Panic(p.render()),
            Caught::Escape(e) => return Err(format!("{:?}", e)),
        };
        let tr = rel(&with(|w| w.bus.take_trace()));
        if let Some(f) = world::first_fault() {
            return Err(format!("op #{} {:?}: {}", i, op, f.msg));
        }
        if let Res::Panic(m) = &res {
            // A legacy queue address whose page frame number does not fit QueuePFN cannot be
            // programmed: refusing by panic is fine as long as the device was not touched.
            if c.version == 1 && matches!(op, TOp::QueueSet { high: true, .. }) {
                if tr.iter().any(|a| a.0) {
                    return Err(format!("op #{} {:?} panicked ({}) after writing to the device: {:x?}", i, op, m, tr));
                }
                out.push((tr, res));
                continue;
            }
            return Err(format!("op #{} {:?} panicked: {}", i, op, m));
        }
        if oracle {
            check_op(c, op, &tr, &res, &pre).map_err(|m| format!("op #{} {:?} on a version {} device: {}", i, op, c.version, m))?;
        }
        out.push((tr, res));
    }
    // drop = reset
    match guard(move || drop(t)) {
        Caught::Ok(()) => {}
        Caught::Panic(p) => return Err(format!("drop: {}", p.render())),
        Caught::Escape(e) => return Err(format!("{:?}", e)),
    }
    let tr = rel(&with(|w| w.bus.take_trace()));
    if oracle {
        let got: Vec<(bool, u64, u64)> = tr.iter().map(|a| (a.0, a.1, a.3)).collect();
        // reset = write 0 to Status; reading Status back afterwards is allowed, nothing else is
        let writes: Vec<(u64, u64)> = got.iter().filter(|a| a.0).map(|a| (a.1, a.2)).collect();
        if writes != vec![(0x70, 0)] || got.iter().any(|a| a.1 != 0x70) || !got.first().map_or(false, |a| a.0) {
            return Err(format!("dropping the transport must reset the device (write 0 to Status), trace {:x?}", got));
        }
    }
    out.push((tr, Res::None));
    if let Some(f) = world::first_fault() {
        return Err(f.msg);
    }
    Ok(out)
}

pub fn check_ops(c: &TCase, st: &mut Stats) -> Result<(), String> {
    let direct = run_on(c, |t| t, true)?;
    let wrapped = run_on(c, SomeTransport::Mmio, false)?;
    if direct != wrapped {
        let i = direct.iter().zip(wrapped.iter()).position(|(a, b)| a != b).unwrap_or(0);
        return Err(format!(
            "SomeTransport::Mmio differs from the direct transport at op #{}: {:x?} vs {:x?}",
            i,
            wrapped.get(i),
            direct.get(i)
        ));
    }
    let mut queues = std::collections::BTreeSet::new();
    let mut hi_lo = false;
    let mut sig = Sig::new();
    sig.add(c.version as u64);
    for op in &c.ops {
        match op {
            TOp::QueueSet { q, d, .. } => {
                queues.insert(*q);
                if (*d >> 32) as u32 != *d as u32 {
                    hi_lo = true;
                }
                sig.add(1).add(*q as u64);
            }
            TOp::QueueUnset(q) => {
                queues.insert(*q);
                sig.add(2).add(*q as u64);
            }
            TOp::QueueUsed(q) | TOp::MaxQ(q) | TOp::Notify(q) => {
                queues.insert(*q);
                sig.add(3).add(*q as u64);
            }
            TOp::AckInt(v) => {
                sig.add(4).add(*v as u64);
            }
            TOp::Gen => {
                sig.add(5);
            }
            other => {
                sig.add(6 + matches!(other, TOp::WriteFeat(_)) as u64);
            }
        }
    }
    if c.version == 1 {
        st.class("legacy_device");
    } else {
        st.class("modern_device");
    }
    if queues.len() >= 2 && hi_lo {
        st.nontrivial(sig.get(), || json!(c));
    }
    Ok(())
}

// ---------------------------------------------------------------------------------------------
// probing

#[derive(Clone, Debug, Serialize, Deserialize)]
pub struct Probe {
    pub magic: u32,
    pub version: u32,
    pub device_id: u32,
    pub size: u32,
}

fn known_id(id: u32) -> bool {
    (1..=13).contains(&id) || (16..=25).contains(&id)
}

pub fn check_probe(p: &Probe, st: &mut Stats) -> Result<(), String> {
    world::reset();
    mmio_dev::install(p.version, p.device_id, p.size as u64);
    with(|w| w.mmio.as_mut().unwrap().magic = p.magic);
    let res = match guard(|| mmio_dev::transport(p.size as usize)) {
        Caught::Ok(r) => r,
        Caught::Panic(pn) => return Err(format!("probe panicked: {}", pn.render())),
        Caught::Escape(e) => return Err(format!("{:?}", e)),
    };
    let tr = rel(&with(|w| w.bus.take_trace()));
    let writes = with(|w| w.mmio.as_ref().unwrap().writes);
    let c_magic = p.magic == MAGIC;
    let c_ver = p.version == 1 || p.version == 2;
    let c_id = known_id(p.device_id);
    let c_size = p.size >= 0x100;
    let fails = [!c_magic, !c_ver, !c_id, !c_size].iter().filter(|x| **x).count();
    let accepted = res.is_ok();
    if accepted != (fails == 0) {
        return Err(format!(
            "probe of magic {:#x} version {} device id {} region size {:#x}: {} (conditions: magic {}, version {}, id {}, size {})",
            p.magic,
            p.version,
            p.device_id,
            p.size,
            if accepted { "accepted" } else { "rejected" },
            c_magic,
            c_ver,
            c_id,
            c_size
        ));
    }
    if fails == 1 {
        let ok = match &res {
            Err(MmioError::BadMagic(m)) => !c_magic && *m == p.magic,
            Err(MmioError::UnsupportedVersion(v)) => !c_ver && *v == p.version,
            Err(MmioError::InvalidDeviceID(_)) => !c_id,
            Err(MmioError::MmioRegionTooSmall) => !c_size,
            _ => false,
        };
        if !ok {
            return Err(format!("probe with exactly one defect returned the wrong error {:?} for {:?}", res.as_ref().err(), p));
        }
    }
    if writes != 0 || tr.iter().any(|a| a.0) {
        return Err(format!("probing wrote to the device: {:x?}", tr));
    }
    for a in &tr {
        if a.1 + a.2 as u64 > p.size as u64 {
            return Err(format!("probe accessed offset {:#x} beyond the {}-byte region", a.1, p.size));
        }
    }
    if let Some(f) = world::first_fault() {
        return Err(f.msg);
    }
    let t = res.ok();
    let _ = guard(move || drop(t));
    let mut sig = Sig::new();
    sig.add(0x9707).add(c_magic as u64).add(c_ver as u64).add(p.version as u64).add(c_id as u64).add(p.device_id.min(40) as u64).add((p.size / 16).min(40) as u64);
    st.class(if accepted { "probe_accepted" } else { "probe_rejected" });
    st.nontrivial(sig.get(), || json!(p));
    Ok(())
}

// ---------------------------------------------------------------------------------------------

fn qidx() -> impl Strategy<Value = u16> {
    prop_oneof![6 => 0u16..4, 1 => any::<u16>(), 1 => Just(65535u16)]
}

fn addr() -> impl Strategy<Value = u64> {
    prop_oneof![
        3 => any::<u64>(),
        1 => (any::<u32>(), any::<u32>()).prop_map(|(h, l)| (h as u64) << 32 | l as u64),
        1 => any::<u32>().prop_map(|l| l as u64),
        1 => any::<u32>().prop_map(|h| (h as u64) << 32),
    ]
}

fn top() -> impl Strategy<Value = TOp> {
    prop_oneof![
        1 => Just(TOp::DevType),
        2 => Just(TOp::ReadFeat),
        2 => any::<u64>().prop_map(TOp::WriteFeat),
        1 => any::<u64>().prop_map(TOp::BeginInit),
        2 => qidx().prop_map(TOp::MaxQ),
        3 => qidx().prop_map(TOp::Notify),
        1 => Just(TOp::GetStatus),
        2 => prop_oneof![Just(1u32), Just(3), Just(11), Just(15), Just(0), any::<u32>()].prop_map(TOp::SetStatus),
        1 => Just(TOp::LegacyLayout),
        6 => (qidx(), 0u8..16, prop_oneof![(0u32..16).prop_map(|l| 1 << l), any::<u32>()], addr(), addr(), addr(), prop::bool::weighted(0.1))
            .prop_map(|(q, size_log2, size, d, a, u, high)| TOp::QueueSet { q, size_log2, size, d, a, u, high }),
        3 => qidx().prop_map(TOp::QueueUnset),
        3 => qidx().prop_map(TOp::QueueUsed),
        2 => prop_oneof![0u32..=3, any::<u32>()].prop_map(TOp::AckInt),
        1 => Just(TOp::Gen),
        1 => (0u16..80).prop_map(TOp::CfgRead32),
        1 => ((0u16..80), any::<u32>()).prop_map(|(o, v)| TOp::CfgWrite32(o, v)),
    ]
}

fn case_strategy() -> impl Strategy<Value = TCase> {
    (
        1u32..=2,
        prop_oneof![Just(1u32), Just(2), Just(3), Just(4), Just(9), Just(16), Just(18), Just(19), Just(25)],
        any::<u64>(),
        prop_oneof![Just(0u32), Just(256), Just(32768), any::<u32>()],
        0u8..5,
        prop_oneof![Just(0u16), 1u16..64, Just(256u16)],
        prop::collection::vec(top(), 0..40),
    )
        .prop_map(|(version, dtype, offered, max, ready_delay, cfg_len, mut ops)| {
            if version == 1 {
                // begin_init always programs the guest page size first on legacy devices
                ops.insert(0, TOp::GuestPage(4096));
                ops.retain(|o| !matches!(o, TOp::GuestPage(v) if *v != 4096));
            }
            TCase { version, dtype, offered, max, ready_delay, cfg_len: cfg_len & !3, ops }
        })
}

fn probe_strategy() -> impl Strategy<Value = Probe> {
    (
        prop_oneof![4 => Just(MAGIC), 1 => any::<u32>(), 1 => Just(MAGIC ^ 1), 1 => Just(MAGIC.swap_bytes())],
        prop_oneof![3 => 1u32..=2, 2 => 0u32..=3, 1 => any::<u32>()],
        prop_oneof![4 => 0u32..=30, 1 => any::<u32>()],
        prop_oneof![3 => 0u32..=0x400, 1 => Just(0x100u32), 1 => Just(0xffu32), 1 => Just(0x200u32)],
    )
        .prop_map(|(magic, version, device_id, size)| Probe { magic, version, device_id, size })
}

pub fn replay(engine: &str, case: &serde_json::Value) -> Result<(), String> {
    let mut st = Stats::default();
    match engine {
        "probe" => check_probe(&serde_json::from_value(case.clone()).map_err(|e| e.to_string())?, &mut st),
        _ => check_ops(&serde_json::from_value(case.clone()).map_err(|e| e.to_string())?, &mut st),
    }
}

pub fn run(ctx: &Ctx) -> Report {
    let mut stats = Stats::default();
    let (st, mut failure) = run_proptest(ctx, "ops", 101, ctx.n(400_000, 18_000_000), case_strategy, |c: &TCase, st| check_ops(c, st));
    stats.merge(st);
    if failure.is_none() {
        let (st, f) = run_proptest(ctx, "probe", 102, ctx.n(300_000, 12_000_000), probe_strategy, |p: &Probe, st| check_probe(p, st));
        stats.merge(st);
        failure = f;
    }
    Report {
        stats,
        failure,
        info: PartInfo {
            level: "exploration",
            rule: "proptest sequences (<=40) of every Transport operation with generated arguments (queue index incl. 65535, sizes, 64-bit address triples with independent high/low words, legacy triples whose page frame number does not fit QueuePFN (must be refused without touching the device), feature words, status values, interrupt status, config accesses) on emulated legacy and modern virtio-mmio devices behind safe-mmio's custom backend; per operation the ordered register trace is checked against the access script / constraints derived from VirtIO 1.2 4.2.2-4.2.4 and the device model's resulting state; the same sequence through SomeTransport::Mmio must give an identical trace; plus generated probe headers (magic, version, device id, region size). Non-trivial = sequence touching >=2 queues with a queue address whose high and low words differ, or any probe case; distinct = (version, op kinds and queue indices) / probe condition classes.",
            assumptions: vec!["all MMIO of the crate goes through safe-mmio (an access bypassing it would fault: the emulated region has no memory behind it)".into()],
            exhaustive: false,
            extra: json!({}),
        },
    }
}
