//! C11: the PCI transport only uses capability windows that lie inside allocated memory BARs,
//! and every later operation stays inside them with the standard layout.

use crate::bus::Access;
use crate::hal::{HalEv, LHal};
use crate::pci_dev::{self, BarFront, ModelCam, PciBus, PciFn, VpLayout, VpModel, Win, CAM_BASE};
use crate::props::c12::{program, Bar, Expect};
use crate::runner::{guard, known_open, load_known, run_proptest, Caught, Ctx, PartInfo, Report, Sig, Stats};
use crate::world::{self, with};
use proptest::prelude::*;
use serde::{Deserialize, Serialize};
use serde_json::json;
use virtio_drivers::transport::pci::bus::{BarInfo, Cam, DeviceFunction, MmioCam, PciRoot};
use virtio_drivers::transport::pci::{PciTransport, VirtioPciError};
use virtio_drivers::transport::{DeviceStatus, SomeTransport, Transport};

pub const KEY_D2: &str = "pci-cap-offset-plus-length-overflow";
pub const KEY_D4: &str = "pci-cap-bar-index-above-5";
pub const KEY_D4B: &str = "pci-cap-bar-names-upper-half-of-64bit-bar";

#[derive(Clone, Debug, Serialize, Deserialize, PartialEq)]
pub struct CapGen {
    pub id: u8,
    pub cap_len: u8,
    pub cfg_type: u8,
    pub bar: u8,
    pub offset: u32,
    pub length: u32,
    pub multiplier: u32,
}

#[derive(Clone, Debug, Serialize, Deserialize, PartialEq)]
pub enum POp {
    ReadFeat,
    WriteFeat(u64),
    MaxQ(u16),
    Notify(u16),
    GetStatus,
    SetStatus(u8),
    QueueSet { q: u16, size: u16, d: u64, a: u64, u: u64 },
    QueueUsed(u16),
    AckInt(u8),
    Gen,
    CfgRead32(u16),
}

#[derive(Clone, Debug, Serialize, Deserialize)]
pub struct PCase {
    pub vendor: u16,
    pub device: u16,
    pub cap_bit: bool,
    /// capabilities in list order; each is placed in its own 20-byte slot `slot[i]`
    pub caps: Vec<CapGen>,
    pub slots: Vec<u8>,
    pub bars: Vec<Bar>,
    pub command: u16,
    pub mmio_offset: u64,
    pub use_cam: u8,
    pub reset_delay: u8,
    pub notify_stride: u16,
    pub ops: Vec<POp>,
}

#[derive(Clone, Debug, PartialEq)]
struct Choice {
    common: Option<CapGen>,
    notify: Option<CapGen>,
    isr: Option<CapGen>,
    device: Option<CapGen>,
}

/// Independent re-parser of the capability list (VirtIO 1.2 §4.1.4). `skip_bad_bar`: ignore
/// capabilities whose bar field is reserved (> 5), as the specification tells drivers to.
fn reparse(regs: &[u32; 64], status: u16, skip_bad_bar: bool) -> Choice {
    let mut ch = Choice { common: None, notify: None, isr: None, device: None };
    if status & 0x10 == 0 {
        return ch;
    }
    let mut p = (regs[0x34 / 4] & 0xfc) as usize;
    let mut guard = 0;
    while p >= 0x40 && guard < 64 {
        guard += 1;
        let h = regs[p / 4];
        let (id, next, cap_len, cfg_type) = (h as u8, (h >> 8) as u8, (h >> 16) as u8, (h >> 24) as u8);
        if id == 0x09 && cap_len >= 16 && p + 16 <= 256 {
            let c = CapGen {
                id,
                cap_len,
                cfg_type,
                bar: regs[p / 4 + 1] as u8,
                offset: regs[p / 4 + 2],
                length: regs[p / 4 + 3],
                multiplier: if cap_len >= 20 && p + 20 <= 256 { regs[p / 4 + 4] } else { 0 },
            };
            let ok_bar = !skip_bad_bar || c.bar <= 5;
            if ok_bar {
                match cfg_type {
                    1 if ch.common.is_none() => ch.common = Some(c),
                    2 if ch.notify.is_none() && cap_len >= 20 => ch.notify = Some(c),
                    3 if ch.isr.is_none() => ch.isr = Some(c),
                    4 if ch.device.is_none() => ch.device = Some(c),
                    _ => {}
                }
            }
        }
        if next == 0 || next < 0x40 || next & 3 != 0 {
            break;
        }
        p = next as usize;
    }
    ch
}

fn virtio_type(device: u16) -> Option<u32> {
    match device {
        0x1000 => Some(1),
        0x1001 => Some(2),
        0x1002 => Some(5),
        0x1003 => Some(3),
        0x1004 => Some(8),
        0x1005 => Some(4),
        0x1009 => Some(9),
        d if d >= 0x1040 => {
            let t = (d - 0x1040) as u32;
            if (1..=13).contains(&t) || (16..=25).contains(&t) {
                Some(t)
            } else {
                None
            }
        }
        _ => None,
    }
}

/// (address, size) of the memory BAR starting at slot `bar`, if there is one and it is allocated.
fn mem_bar(exp: &[Expect], bar: u8) -> Result<(u64, u64), &'static str> {
    if bar > 5 {
        return Err("bar index above 5 (reserved)");
    }
    match &exp[bar as usize] {
        Expect::Info(BarInfo::Memory { address, size, .. }) => {
            if *address == 0 {
                Err("BAR not allocated (address 0)")
            } else {
                Ok((*address, *size))
            }
        }
        Expect::Info(BarInfo::IO { .. }) => Err("I/O BAR"),
        Expect::NoneBar => Err("BAR not implemented"),
        Expect::Invalid => Err("invalid BAR"),
        Expect::Upper => Err("upper half of a 64-bit BAR, not a BAR"),
    }
}

/// Validate one chosen capability against the BARs; returns the physical window.
fn window(exp: &[Expect], c: &CapGen, min_len: u64) -> Result<(u64, u64), String> {
    let (addr, size) = mem_bar(exp, c.bar).map_err(|e| format!("capability type {} names bar {}: {}", c.cfg_type, c.bar, e))?;
    if c.offset as u128 + c.length as u128 > size as u128 {
        return Err(format!("capability type {}: offset {:#x} + length {:#x} exceeds the {:#x}-byte BAR", c.cfg_type, c.offset, c.length, size));
    }
    if (c.length as u64) < min_len {
        return Err(format!("capability type {}: length {} shorter than its use ({})", c.cfg_type, c.length, min_len));
    }
    Ok((addr + c.offset as u64, c.length as u64))
}

fn rel(tr: &[Access], base: u64) -> Vec<(bool, u64, u8, u64)> {
    tr.iter().map(|a| (a.write, a.addr.wrapping_sub(base), a.width, a.val)).collect()
}

pub struct Known {
    pub d2: bool,
    pub d4: bool,
    pub d4b: bool,
}

#[derive(Clone, Debug, PartialEq)]
enum Res {
    None,
    U64(u64),
    Bool(bool),
    Cfg(Result<u32, String>),
    Panic(String),
}

fn apply<T: Transport>(t: &mut T, op: &POp) -> Res {
    match op {
        POp::ReadFeat => Res::U64(t.read_device_features()),
        POp::WriteFeat(v) => {
            t.write_driver_features(*v);
            Res::None
        }
        POp::MaxQ(q) => Res::U64(t.max_queue_size(*q) as u64),
        POp::Notify(q) => {
            t.notify(*q);
            Res::None
        }
        POp::GetStatus => Res::U64(t.get_status().bits() as u64),
        POp::SetStatus(v) => {
            t.set_status(DeviceStatus::from_bits_retain(*v as u32));
            Res::None
        }
        POp::QueueSet { q, size, d, a, u } => {
            t.queue_set(*q, *size as u32, *d, *a, *u);
            Res::None
        }
        POp::QueueUsed(q) => Res::Bool(t.queue_used(*q)),
        POp::AckInt(_) => Res::U64(t.ack_interrupt().bits() as u64),
        POp::Gen => Res::U64(t.read_config_generation() as u64),
        POp::CfgRead32(o) => Res::Cfg(t.read_config_space::<u32>(*o as usize * 4).map_err(|e| format!("{:?}", e))),
    }
}

struct Built {
    exp: Vec<Expect>,
    regs: [u32; 64],
    status: u16,
}

fn build(c: &PCase) -> Built {
    world::reset();
    let mut f = PciFn::new(c.vendor, c.device);
    let exp = program(&mut f, &c.bars);
    f.command = c.command & pci_dev::CMD_WRITABLE;
    f.status = if c.cap_bit { 0x10 } else { 0 };
    // lay the capabilities out in their slots, linked in list order
    let n = c.caps.len().min(c.slots.len());
    let at = |i: usize| 0x40 + 20 * (c.slots[i] as usize % 9);
    for i in 0..n {
        let g = &c.caps[i];
        let next = if i + 1 < n { at(i + 1) as u8 } else { 0 };
        let r = at(i) / 4;
        f.regs[r] = g.id as u32 | (next as u32) << 8 | (g.cap_len as u32) << 16 | (g.cfg_type as u32) << 24;
        f.regs[r + 1] = g.bar as u32 | 0x00ab_cd00 & 0xffff_ff00;
        f.regs[r + 2] = g.offset;
        f.regs[r + 3] = g.length;
        f.regs[r + 4] = g.multiplier;
    }
    f.regs[0x34 / 4] = if n > 0 { at(0) as u32 } else { 0 };
    let regs = f.regs;
    let status = f.status;
    with(|w| {
        let mut bus = PciBus::new();
        bus.fns.insert((0, 5, 0), f);
        w.pci = Some(bus);
        w.hal.mmio_offset = c.mmio_offset;
        w.dev.offered = 0x1_3000_0003;
        w.dev.default_max = 256;
        w.dev.config = (0..64u8).map(|i| i.wrapping_mul(7) ^ 0x55).collect();
        w.dev.gen = 7;
    });
    Built { exp, regs, status }
}

const DF: DeviceFunction = DeviceFunction { bus: 0, device: 5, function: 0 };

fn construct(c: &PCase) -> Caught<Result<PciTransport, VirtioPciError>> {
    match c.use_cam % 3 {
        0 => {
            let mut root = PciRoot::new(ModelCam);
            guard(|| PciTransport::new::<LHal, _>(&mut root, DF))
        }
        k => {
            let cam = if k == 1 { Cam::MmioCam } else { Cam::Ecam };
            pci_dev::install_cam(cam);
            let mut root = PciRoot::new(unsafe { MmioCam::new(CAM_BASE as *mut u8, cam) });
            guard(|| PciTransport::new::<LHal, _>(&mut root, DF))
        }
    }
}

/// The same `PciRoot` used twice for one function, with the memory BARs moved in between (as
/// firmware or other code of the OS may do through plain configuration writes): the second
/// construction must take its windows from the BARs as they are *now*.
fn check_root_reuse(c: &PCase, st: &mut Stats) -> Result<(), String> {
    let _b = build(c);
    let mut root = PciRoot::new(ModelCam);
    let log0 = with(|w| w.hal.log.len());
    let first = match guard(|| PciTransport::new::<LHal, _>(&mut root, DF)) {
        Caught::Ok(Ok(t)) => t,
        _ => return Ok(()), // not constructible: judged by the main check
    };
    // no drop (a drop resets the device through MMIO that is not being served here)
    std::mem::forget(first);
    let req1: Vec<(u64, usize)> = with(|w| w.hal.log[log0..].iter().filter_map(|e| if let HalEv::PhysToVirt { paddr, size } = e { Some((*paddr, *size)) } else { None }).collect());
    // move every allocated memory BAR by its own size (the model's own description of the BARs
    // says which registers form a BAR)
    let mut moved: Vec<(u64, u64, u64)> = Vec::new(); // (old address, size, new address)
    with(|w| {
        let f = w.pci.as_mut().unwrap().fns.get_mut(&(0, 5, 0)).unwrap();
        for i in 0..6 {
            let Expect::Info(BarInfo::Memory { address_type, address, size, .. }) = &_b.exp[i] else { continue };
            let (addr, size) = (*address, *size);
            if addr == 0 || size == 0 {
                continue;
            }
            let is64 = matches!(address_type, virtio_drivers::transport::pci::bus::MemoryBarType::Width64);
            let limit = if is64 { u64::MAX } else { u32::MAX as u64 };
            let new = match addr.checked_add(size) {
                Some(n) if n.checked_add(size - 1).map(|e| e <= limit).unwrap_or(false) => n,
                _ if addr > size => addr - size,
                _ => continue,
            };
            // keep clear of the other BARs
            let clash = (0..6).any(|k| {
                k != i && matches!(&_b.exp[k], Expect::Info(BarInfo::Memory { address: a, size: s_, .. }) if *a != 0 && new < a.saturating_add(*s_) && *a < new.saturating_add(size))
            });
            if clash {
                continue;
            }
            let lo = f.regs[4 + i];
            f.regs[4 + i] = (new as u32 & !0xf) | (lo & 0xf);
            f.bar_orig[i] = f.regs[4 + i];
            if is64 && i < 5 {
                f.regs[5 + i] = (new >> 32) as u32;
                f.bar_orig[i + 1] = f.regs[5 + i];
            }
            moved.push((addr, size, new));
        }
    });
    if moved.is_empty() {
        return Ok(());
    }
    let log1 = with(|w| w.hal.log.len());
    let second = guard(|| PciTransport::new::<LHal, _>(&mut root, DF));
    let req2: Vec<(u64, usize)> = with(|w| w.hal.log[log1..].iter().filter_map(|e| if let HalEv::PhysToVirt { paddr, size } = e { Some((*paddr, *size)) } else { None }).collect());
    match second {
        Caught::Ok(Ok(t)) => std::mem::forget(t),
        Caught::Ok(Err(_)) => return Ok(()), // (moved BARs may now overlap: judged by the main check)
        Caught::Panic(p) => return Err(format!("second PciTransport::new on the same root panicked: {}", p.render())),
        Caught::Escape(e) => return Err(format!("{:?}", e)),
    }
    if req1.len() != req2.len() {
        return Ok(());
    }
    for ((p1, s1), (p2, s2)) in req1.iter().zip(req2.iter()) {
        if let Some((old, _, new)) = moved.iter().find(|(old, size, _)| *p1 >= *old && *p1 - *old < *size) {
            let want = *p1 - *old + *new;
            if *p2 != want || s1 != s2 {
                return Err(format!(
                    "the BAR at {:#x} was moved to {:#x} between two constructions on the same PciRoot, but the second transport still maps its window at {:#x} (+{}) instead of {:#x}: outside the BAR as it is now",
                    old, new, p2, s2, want
                ));
            }
        }
    }
    st.class("second_construction_after_bar_move");
    Ok(())
}

/// Distinct cap slots are required so capabilities do not overlap.
fn slots_distinct(c: &PCase) -> bool {
    let n = c.caps.len().min(c.slots.len());
    let mut seen = [false; 9];
    for i in 0..n {
        let s = c.slots[i] as usize % 9;
        if seen[s] {
            return false;
        }
        seen[s] = true;
    }
    true
}

type Transcript = Vec<(Vec<(bool, u64, u8, u64)>, Res)>;

fn run_once(c: &PCase, wrap_some: bool, oracle: bool, st: &mut Stats, known: &Known) -> Result<Option<Transcript>, String> {
    let b = build(c);
    let strict = reparse(&b.regs, b.status, false);
    let lenient = reparse(&b.regs, b.status, true);
    let cfg_before = with(|w| {
        let f = &w.pci.as_ref().unwrap().fns[&(0, 5, 0)];
        (f.regs.to_vec(), f.command)
    });
    // known-finding signatures of the input
    let all_caps: Vec<&CapGen> = c.caps.iter().collect();
    let sig_d2 = all_caps.iter().any(|g| g.offset.checked_add(g.length).is_none());
    let sig_d4 = all_caps.iter().any(|g| g.bar > 5);
    let sig_d4b = all_caps.iter().any(|g| g.bar <= 5 && b.exp[g.bar as usize] == Expect::Upper);
    for (hit, open, key) in [(sig_d2, known.d2, KEY_D2), (sig_d4, known.d4, KEY_D4), (sig_d4b, known.d4b, KEY_D4B)] {
        if hit && open {
            st.known_excluded += 1;
            *st.known_hits.entry(key.to_string()).or_insert(0) += 1;
            return Ok(None);
        }
    }
    let res = match construct(c) {
        Caught::Ok(r) => r,
        Caught::Panic(p) => return Err(format!("PciTransport::new panicked: {}", p.render())),
        Caught::Escape(e) => return Err(format!("{:?}", e)),
    };
    let cfg_after = with(|w| {
        let f = &w.pci.as_ref().unwrap().fns[&(0, 5, 0)];
        (f.regs.to_vec(), f.command)
    });
    if oracle && cfg_after != cfg_before {
        let d: Vec<String> = (0..64).filter(|&r| cfg_after.0[r] != cfg_before.0[r]).map(|r| format!("reg {:#04x}: {:#010x} -> {:#010x}", r * 4, cfg_before.0[r], cfg_after.0[r])).collect();
        return Err(format!("constructing the transport changed configuration space: {} (command {:#06x} -> {:#06x})", d.join(", "), cfg_before.1, cfg_after.1));
    }
    if let Some(f) = world::first_fault() {
        return Err(format!("during construction: {}", f.msg));
    }
    let dtype = if c.vendor == 0x1af4 { virtio_type(c.device) } else { None };
    let requests: Vec<(u64, usize)> = with(|w| w.hal.log.iter().filter_map(|e| if let HalEv::PhysToVirt { paddr, size } = e { Some((*paddr, *size)) } else { None }).collect());

    // evaluate a candidate choice completely
    let eval = |ch: &Choice, common_align: u64| -> Result<(VpLayout, Vec<(u64, u64)>), String> {
        if dtype.is_none() {
            return Err("not a virtio device id".into());
        }
        let common = ch.common.as_ref().ok_or("no common configuration capability")?;
        let notify = ch.notify.as_ref().ok_or("no notification capability")?;
        let isr = ch.isr.as_ref().ok_or("no ISR capability")?;
        let mut wins = vec![window(&b.exp, common, 56)?];
        if notify.multiplier % 2 != 0 {
            return Err(format!("odd notify_off_multiplier {}", notify.multiplier));
        }
        wins.push(window(&b.exp, notify, 2)?);
        wins.push(window(&b.exp, isr, 1)?);
        if let Some(d) = &ch.device {
            wins.push(window(&b.exp, d, 4)?);
        }
        // alignment of the virtual addresses
        for (i, (p, _)) in wins.iter().enumerate() {
            let al = [common_align, 2, 1, 4][i];
            if p.wrapping_add(c.mmio_offset) % al != 0 {
                return Err(format!("window {} at virtual {:#x} not {}-aligned", i, p.wrapping_add(c.mmio_offset), al));
            }
        }
        let mk = |g: &CapGen| Win { bar: g.bar, offset: g.offset as u64, length: g.length as u64 };
        Ok((
            VpLayout { common: Some(mk(common)), notify: Some(mk(notify)), isr: Some(mk(isr)), device: ch.device.as_ref().map(mk), multiplier: notify.multiplier },
            wins,
        ))
    };
    // "Suitably aligned for its use": a common-configuration window aligned to 8 suits every
    // implementation and must be accepted; one aligned to 4 only suits an implementation that
    // makes no 64-bit access to it (4.1.3.1 allows two 32-bit halves), so accepting it is allowed
    // and every later 64-bit access through it is then a violation (checked per operation).
    let ev_strict = eval(&strict, 8);
    let ev_lenient = eval(&lenient, 8);
    let ev_strict4 = eval(&strict, 4);
    let ev_lenient4 = eval(&lenient, 4);
    let well_formed = ev_strict.is_ok() && strict == lenient && !b.exp.iter().any(|e| *e == Expect::Invalid);

    let t = match res {
        Err(e) => {
            if oracle && well_formed {
                return Err(format!("well-formed configuration space but PciTransport::new failed with {:?}", e));
            }
            st.class("construction_refused");
            return Ok(None);
        }
        Ok(t) => t,
    };
    st.class("construction_accepted");
    // which candidate did the transport follow?
    let req_p: Vec<u64> = requests.iter().map(|r| r.0).collect();
    let pick = [&ev_strict, &ev_lenient, &ev_strict4, &ev_lenient4].into_iter().find_map(|e| match e {
        Ok((lay, wins)) if wins.iter().map(|w| w.0).collect::<Vec<_>>() == req_p => Some((lay.clone(), wins.clone())),
        _ => None,
    });
    let Some((layout, wins)) = pick else {
        let _ = guard(move || std::mem::forget(t));
        return Err(format!(
            "PciTransport::new succeeded using windows at physical {:x?}, but the capability list yields {} (first capabilities: {:x?})",
            requests,
            match &ev_strict {
                Ok((_, w)) => format!("{:x?}", w),
                Err(e) => format!("no usable set of windows: {}", e),
            },
            strict
        ));
    };
    for ((p, l), (rp, rl)) in wins.iter().zip(requests.iter()) {
        if *rl as u64 > *l || rp != p {
            let _ = guard(move || std::mem::forget(t));
            return Err(format!("window request ({:#x}, {}) exceeds the capability's window ({:#x}, {})", rp, rl, p, l));
        }
    }
    // Structures that overlap each other describe no implementable device: the constructor's
    // answer was judged above, but there is nothing meaningful to operate.
    {
        let ws: Vec<Win> = [layout.common, layout.notify, layout.isr, layout.device].iter().flatten().cloned().collect();
        let mut overlap = false;
        for i in 0..ws.len() {
            for j in i + 1..ws.len() {
                let (a, b) = (&ws[i], &ws[j]);
                if a.bar == b.bar && a.offset < b.offset + b.length.max(1) && b.offset < a.offset + a.length.max(1) {
                    overlap = true;
                }
            }
        }
        if overlap {
            st.class("overlapping_structures_not_operated");
            let _ = guard(move || std::mem::forget(t));
            return Ok(None);
        }
    }
    // install the BAR contents according to the chosen layout
    with(|w| {
        let mut m = VpModel::new(layout.clone());
        m.reset_delay = c.reset_delay as u32;
        m.notify_stride = c.notify_stride;
        for (i, e) in b.exp.iter().enumerate() {
            if let Expect::Info(BarInfo::Memory { address, size, .. }) = e {
                if *address != 0 {
                    m.bars[i] = (*address, *size);
                    w.bus.map(address.wrapping_add(c.mmio_offset), *size, "bar", Box::new(BarFront { bar: i as u8 }));
                }
            }
        }
        w.vp = Some(m);
        w.dev.dtype = dtype.unwrap_or(0);
        w.dev.cfg_missing = layout.device.is_none();
        w.bus.trace.clear();
    });
    let common_virt = wins[0].0.wrapping_add(c.mmio_offset);
    let notify_virt = wins[1].0.wrapping_add(c.mmio_offset);
    let mut out: Transcript = Vec::new();
    let mut run_ops = |t: &mut dyn FnMut(&POp) -> Caught<Res>| -> Result<(), String> {
        for (i, op) in c.ops.iter().enumerate() {
            if let POp::AckInt(v) = op {
                with(|w| w.dev.isr = *v as u32);
            }
            let pre = with(|w| (w.dev.status, w.dev.isr, w.dev.gen, w.dev.offered, w.vp.as_ref().unwrap().q.clone()));
            let res = match t(op) {
                Caught::Ok(r) => r,
                Caught::Panic(p) => Res::Panic(p.render()),
                Caught::Escape(e) => return Err(format!("{:?}", e)),
            };
            let tr = with(|w| w.bus.take_trace());
            if let Some(f) = world::first_fault() {
                return Err(format!("op #{} {:?}: {}", i, op, f.msg));
            }
            if let Some(a) = tr.iter().find(|a| a.width == 8 && a.addr % 8 != 0) {
                return Err(format!("op #{} {:?}: 64-bit access at {:#x}, which is not 8-byte aligned (the common-configuration window is at {:#x})", i, op, a.addr, common_virt));
            }
            let trc = rel(&tr, common_virt);
            if oracle {
                check_op(c, op, &trc, &rel(&tr, notify_virt), &res, &pre, &layout).map_err(|m| format!("op #{} {:x?}: {}", i, op, m))?;
            }
            if matches!(res, Res::Panic(_)) {
                // a clean panic is allowed for notify beyond the window; stop here
                out.push((trc, res));
                break;
            }
            out.push((trc, res));
        }
        Ok(())
    };
    let drop_trace;
    if wrap_some {
        let mut s = SomeTransport::Pci(t);
        run_ops(&mut |op| guard(|| apply(&mut s, op)))?;
        let _ = guard(move || drop(s));
        drop_trace = rel(&with(|w| w.bus.take_trace()), common_virt);
    } else {
        let mut t = t;
        run_ops(&mut |op| guard(|| apply(&mut t, op)))?;
        with(|w| w.spins = 0);
        match guard(move || drop(t)) {
            Caught::Ok(()) => {}
            Caught::Panic(p) => return Err(format!("dropping the transport: {}", p.render())),
            Caught::Escape(e) => return Err(format!("{:?}", e)),
        }
        drop_trace = rel(&with(|w| w.bus.take_trace()), common_virt);
    }
    if oracle {
        // drop: write status 0, then poll until it reads 0
        match drop_trace.first() {
            Some((true, 20, 1, 0)) => {}
            other => return Err(format!("dropping the transport must first write 0 to device_status, got {:x?}", other)),
        }
        for a in &drop_trace[1..] {
            if a.0 || a.1 != 20 {
                return Err(format!("unexpected access {:x?} while waiting for the reset to complete", a));
            }
        }
        match drop_trace.last() {
            Some((false, 20, 1, 0)) => {}
            other => return Err(format!("drop returned before device_status read back as 0 (device delays the reset by {} reads): last access {:x?}", c.reset_delay, other)),
        }
        let lag = with(|w| w.vp.as_ref().map(|m| m.reset_lag).unwrap_or(0));
        if lag != 0 {
            return Err(format!("drop returned while the device was still resetting ({} more status reads needed)", lag));
        }
    }
    if let Some(f) = world::first_fault() {
        return Err(format!("during drop: {}", f.msg));
    }
    out.push((drop_trace, Res::None));
    Ok(Some(out))
}

#[allow(clippy::type_complexity)]
fn check_op(
    _c: &PCase,
    op: &POp,
    tr: &[(bool, u64, u8, u64)],
    trn: &[(bool, u64, u8, u64)],
    res: &Res,
    pre: &(u32, u32, u32, u64, std::collections::BTreeMap<u16, pci_dev::VpQueue>),
    layout: &VpLayout,
) -> Result<(), String> {
    let first_sel = |q: u16| -> Result<(), String> {
        match tr.first() {
            Some((true, 22, 2, v)) if *v == q as u64 => Ok(()),
            other => Err(format!("first access must write queue_select = {}, got {:x?}", q, other)),
        }
    };
    let post = with(|w| {
        let m = w.vp.as_ref().unwrap();
        (m.q.clone(), m.queue_select, w.dev.accepted, w.dev.status)
    });
    match op {
        POp::ReadFeat => {
            if *res != Res::U64(pre.3) {
                return Err(format!("read_device_features() = {:x?}, device offers {:#x}", res, pre.3));
            }
        }
        POp::WriteFeat(v) => {
            if post.2 != *v {
                return Err(format!("device sees driver features {:#x}, written {:#x}", post.2, v));
            }
        }
        POp::MaxQ(q) => {
            first_sel(*q)?;
            if !tr[1..].iter().all(|a| !a.0 && a.1 == 24) {
                return Err(format!("max_queue_size accesses {:x?}", tr));
            }
        }
        POp::Notify(q) => {
            if matches!(res, Res::Panic(_)) {
                // allowed only when the notify address lies outside the window
                let m_off = with(|w| w.vp.as_ref().unwrap().notify_off(*q)) as u64 * layout.multiplier as u64;
                let inside = m_off + 2 <= layout.notify.unwrap().length;
                if inside {
                    return Err(format!("notify({}) panicked although offset {:#x} is inside the notification window: {:?}", q, m_off, res));
                }
                return Ok(());
            }
            // either the queue is selected first (to read its notify offset) and one notification
            // is written, or - the offset being cached from queue_set - the common configuration
            // is not touched at all and one notification is written
            let writes: Vec<_> = tr.iter().filter(|a| a.0).collect();
            let untouched_common = !tr.iter().any(|a| a.1 < 56);
            if untouched_common {
                if writes.len() != 1 {
                    return Err(format!("notify without any common-configuration access must perform exactly one notification write, got {:x?} / notify-relative {:x?}", tr, trn));
                }
            } else {
                first_sel(*q)?;
                if writes.len() != 2 {
                    return Err(format!("notify must perform the queue_select write and exactly one notification write, got {:x?} / notify-relative {:x?}", tr, trn));
                }
            }
            let n = with(|w| w.dev.queue(*q).notifies);
            if n == 0 {
                return Err("device received no notification".into());
            }
        }
        POp::GetStatus => {
            // the device may still show the old status while a reset is in progress: the value
            // returned must be the one the register read returned
            let shown = tr.iter().filter(|a| !a.0 && a.1 == 20 && a.2 == 1).last().map(|a| a.3);
            match shown {
                Some(v) if tr.len() == 1 && *res == Res::U64(v & 0xcf) => {}
                _ => return Err(format!("get_status() = {:?} with accesses {:x?} (device_status {:#x})", res, tr, pre.0)),
            }
        }
        POp::SetStatus(v) => {
            // device_status is read/write: read-backs are the implementation's choice
            let w: Vec<_> = tr.iter().filter(|a| a.0).map(|a| (a.1, a.3)).collect();
            if w != vec![(20, *v as u64)] || tr.iter().any(|a| a.1 != 20) {
                return Err(format!("set_status accesses {:x?}", tr));
            }
        }
        POp::QueueSet { q, size, d, a, u } => {
            first_sel(*q)?;
            match tr.last() {
                Some((true, 28, 2, 1)) => {}
                other => return Err(format!("last access of queue_set must write queue_enable = 1, got {:x?}", other)),
            }
            if tr.iter().filter(|x| x.0 && x.1 == 28).count() != 1 {
                return Err("queue_enable written more than once".into());
            }
            // writes: the selector, the size, the three areas, the enable; reads of the selected
            // queue's fields (size, MSI-X vector, enable, notify offset, areas) are harmless
            for x in tr {
                let ok = if x.0 { [22u64, 24, 28, 32, 36, 40, 44, 48, 52].contains(&x.1) } else { (24..56).contains(&x.1) };
                if !ok {
                    return Err(format!("queue_set touched {:x?}", x));
                }
            }
            let st = post.0.get(q).cloned().unwrap_or_default();
            if st.size != *size || st.desc != *d || st.driver != *a || st.device != *u || st.enable != 1 {
                return Err(format!("device state after queue_set(size {}, {:#x}, {:#x}, {:#x}): {:x?}", size, d, a, u, st));
            }
        }
        POp::QueueUsed(q) => {
            first_sel(*q)?;
            let en = pre.4.get(q).map(|x| x.enable).unwrap_or(0);
            if *res != Res::Bool(en == 1) {
                return Err(format!("queue_used({}) = {:?}, queue_enable = {}", q, res, en));
            }
        }
        POp::AckInt(v) => {
            if *res != Res::U64(*v as u64) {
                return Err(format!("ack_interrupt() = {:?}, ISR = {:#x}", res, v));
            }
            if !tr.iter().all(|a| !a.0) {
                return Err("ack_interrupt wrote to the device".into());
            }
        }
        POp::Gen => {
            if *res != Res::U64((pre.2 & 0xff) as u64) {
                return Err(format!("read_config_generation() = {:?}, device has {}", res, pre.2 & 0xff));
            }
        }
        POp::CfgRead32(o) => {
            let off = *o as u64 * 4;
            match layout.device {
                None => {
                    if *res != Res::Cfg(Err("ConfigSpaceMissing".into())) {
                        return Err(format!("config read without a device-configuration capability returned {:?}", res));
                    }
                }
                Some(d) => {
                    let eff = d.length / 4 * 4;
                    if off + 4 <= eff {
                        if !matches!(res, Res::Cfg(Ok(_))) {
                            return Err(format!("config read at {} inside a {}-byte window returned {:?}", off, eff, res));
                        }
                    } else if *res != Res::Cfg(Err("ConfigSpaceTooSmall".into())) {
                        return Err(format!("config read at {} beyond a {}-byte window returned {:?}", off, eff, res));
                    }
                }
            }
        }
    }
    let _ = post.3;
    Ok(())
}

pub fn check(c: &PCase, st: &mut Stats, known: &Known) -> Result<(), String> {
    if !slots_distinct(c) {
        st.discarded += 1;
        return Ok(());
    }
    let direct = run_once(c, false, true, st, known)?;
    let Some(direct) = direct else { return Ok(()) };
    let mut scratch = Stats::default();
    let wrapped = run_once(c, true, false, &mut scratch, known)?;
    if let Some(wrapped) = wrapped {
        if wrapped != direct {
            let i = direct.iter().zip(wrapped.iter()).position(|(a, b)| a != b).unwrap_or(0);
            return Err(format!("SomeTransport::Pci differs from the direct transport at op #{}: {:x?} vs {:x?}", i, wrapped.get(i), direct.get(i)));
        }
    } else {
        return Err("SomeTransport run could not construct the transport although the direct run did".into());
    }
    check_root_reuse(c, st)?;
    // statistics
    let b = build(c);
    let mut types = [0u8; 6];
    let mut foreign_first = false;
    let mut seen_virtio = false;
    for g in &c.caps {
        if g.id == 0x09 {
            seen_virtio = true;
            if (1..=5).contains(&g.cfg_type) {
                types[g.cfg_type as usize] += 1;
            }
        } else if !seen_virtio {
            foreign_first = true;
        }
    }
    let dup = types.iter().any(|&t| t >= 2);
    let near_end = c.caps.iter().any(|g| {
        if g.bar > 5 {
            return false;
        }
        match &b.exp[g.bar as usize] {
            Expect::Info(BarInfo::Memory { size, .. }) => (g.offset as u64 + g.length as u64) + 64 >= *size && (g.offset as u64 + g.length as u64) <= *size,
            _ => false,
        }
    });
    if dup || foreign_first {
        st.class("duplicate_or_foreign_first_capability");
    }
    if near_end {
        st.class("window_within_64_bytes_of_bar_end");
    }
    if (dup || foreign_first) && near_end {
        let mut s = Sig::new();
        for g in &c.caps {
            s.add(g.id as u64).add(g.cfg_type as u64).add(g.bar as u64).add(g.cap_len as u64).add((g.offset as u64).min(1 << 20)).add((g.length as u64).min(1 << 20));
        }
        s.add(c.use_cam as u64 % 3).add(c.ops.len() as u64);
        st.nontrivial(s.get(), || json!(c));
    }
    Ok(())
}

// ---------------------------------------------------------------------------------------------
// generators

fn bar_strategy(slot: usize) -> impl Strategy<Value = Bar> {
    let base32 = ((slot as u32) + 1) << 28;
    let base64 = ((slot as u64) + 1) << 44;
    prop_oneof![
        2 => Just(Bar::None),
        1 => (2u8..16, any::<bool>()).prop_map(move |(size_log2, decode16)| Bar::Io { size_log2, decode16, addr: 0x1000 * (slot as u32 + 1) }),
        4 => (4u8..=27, any::<bool>(), prop::bool::weighted(0.85)).prop_map(move |(size_log2, prefetch, alloc)| Bar::Mem32 { size_log2, prefetch, below1m: false, addr: if alloc { base32 } else { 0 } }),
        4 => (4u8..=40, any::<bool>(), prop::bool::weighted(0.85), 0u64..16).prop_map(move |(size_log2, prefetch, alloc, hi)| Bar::Mem64 {
            size_log2,
            prefetch,
            addr: if alloc { base64 + (hi << 40 & !((1u64 << size_log2) - 1)) } else { 0 }
        }),
        // one huge BAR at most (slot 0), so that BAR address ranges never overlap
        1 => (48u8..=63, any::<bool>()).prop_map(move |(size_log2, prefetch)| if slot == 0 { Bar::Mem64 { size_log2, prefetch, addr: 1u64 << size_log2 } } else { Bar::None }),
    ]
}

fn u32_edge(size_hint: u64) -> impl Strategy<Value = u32> {
    prop_oneof![
        4 => Just(0u32),
        4 => (0u32..0x100).prop_map(|x| x * 4),
        3 => 0u32..0x4000,
        2 => (0u32..64).prop_map(move |d| (size_hint as u32).wrapping_sub(d)),
        2 => (0u32..64).prop_map(|d| 0x8000_0000u32.wrapping_add(d).wrapping_sub(32)),
        2 => (0u32..0x2000).prop_map(|d| 0xffff_ffffu32.wrapping_sub(d)),
        1 => any::<u32>(),
    ]
}

fn cap_strategy() -> impl Strategy<Value = CapGen> {
    (
        prop_oneof![8 => Just(0x09u8), 1 => Just(0x05u8), 1 => Just(0x11u8), 1 => any::<u8>()],
        prop_oneof![1 => 0u8..16, 2 => 16u8..20, 6 => Just(20u8), 1 => 21u8..=255],
        prop_oneof![10 => 1u8..=4, 1 => Just(5u8), 1 => any::<u8>()],
        prop_oneof![20 => 0u8..=5, 1 => 6u8..=60, 1 => 60u8..=255],
        (4u8..=20).prop_flat_map(|k| (u32_edge(1u64 << k), u32_edge(1u64 << k))),
        prop_oneof![3 => Just(0u32), 3 => Just(4u32), 2 => Just(2u32), 1 => Just(1u32), 1 => Just(3u32), 1 => any::<u32>()],
    )
        .prop_map(|(id, cap_len, cfg_type, bar, (offset, length), multiplier)| CapGen { id, cap_len, cfg_type, bar, offset, length, multiplier })
}

/// Parameters of a capability set that is made well-formed for the generated BAR set in
/// `case_strategy`, so that construction succeeds and the operation phase is reached often.
#[derive(Clone, Debug)]
struct Good {
    pick: u8,
    k: u32,
    dev: bool,
    mult: u32,
    at_end: bool,
    dup: bool,
    /// place the end of one structure exactly at BAR end + delta
    end_delta: Option<i8>,
}

fn good_params() -> impl Strategy<Value = Good> {
    (any::<u8>(), 0u32..4, prop::bool::weighted(0.7), prop_oneof![Just(0u32), Just(2), Just(4), Just(8)], any::<bool>(), prop::bool::weighted(0.3), prop::option::weighted(0.3, -2i8..=2))
        .prop_map(|(pick, k, dev, mult, at_end, dup, end_delta)| Good { pick, k, dev, mult, at_end, dup, end_delta })
}

fn good_caps(g: &Good, bars: &[Bar]) -> Option<Vec<CapGen>> {
    let mut f = PciFn::new(0, 0);
    let exp = program(&mut f, bars);
    let cands: Vec<(u8, u64)> = exp
        .iter()
        .enumerate()
        .filter_map(|(i, e)| match e {
            Expect::Info(BarInfo::Memory { address, size, .. }) if *address != 0 && *size >= 0x100 => Some((i as u8, *size)),
            _ => None,
        })
        .collect();
    if cands.is_empty() {
        return None;
    }
    let (bar, size) = cands[g.pick as usize % cands.len()];
    let base = if g.at_end { (size - 0xa0).min(0xffff_ff00) as u32 } else { (g.k * 0x40).min((size - 0xa0) as u32) & !7 };
    let mut v = vec![
        CapGen { id: 9, cap_len: 16, cfg_type: 1, bar, offset: base, length: 56, multiplier: 0 },
        CapGen { id: 9, cap_len: 20, cfg_type: 2, bar, offset: base + 0x40, length: 0x20, multiplier: g.mult },
        CapGen { id: 9, cap_len: 16, cfg_type: 3, bar, offset: base + 0x38, length: 1, multiplier: 0 },
    ];
    if g.dev {
        v.push(CapGen { id: 9, cap_len: 16, cfg_type: 4, bar, offset: base + 0x60, length: 0x20, multiplier: 0 });
    }
    if let Some(d) = g.end_delta {
        // one structure ends exactly at the end of the BAR (+/- a few bytes)
        let i = (g.k as usize) % v.len();
        let al = [8u64, 2, 1, 4][(v[i].cfg_type - 1) as usize];
        let off = (size as i128 - v[i].length as i128 + d as i128).max(0) as u64;
        if i != 0 || d % 8 == 0 {
            v[i].offset = (off & !(al - 1) | (off & (al - 1))) as u32;
        }
    }
    if g.dup {
        // a second, different capability of a type already present: must be ignored
        v.push(CapGen { id: 9, cap_len: 16, cfg_type: 1 + (g.k % 3) as u8, bar, offset: 0, length: 0x40, multiplier: 3 });
        v.insert(0, CapGen { id: 0x11, cap_len: 12, cfg_type: 1, bar: 0, offset: 0, length: 0, multiplier: 0 });
    }
    Some(v)
}

fn op_strategy() -> impl Strategy<Value = POp> {
    let q = || prop_oneof![6 => 0u16..4, 1 => any::<u16>()];
    prop_oneof![
        1 => Just(POp::ReadFeat),
        1 => any::<u64>().prop_map(POp::WriteFeat),
        2 => q().prop_map(POp::MaxQ),
        3 => q().prop_map(POp::Notify),
        1 => Just(POp::GetStatus),
        // only the status bits the specification defines: a device never shows reserved bits
        2 => prop_oneof![Just(1u8), Just(3), Just(11), Just(15), any::<u8>().prop_map(|v| v & 0xcf)].prop_map(POp::SetStatus),
        5 => (q(), any::<u16>(), any::<u64>(), any::<u64>(), any::<u64>()).prop_map(|(q, size, d, a, u)| POp::QueueSet { q, size, d, a, u }),
        2 => q().prop_map(POp::QueueUsed),
        1 => (0u8..4).prop_map(POp::AckInt),
        1 => Just(POp::Gen),
        1 => (0u16..20).prop_map(POp::CfgRead32),
    ]
}

pub fn case_strategy() -> impl Strategy<Value = PCase> {
    (
        prop_oneof![9 => Just(0x1af4u16), 1 => any::<u16>()],
        prop_oneof![6 => (1u16..=25).prop_map(|t| 0x1040 + t), 2 => 0x1000u16..=0x100a, 1 => any::<u16>()],
        prop::bool::weighted(0.95),
        (prop::option::weighted(0.6, good_params()), prop::collection::vec(cap_strategy(), 0..=9), any::<u8>()),
        Just((0u8..9).collect::<Vec<u8>>()).prop_shuffle(),
        (bar_strategy(0), bar_strategy(1), bar_strategy(2), bar_strategy(3), bar_strategy(4), bar_strategy(5)),
        any::<u16>(),
        prop_oneof![4 => Just(0u64), 3 => (1u64..0x1000).prop_map(|p| p << 12), 1 => Just(1u64), 1 => Just(2u64), 1 => Just(4u64), 1 => Just(0x1_0000_0008u64)],
        0u8..3,
        0u8..4,
        prop_oneof![3 => Just(1u16), 1 => Just(0u16), 1 => 0u16..64, 1 => any::<u16>()],
        prop::collection::vec(op_strategy(), 0..25),
    )
        .prop_map(|(vendor, device, cap_bit, (good, noise, at), slots, bars, command, mmio_offset, use_cam, reset_delay, notify_stride, ops)| {
            let bars = vec![bars.0, bars.1, bars.2, bars.3, bars.4, bars.5];
            let caps = match good.as_ref().and_then(|g| good_caps(g, &bars)) {
                Some(mut g) => {
                    // noise capabilities around the good ones (after them, so the first of each type stays good,
                    // or before them when they cannot be chosen)
                    for (i, e) in noise.into_iter().take(4).enumerate() {
                        let harmless = e.id != 9 || e.cap_len < 16 || !(1..=4).contains(&e.cfg_type);
                        let pos = if harmless { (at as usize + i * 3) % (g.len() + 1) } else { g.len() };
                        g.insert(pos, e);
                    }
                    g.truncate(9);
                    g
                }
                None => noise,
            };
            (vendor, device, cap_bit, caps, slots, bars, command, mmio_offset, use_cam, reset_delay, notify_stride, ops)
        })
        .prop_map(|(vendor, device, cap_bit, caps, slots, bars, command, mmio_offset, use_cam, reset_delay, notify_stride, ops)| PCase {
            vendor,
            device,
            cap_bit,
            caps,
            slots,
            bars,
            command,
            mmio_offset,
            use_cam,
            reset_delay,
            notify_stride,
            ops,
        })
}

pub fn replay(engine: &str, case: &serde_json::Value) -> Result<(), String> {
    if engine == "config-window" {
        return crate::props::c13::replay(engine, case);
    }
    let c: PCase = serde_json::from_value(case.clone()).map_err(|e| e.to_string())?;
    check(&c, &mut Stats::default(), &Known { d2: false, d4: false, d4b: false })
}

pub fn run(ctx: &Ctx) -> Report {
    let kn = load_known(&ctx.root);
    let known = Known { d2: known_open(&kn, "C11", KEY_D2), d4: known_open(&kn, "C11", KEY_D4), d4b: known_open(&kn, "C11", KEY_D4B) };
    // device-configuration accesses of every width at every offset touch only the device window
    // (grid shared with C13)
    let (mut stats, mut failure) = crate::runner::run_items(ctx, "config-window", crate::props::c13::pci_bounds_items(if ctx.quick() { 64 } else { 300 }), |it, st| {
        let r = crate::props::c13::run_item(it, st);
        if r.is_ok() {
            st.class("device_config_window_grid_cells");
        }
        r
    });
    if failure.is_none() {
        let (st, f) = run_proptest(ctx, "pci", 111, ctx.n(200_000, 20_000_000), case_strategy, |c: &PCase, st| check(c, st, &known));
        stats.merge(st);
        failure = f;
    }
    Report {
        stats,
        failure,
        info: PartInfo {
            level: "exploration",
            rule: "proptest over one function's configuration space: vendor/device ids, capability-list bit, acyclic capability lists (vendor capabilities of type 1..5 and unknown, cap_len classes <16/16..19/20/>20, foreign ids, duplicates, any order), bar field 0..255, offset/length from {0, small, size-len, around 2^31, around 2^32, sums that wrap}, multiplier {0,2,4,odd,random}; six BAR slots (unimplemented, I/O, 32-bit, 64-bit incl. sizes up to 2^63, unallocated); aligned and odd mmio_phys_to_virt offsets; served through ConfigurationAccess and MmioCam (CAM/ECAM); then a generated Transport op sequence against a register-level virtio-pci model. Oracle: independent capability re-parser + 128-bit window containment; construction never panics, leaves configuration space unchanged, succeeds on well-formed spaces, and when it succeeds uses exactly the re-parser's windows; all later accesses fall inside them with the standard layout (model faults otherwise); drop resets and polls; SomeTransport::Pci is trace-identical; a second construction on the same PciRoot after the memory BARs were moved by plain configuration writes takes its windows from the moved BARs. Device-configuration reads/writes of u8/u16/u32/[u8;6]/8- and 12-byte structs at every offset of windows of 0..64 (thorough: 300) bytes touch exactly the bytes inside the window or fail without an access. Non-trivial = space with >=2 capabilities of one type or a foreign capability before the virtio ones, and a window within 64 bytes of its BAR's end. distinct = capability tuple list + mechanism + op count.",
            assumptions: vec![
                "cyclic capability lists are not generated (any walker spins on them)".into(),
                "when the first capability of a type has a reserved bar value (>5) both refusing and skipping it (as the specification tells drivers to) are accepted".into(),
                "'well-formed' requires 8-byte alignment of the common configuration structure (the crate's CommonCfg has 64-bit fields)".into(),
            ],
            exhaustive: false,
            extra: json!({}),
        },
    }
}
