//! C12: PCI bus helpers — BAR sizing without side effects, unique config addressing,
//! enumeration and capability walking, against a reference PCI function model.

use crate::pci_dev::{self, ModelCam, PciBus, PciFn, CAM_BASE};
use crate::runner::{guard, known_open, load_known, run_items, run_proptest, Caught, Ctx, PartInfo, Report, Sig, Stats};
use crate::world::{self, with};
use proptest::prelude::*;
use serde::{Deserialize, Serialize};
use serde_json::json;
use virtio_drivers::transport::pci::bus::{BarInfo, Cam, ConfigurationAccess, DeviceFunction, HeaderType, MemoryBarType, MmioCam, PciRoot};

pub const KEY_D5: &str = "bar_info-64bit-bar-in-slot5-not-restored";
pub const KEY_D6: &str = "bar_info-io-bar-16bit-decode-size";

#[derive(Clone, Debug, Serialize, Deserialize, PartialEq)]
pub enum Bar {
    None,
    /// I/O BAR; `decode16`: upper 16 address bits hard-wired to zero
    Io { size_log2: u8, decode16: bool, addr: u32 },
    Mem32 { size_log2: u8, prefetch: bool, below1m: bool, addr: u32 },
    /// occupies this slot and the next
    Mem64 { size_log2: u8, prefetch: bool, addr: u64 },
    /// memory BAR with the reserved type encoding 0b11
    Reserved { size_log2: u8, addr: u32 },
}

#[derive(Clone, Debug, Serialize, Deserialize)]
pub struct BarCase {
    pub bars: Vec<Bar>,
    pub command: u16,
    pub use_cam: u8,
    pub df: (u8, u8, u8),
}

fn lowmask(k: u8) -> u32 {
    if k >= 32 {
        0
    } else {
        !((1u32 << k) - 1)
    }
}

/// Program the BAR registers of `f`; returns for each slot the expected `bar_info` answer.
#[derive(Clone, Debug, PartialEq)]
pub enum Expect {
    NoneBar,
    Info(BarInfo),
    Invalid,
    /// second half of a 64-bit BAR: not a BAR of its own
    Upper,
}

pub fn program(f: &mut PciFn, bars: &[Bar]) -> Vec<Expect> {
    let mut exp = vec![Expect::NoneBar; 6];
    let mut i = 0;
    let mut it = bars.iter();
    while i < 6 {
        let b = it.next().cloned().unwrap_or(Bar::None);
        match b {
            Bar::None => {
                f.set_bar_raw(i, 0, 0);
                i += 1;
            }
            Bar::Io { size_log2, decode16, addr } => {
                let k = size_log2.clamp(2, if decode16 { 15 } else { 31 });
                let mut mask = lowmask(k) & 0xffff_fffc;
                if decode16 {
                    mask &= 0x0000_ffff;
                }
                let a = addr & mask;
                f.set_bar_raw(i, a | 1, mask);
                exp[i] = Expect::Info(BarInfo::IO { address: a, size: 1u32 << k });
                i += 1;
            }
            Bar::Mem32 { size_log2, prefetch, below1m, addr } => {
                let k = size_log2.clamp(4, 31);
                let mask = lowmask(k) & 0xffff_fff0;
                let a = addr & mask;
                let ty = if below1m { 0b010 } else { 0 };
                f.set_bar_raw(i, a | ty | (prefetch as u32) << 3, mask);
                exp[i] = Expect::Info(BarInfo::Memory {
                    address_type: if below1m { MemoryBarType::Below1MiB } else { MemoryBarType::Width32 },
                    prefetchable: prefetch,
                    address: a as u64,
                    size: 1u64 << k,
                });
                i += 1;
            }
            Bar::Reserved { size_log2, addr } => {
                let k = size_log2.clamp(4, 31);
                let mask = lowmask(k) & 0xffff_fff0;
                f.set_bar_raw(i, (addr & mask) | 0b110, mask);
                exp[i] = Expect::Invalid;
                i += 1;
            }
            Bar::Mem64 { size_log2, prefetch, addr } => {
                let k = size_log2.clamp(4, 63);
                let lo_mask = lowmask(k) & 0xffff_fff0;
                let hi_mask = if k < 32 { 0xffff_ffff } else { lowmask(k - 32) };
                let a = addr & ((hi_mask as u64) << 32 | lo_mask as u64);
                f.set_bar_raw(i, (a as u32) | 0b100 | (prefetch as u32) << 3, lo_mask);
                if i == 5 {
                    // a 64-bit BAR cannot start in the last slot
                    exp[i] = Expect::Invalid;
                    i += 1;
                } else {
                    f.set_bar_raw(i + 1, (a >> 32) as u32, hi_mask);
                    exp[i] = Expect::Info(BarInfo::Memory { address_type: MemoryBarType::Width64, prefetchable: prefetch, address: a, size: 1u64 << k });
                    exp[i + 1] = Expect::Upper;
                    i += 2;
                }
            }
        }
    }
    exp
}

enum Root {
    Model(PciRoot<ModelCam>),
    Mmio(PciRoot<MmioCam<'static>>),
}

fn mk_root(use_cam: u8) -> Root {
    match use_cam % 3 {
        0 => Root::Model(PciRoot::new(ModelCam)),
        k => {
            let cam = if k == 1 { Cam::MmioCam } else { Cam::Ecam };
            pci_dev::install_cam(cam);
            Root::Mmio(PciRoot::new(unsafe { MmioCam::new(CAM_BASE as *mut u8, cam) }))
        }
    }
}

macro_rules! on_root {
    ($r:expr, $x:ident => $e:expr) => {
        match $r {
            Root::Model($x) => $e,
            Root::Mmio($x) => $e,
        }
    };
}

fn snapshot(bdf: (u8, u8, u8)) -> (Vec<u32>, u16) {
    with(|w| {
        let f = &w.pci.as_ref().unwrap().fns[&bdf];
        (f.regs.to_vec(), f.command)
    })
}

pub fn check_bars(c: &BarCase, st: &mut Stats, known: &(bool, bool)) -> Result<(), String> {
    world::reset();
    let bdf = (c.df.0, c.df.1 % 32, c.df.2 % 8);
    let df = DeviceFunction { bus: bdf.0, device: bdf.1, function: bdf.2 };
    let mut f = PciFn::new(0x1af4, 0x1041);
    let exp = program(&mut f, &c.bars);
    f.command = c.command & pci_dev::CMD_WRITABLE;
    with(|w| {
        let mut bus = PciBus::new();
        bus.fns.insert(bdf, f);
        w.pci = Some(bus);
    });
    let mut root = mk_root(c.use_cam);
    let before = snapshot(bdf);
    let mut sig = Sig::new();
    sig.add(c.command as u64).add(c.use_cam as u64 % 3);
    let mut nontrivial = false;
    let mut skipped_known = false;
    // individual slots
    for i in 0..6u8 {
        if exp[i as usize] == Expect::Upper {
            continue;
        }
        // known-finding signatures
        let is_d5 = matches!(c.bars_at(i), Some(Bar::Mem64 { .. })) && i == 5;
        let is_d6 = matches!(c.bars_at(i), Some(Bar::Io { decode16: true, .. }));
        if (is_d5 && known.0) || (is_d6 && known.1) {
            st.known_excluded += 1;
            *st.known_hits.entry(if is_d5 { KEY_D5 } else { KEY_D6 }.to_string()).or_insert(0) += 1;
            skipped_known = true;
            continue;
        }
        with(|w| w.pci.as_mut().unwrap().log.clear());
        let res = match guard(|| on_root!(&mut root, r => r.bar_info(df, i))) {
            Caught::Ok(r) => r,
            Caught::Panic(p) => return Err(format!("bar_info({}) panicked: {}", i, p.render())),
            Caught::Escape(e) => return Err(format!("{:?}", e)),
        };
        let what = format!("bar_info({}) of {:?} with command {:#06x}", i, c.bars_at(i), c.command & pci_dev::CMD_WRITABLE);
        match (&exp[i as usize], &res) {
            (Expect::NoneBar, Ok(None)) => {}
            (Expect::Info(w), Ok(Some(g))) if w == g => {}
            (Expect::Invalid, Err(_)) => {}
            (e, g) => return Err(format!("{}: returned {:x?}, the function's truth is {:x?}", what, g, e)),
        }
        if let Some(fl) = world::first_fault() {
            return Err(format!("{}: {}", what, fl.msg));
        }
        let after = snapshot(bdf);
        if after != before {
            let d: Vec<String> = (0..64).filter(|&r| after.0[r] != before.0[r]).map(|r| format!("reg {:#04x}: {:#010x} -> {:#010x}", r * 4, before.0[r], after.0[r])).collect();
            return Err(format!("{}: configuration space not restored: {} command {:#06x} -> {:#06x}", what, d.join(", "), before.1, after.1));
        }
        if let Expect::Info(BarInfo::Memory { address_type: MemoryBarType::Width64, address, .. }) = &exp[i as usize] {
            if address >> 32 != 0 && c.command & 3 != 0 {
                nontrivial = true;
            }
        }
        sig.add(match &exp[i as usize] {
            Expect::NoneBar => 0,
            Expect::Invalid => 1,
            Expect::Upper => 2,
            Expect::Info(BarInfo::IO { size, .. }) => 0x100 + size.trailing_zeros() as u64,
            Expect::Info(BarInfo::Memory { size, address_type, prefetchable, .. }) => {
                0x200 + size.trailing_zeros() as u64 + ((*address_type as u8 as u64) << 8) + ((*prefetchable as u64) << 12)
            }
        });
    }
    // bars()
    if !skipped_known {
        let res = match guard(|| on_root!(&mut root, r => r.bars(df))) {
            Caught::Ok(r) => r,
            Caught::Panic(p) => return Err(format!("bars() panicked: {}", p.render())),
            Caught::Escape(e) => return Err(format!("{:?}", e)),
        };
        let any_invalid = {
            // bars() stops at the first invalid BAR it reaches
            let mut i = 0;
            let mut inv = false;
            while i < 6 {
                match &exp[i] {
                    Expect::Invalid => {
                        inv = true;
                        break;
                    }
                    Expect::Info(b) if b.takes_two_entries() => i += 2,
                    _ => i += 1,
                }
            }
            inv
        };
        match res {
            Err(_) if any_invalid => {}
            Ok(arr) if !any_invalid => {
                for i in 0..6 {
                    let want = match &exp[i] {
                        Expect::Info(b) => Some(b.clone()),
                        _ => None,
                    };
                    if arr[i] != want {
                        return Err(format!("bars()[{}] = {:x?}, truth {:x?} (BAR set {:?})", i, arr[i], want, c.bars));
                    }
                }
            }
            other => return Err(format!("bars() returned {:x?} for BAR set {:?}", other, c.bars)),
        }
        if let Some(fl) = world::first_fault() {
            return Err(format!("bars(): {}", fl.msg));
        }
        let after = snapshot(bdf);
        if after != before {
            return Err(format!("bars() of {:?}: configuration space not restored", c.bars));
        }
    }
    if nontrivial {
        st.nontrivial(sig.get(), || json!(c));
    }
    Ok(())
}

impl BarCase {
    /// The generated BAR that starts at slot `i`, if any.
    fn bars_at(&self, i: u8) -> Option<&Bar> {
        let mut slot = 0u8;
        for b in &self.bars {
            if slot == i {
                return Some(b);
            }
            slot += if matches!(b, Bar::Mem64 { .. }) && slot < 5 { 2 } else { 1 };
            if slot > i {
                return None;
            }
        }
        None
    }
}

// ---------------------------------------------------------------------------------------------
// cam_offset, exhaustive

#[derive(Clone, Debug, Serialize, Deserialize)]
pub struct CamAll {
    pub ecam: bool,
}

pub fn cam_exhaustive(c: &CamAll, st: &mut Stats) -> Result<(), String> {
    let cam = if c.ecam { Cam::Ecam } else { Cam::MmioCam };
    let size = if c.ecam { 0x1000_0000u32 } else { 0x100_0000 };
    if cam.size() != size {
        return Err(format!("{:?}.size() = {:#x}, expected {:#x}", cam, cam.size(), size));
    }
    let mut seen = vec![0u64; (size as usize / 4 + 63) / 64];
    let mut n = 0u64;
    for bus in 0..=255u8 {
        for device in 0..32u8 {
            for function in 0..8u8 {
                let df = DeviceFunction { bus, device, function };
                for reg in (0..=252u8).step_by(4) {
                    let got = cam.cam_offset(df, reg);
                    let want = if c.ecam {
                        (bus as u32) << 20 | (device as u32) << 15 | (function as u32) << 12 | reg as u32
                    } else {
                        (bus as u32) << 16 | (device as u32) << 11 | (function as u32) << 8 | reg as u32
                    };
                    if got != want || got >= size || got % 4 != 0 {
                        return Err(format!("{:?}.cam_offset({}:{}.{}, {:#x}) = {:#x}, expected {:#x} (< {:#x}, 4-aligned)", cam, bus, device, function, reg, got, want, size));
                    }
                    let w = (got / 4) as usize;
                    if seen[w / 64] >> (w % 64) & 1 != 0 {
                        return Err(format!("{:?}.cam_offset is not injective: {:#x} produced twice (at {}:{}.{} reg {:#x})", cam, got, bus, device, function, reg));
                    }
                    seen[w / 64] |= 1 << (w % 64);
                    n += 1;
                }
            }
        }
    }
    st.class_n("cam_offset_tuples", n);
    let mut s = Sig::new();
    s.add(0xca3).add(c.ecam as u64);
    st.nontrivial(s.get(), || json!({"cam_offset_exhaustive": c, "tuples": n}));
    Ok(())
}

// ---------------------------------------------------------------------------------------------
// bus population / capabilities / MmioCam accesses

#[derive(Clone, Debug, Serialize, Deserialize)]
pub struct FnDesc {
    pub dev: u8,
    pub func: u8,
    pub vendor: u16,
    pub device: u16,
    pub class_rev: u32,
    pub header: u8,
    /// capability list: (offset/4 in 16..64, id, private bytes)
    pub caps: Vec<(u8, u8, u16)>,
    pub cap_bit: bool,
}

#[derive(Clone, Debug, Serialize, Deserialize)]
pub struct BusCase {
    pub bus: u8,
    pub fns: Vec<FnDesc>,
    pub use_cam: u8,
}

pub fn check_bus(c: &BusCase, st: &mut Stats) -> Result<(), String> {
    world::reset();
    let mut truth: std::collections::BTreeMap<(u8, u8), FnDesc> = Default::default();
    with(|w| {
        let mut bus = PciBus::new();
        for d in &c.fns {
            let key = (d.dev % 32, d.func % 8);
            if truth.contains_key(&key) {
                continue;
            }
            let mut d = d.clone();
            if d.vendor == 0xffff {
                d.vendor = 0x1234;
            }
            if d.caps.is_empty() {
                d.cap_bit = false;
            }
            let mut f = PciFn::new(d.vendor, d.device);
            f.regs[2] = d.class_rev;
            f.regs[3] = (d.header as u32) << 16 | 0x0000_4010;
            f.status = if d.cap_bit { 0x10 } else { 0 };
            // capability list: distinct, 4-aligned offsets >= 0x40, in generated order
            let mut offs: Vec<u8> = Vec::new();
            let mut caps2 = Vec::new();
            for (o, id, p) in &d.caps {
                let o = 16 + (*o % 48);
                if !offs.contains(&o) {
                    offs.push(o);
                    caps2.push((o, *id, *p));
                }
            }
            for (k, (o, id, p)) in caps2.iter().enumerate() {
                let next = caps2.get(k + 1).map(|x| x.0 * 4).unwrap_or(0);
                f.regs[*o as usize] = *id as u32 | (next as u32) << 8 | (*p as u32) << 16;
            }
            // (the two low bits of the capabilities pointer are reserved: software must mask them)
            f.regs[0x34 / 4] = caps2.first().map(|x| x.0 as u32 * 4 | (d.class_rev >> 3 & 3)).unwrap_or(0) | 0xab00;
            d.caps = caps2;
            bus.fns.insert((c.bus, key.0, key.1), f);
            truth.insert(key, d);
        }
        w.pci = Some(bus);
    });
    let root = mk_root(c.use_cam);
    let got: Vec<_> = match guard(|| on_root!(&root, r => r.enumerate_bus(c.bus).collect::<Vec<_>>())) {
        Caught::Ok(v) => v,
        Caught::Panic(p) => return Err(format!("enumerate_bus panicked: {}", p.render())),
        Caught::Escape(e) => return Err(format!("{:?}", e)),
    };
    if got.len() != truth.len() {
        return Err(format!("enumerate_bus({}) reported {} functions, {} are present", c.bus, got.len(), truth.len()));
    }
    for ((df, info), (key, d)) in got.iter().zip(truth.iter()) {
        if (df.bus, df.device, df.function) != (c.bus, key.0, key.1) {
            return Err(format!("enumerate_bus reported {} where {:02x}:{:02x}.{} is the next present function", df, c.bus, key.0, key.1));
        }
        let ht = match d.header & 0x7f {
            0 => HeaderType::Standard,
            1 => HeaderType::PciPciBridge,
            2 => HeaderType::PciCardbusBridge,
            x => HeaderType::Unrecognised(x),
        };
        let ok = info.vendor_id == d.vendor
            && info.device_id == d.device
            && info.class == (d.class_rev >> 24) as u8
            && info.subclass == (d.class_rev >> 16) as u8
            && info.prog_if == (d.class_rev >> 8) as u8
            && info.revision == d.class_rev as u8
            && info.header_type == ht;
        if !ok {
            return Err(format!("identity of {} decoded as {:x?}, function holds {:x?}", df, info, d));
        }
    }
    // capabilities
    let mut caps_total = 0;
    for (key, d) in truth.iter() {
        let df = DeviceFunction { bus: c.bus, device: key.0, function: key.1 };
        let got: Vec<_> = match guard(|| on_root!(&root, r => r.capabilities(df).collect::<Vec<_>>())) {
            Caught::Ok(v) => v,
            Caught::Panic(p) => return Err(format!("capabilities panicked: {}", p.render())),
            Caught::Escape(e) => return Err(format!("{:?}", e)),
        };
        let want: Vec<(u8, u8, u16)> = if d.cap_bit { d.caps.iter().map(|(o, id, p)| (o * 4, *id, *p)).collect() } else { vec![] };
        let g: Vec<(u8, u8, u16)> = got.iter().map(|c| (c.offset, c.id, c.private_header)).collect();
        if g != want {
            return Err(format!("capabilities({}) = {:x?}, list in configuration space is {:x?} (capabilities bit {})", df, g, want, d.cap_bit));
        }
        caps_total += want.len();
    }
    // enumeration and capability walking must not write
    let wrote = with(|w| w.pci.as_ref().unwrap().log.iter().any(|a| a.write));
    if wrote {
        return Err("enumeration wrote to configuration space".into());
    }
    if let Some(f) = world::first_fault() {
        return Err(f.msg);
    }
    let mut s = Sig::new();
    s.add(0xb05).add(c.bus as u64).add(c.use_cam as u64 % 3);
    for k in truth.keys() {
        s.add(k.0 as u64 * 8 + k.1 as u64);
    }
    s.add(caps_total as u64);
    if truth.len() >= 2 && caps_total >= 2 {
        st.nontrivial(s.get(), || json!(c));
    }
    Ok(())
}

#[derive(Clone, Debug, Serialize, Deserialize)]
pub struct CamAccess {
    pub ecam: bool,
    pub bus: u8,
}

/// MmioCam produces exactly one 32-bit access at base + offset, for every function/register of a bus.
pub fn cam_access(c: &CamAccess, st: &mut Stats) -> Result<(), String> {
    world::reset();
    let cam = if c.ecam { Cam::Ecam } else { Cam::MmioCam };
    with(|w| w.pci = Some(PciBus::new()));
    pci_dev::install_cam(cam);
    let mut m = unsafe { MmioCam::new(CAM_BASE as *mut u8, cam) };
    let mut n = 0u64;
    for device in 0..32u8 {
        for function in 0..8u8 {
            let df = DeviceFunction { bus: c.bus, device, function };
            for reg in (0..=252u8).step_by(4) {
                let want = CAM_BASE
                    + if c.ecam {
                        (c.bus as u64) << 20 | (device as u64) << 15 | (function as u64) << 12 | reg as u64
                    } else {
                        (c.bus as u64) << 16 | (device as u64) << 11 | (function as u64) << 8 | reg as u64
                    };
                for write in [false, true] {
                    with(|w| w.bus.trace.clear());
                    let val = 0xa5a5_0000 | reg as u32;
                    let r = guard(|| if write { m.write_word(df, reg, val) } else { m.read_word(df, reg); });
                    if let Caught::Panic(p) = r {
                        return Err(format!("MmioCam access panicked: {}", p.render()));
                    }
                    let tr = with(|w| w.bus.take_trace());
                    let ok = tr.len() == 1 && tr[0].addr == want && tr[0].width == 4 && tr[0].write == write && (!write || tr[0].val == val as u64);
                    if !ok {
                        return Err(format!("MmioCam {} of {} reg {:#x}: accesses {:x?}, expected one 32-bit access at {:#x}", if write { "write" } else { "read" }, df, reg, tr, want));
                    }
                    n += 1;
                }
            }
        }
    }
    if let Some(f) = world::first_fault() {
        return Err(f.msg);
    }
    st.class_n("mmiocam_accesses", n);
    Ok(())
}

// ---------------------------------------------------------------------------------------------

/// 32-bit BAR addresses: arbitrary, zero, and values whose writable bits are (nearly) all ones --
/// the register then barely changes when the sizing pattern is written.
fn addr32() -> impl Strategy<Value = u32> {
    prop_oneof![
        6 => any::<u32>(),
        1 => Just(0u32),
        2 => Just(u32::MAX),
        2 => (0u32..16).prop_map(|l| u32::MAX << l),
        2 => (0u32..32, 0u32..32).prop_map(|(a, b)| u32::MAX & !(1 << a) & !(1 << b)),
    ]
}

fn bar_strategy() -> impl Strategy<Value = Bar> {
    prop_oneof![
        3 => Just(Bar::None),
        2 => (2u8..32, any::<bool>(), addr32()).prop_map(|(size_log2, decode16, addr)| Bar::Io { size_log2, decode16, addr }),
        3 => (4u8..32, any::<bool>(), prop::bool::weighted(0.2), addr32()).prop_map(|(size_log2, prefetch, below1m, addr)| Bar::Mem32 { size_log2, prefetch, below1m, addr }),
        4 => (4u8..64, any::<bool>(), prop_oneof![any::<u64>(), Just(u64::MAX), (0u32..64).prop_map(|l| u64::MAX << l), any::<u32>().prop_map(|x| x as u64), (0u64..256, any::<u32>()).prop_map(|(h, l)| h << 32 | l as u64), (0u32..32, 0u32..32).prop_map(|(a, b)| (1u64 << (32 + a)) | (1u64 << b))]).prop_map(|(size_log2, prefetch, addr)| Bar::Mem64 { size_log2, prefetch, addr }),
        1 => (4u8..32, addr32()).prop_map(|(size_log2, addr)| Bar::Reserved { size_log2, addr }),
    ]
}

pub fn bar_case_strategy() -> impl Strategy<Value = BarCase> {
    (prop::collection::vec(bar_strategy(), 0..=6), any::<u16>(), 0u8..3, (any::<u8>(), 0u8..32, 0u8..8)).prop_map(|(bars, command, use_cam, df)| BarCase { bars, command, use_cam, df })
}

fn bus_case_strategy() -> impl Strategy<Value = BusCase> {
    (
        any::<u8>(),
        prop::collection::vec(
            (
                0u8..32,
                0u8..8,
                any::<u16>(),
                any::<u16>(),
                any::<u32>(),
                prop_oneof![Just(0u8), Just(1), Just(2), Just(0x80), Just(0x81), any::<u8>()],
                prop::collection::vec((0u8..48, any::<u8>(), any::<u16>()), 0..8),
                prop::bool::weighted(0.8),
            )
                .prop_map(|(dev, func, vendor, device, class_rev, header, caps, cap_bit)| FnDesc { dev, func, vendor, device, class_rev, header, caps, cap_bit }),
            0..24,
        ),
        0u8..3,
    )
        .prop_map(|(bus, fns, use_cam)| BusCase { bus, fns, use_cam })
}

#[derive(Clone, Debug, Serialize, Deserialize)]
pub enum Item {
    Cam(CamAll),
    Acc(CamAccess),
}

pub fn replay(engine: &str, case: &serde_json::Value) -> Result<(), String> {
    let mut st = Stats::default();
    match engine {
        "bars" => check_bars(&serde_json::from_value(case.clone()).map_err(|e| e.to_string())?, &mut st, &(false, false)),
        "bus" => check_bus(&serde_json::from_value(case.clone()).map_err(|e| e.to_string())?, &mut st),
        _ => match serde_json::from_value::<Item>(case.clone()).map_err(|e| e.to_string())? {
            Item::Cam(c) => cam_exhaustive(&c, &mut st),
            Item::Acc(c) => cam_access(&c, &mut st),
        },
    }
}

pub fn run(ctx: &Ctx) -> Report {
    let known = load_known(&ctx.root);
    let k = (known_open(&known, "C12", KEY_D5), known_open(&known, "C12", KEY_D6));
    let mut stats = Stats::default();
    let mut items = vec![Item::Cam(CamAll { ecam: false }), Item::Cam(CamAll { ecam: true })];
    let buses: Vec<u8> = if ctx.quick() { vec![0, 1, 127, 255] } else { (0..=255).collect() };
    for b in buses {
        items.push(Item::Acc(CamAccess { ecam: false, bus: b }));
        items.push(Item::Acc(CamAccess { ecam: true, bus: b }));
    }
    let (st, mut failure) = run_items(ctx, "items", items, |it: &Item, st| match it {
        Item::Cam(c) => cam_exhaustive(c, st),
        Item::Acc(c) => cam_access(c, st),
    });
    stats.merge(st);
    if failure.is_none() {
        let (st, f) = run_proptest(ctx, "bars", 121, ctx.n(300_000, 40_000_000), bar_case_strategy, |c: &BarCase, st| check_bars(c, st, &k));
        stats.merge(st);
        failure = f;
    }
    if failure.is_none() {
        let (st, f) = run_proptest(ctx, "bus", 122, ctx.n(60_000, 8_000_000), bus_case_strategy, |c: &BusCase, st| check_bus(c, st));
        stats.merge(st);
        failure = f;
    }
    Report {
        stats,
        failure,
        info: PartInfo {
            level: "exploration",
            rule: "BARs: proptest over BAR sets (every slot: unimplemented / I/O 32- and 16-bit decode / 32-bit / below-1-MiB / 64-bit with sizes 2^4..2^63 / reserved type / 64-bit in slot 5; arbitrary, zero and (nearly) all-ones addresses; prefetchable) x initial command values, through ConfigurationAccess and MmioCam (CAM and ECAM): bar_info()/bars() equal the reference function's truth, configuration space is identical afterwards (also on error returns), sizing writes only with decoding off. cam_offset: exhaustive over 256x32x8x64 tuples x {CAM,ECAM} against the independent formula, range, alignment, injectivity (bitmap); MmioCam read/write = exactly one 32-bit access at base+offset. Bus populations and well-formed capability lists: enumerate_bus / capabilities yield exactly the model's content in order. Non-trivial = BAR set with a 64-bit BAR with non-zero upper address and decoding enabled on entry; bus with >=2 functions and >=2 capabilities; each exhaustive cam_offset sweep. distinct = (command, access mechanism, per-slot kind/size) / (bus, function set, capability count).",
            assumptions: vec!["reserved command bits read as zero in the model, as in hardware (Command::from_bits_truncate drops them)".into(), "bar_info is only called on slots that start a BAR (the upper half of a 64-bit BAR is not a BAR)".into()],
            exhaustive: false,
            extra: json!({"cam_offset_exhaustive": true}),
        },
    }
}
