//! C13: config-space accesses are bounds-checked (exhaustive grid) and multi-field reads are
//! never torn (every placement of device-side updates between the individual reads).

use crate::hal::LHal;
use crate::runner::{guard, run_items, run_proptest, Caught, Ctx, PartInfo, Report, Sig, Stats};
use crate::tkind::{with_transport, WithT, TK};
use crate::world::{self, with, DeviceModel, World};
use crate::{mmio_dev, pci_dev};
use proptest::prelude::*;
use serde::{Deserialize, Serialize};
use serde_json::json;
use virtio_drivers::transport::Transport;
use virtio_drivers::Error;
use zerocopy::{FromBytes, Immutable, IntoBytes};

#[derive(Clone, Copy, Debug, FromBytes, IntoBytes, Immutable, PartialEq)]
#[repr(C)]
struct S8 {
    a: u32,
    b: u32,
}

#[derive(Clone, Copy, Debug, FromBytes, IntoBytes, Immutable, PartialEq)]
#[repr(C)]
struct S12 {
    a: u32,
    b: u16,
    c: u16,
    d: u32,
}

#[derive(Clone, Copy, Debug, Serialize, Deserialize, PartialEq, Eq)]
pub enum BK {
    MmioLegacy,
    MmioModern,
    Pci,
    PciNoCap,
}

#[derive(Clone, Debug, Serialize, Deserialize)]
pub struct Bounds {
    pub kind: BK,
    pub window: u32,
}

fn pat(i: usize) -> u8 {
    (i as u8).wrapping_mul(29) ^ 0x3c
}

struct Acc<'a, T: Transport> {
    t: &'a mut T,
    base: u64,
    eff: usize,
    missing: bool,
    n: u64,
    near_max: u64,
}

impl<T: Transport> Acc<'_, T> {
    /// One access of type V at `off`; `rd` = read.
    fn one<V: FromBytes + IntoBytes + Immutable + Copy + std::fmt::Debug>(&mut self, off: usize, rd: bool, name: &str) -> Result<(), String> {
        let size = std::mem::size_of::<V>();
        with(|w| w.bus.trace.clear());
        let fill: Vec<u8> = (0..size).map(|i| 0xc0 | i as u8).collect();
        let val = V::read_from_bytes(&fill).unwrap();
        let res: Caught<Result<Vec<u8>, Error>> = if rd {
            guard(|| self.t.read_config_space::<V>(off).map(|v| v.as_bytes().to_vec()))
        } else {
            guard(|| self.t.write_config_space::<V>(off, val).map(|_| vec![]))
        };
        self.n += 1;
        let tr = with(|w| w.bus.take_trace());
        let inside = (off as u128 + size as u128) <= self.eff as u128 && !self.missing;
        let what = format!("{} of {} ({} bytes) at config offset {:#x} in a {}-byte window", if rd { "read" } else { "write" }, name, size, off, self.eff);
        let res = match res {
            Caught::Ok(r) => r,
            Caught::Panic(p) => return Err(format!("{}: {}", what, p.render())),
            Caught::Escape(e) => return Err(format!("{}: {:?}", what, e)),
        };
        if inside {
            let bytes = res.map_err(|e| format!("{}: inside the window but failed with {:?}", what, e))?;
            // the trace must cover exactly [base+off, base+off+size) once each
            let mut cover = vec![0u8; size];
            for a in &tr {
                if a.write == rd {
                    return Err(format!("{}: performed a {} access", what, if a.write { "write" } else { "read" }));
                }
                let rel = a.addr.wrapping_sub(self.base + off as u64);
                if a.addr < self.base + off as u64 || rel + a.width as u64 > size as u64 {
                    return Err(format!("{}: touched {} bytes at config offset {:#x}", what, a.width, a.addr.wrapping_sub(self.base)));
                }
                for k in 0..a.width as usize {
                    cover[rel as usize + k] += 1;
                }
            }
            if cover.iter().any(|&c| c != 1) {
                return Err(format!("{}: bytes covered {:?} (each must be accessed exactly once)", what, cover));
            }
            if rd {
                let want: Vec<u8> = (off..off + size).map(pat).collect();
                if bytes != want {
                    return Err(format!("{}: returned {:x?}, device holds {:x?}", what, bytes, want));
                }
            } else {
                let got: Vec<u8> = with(|w| w.dev.config[off..off + size].to_vec());
                if got != fill {
                    return Err(format!("{}: device received {:x?}, caller wrote {:x?}", what, got, fill));
                }
                with(|w| {
                    for i in off..off + size {
                        w.dev.config[i] = pat(i);
                    }
                });
            }
        } else {
            if !tr.is_empty() {
                return Err(format!("{}: outside the window but performed accesses {:x?}", what, tr));
            }
            let want = if self.missing { Error::ConfigSpaceMissing } else { Error::ConfigSpaceTooSmall };
            match res {
                Err(e) if e == want => {}
                other => return Err(format!("{}: outside the window, expected {:?}, got {:?}", what, want, other.map(|_| "Ok"))),
            }
            if off > usize::MAX - 64 {
                self.near_max += 1;
            }
        }
        if let Some(f) = world::first_fault() {
            return Err(format!("{}: {}", what, f.msg));
        }
        Ok(())
    }

    fn all(&mut self) -> Result<(), String> {
        let w = self.eff;
        for rd in [true, false] {
            for off in 0..=w + 16 {
                self.one::<u8>(off, rd, "u8")?;
                self.one::<[u8; 6]>(off, rd, "[u8;6]")?;
                if off % 2 == 0 {
                    self.one::<u16>(off, rd, "u16")?;
                }
                if off % 4 == 0 {
                    self.one::<u32>(off, rd, "u32")?;
                    self.one::<S8>(off, rd, "8-byte struct")?;
                    self.one::<S12>(off, rd, "12-byte struct")?;
                }
            }
            // offsets whose end overflows the address arithmetic
            for d in 0..16usize {
                let off = usize::MAX - d;
                self.one::<u8>(off, rd, "u8")?;
                self.one::<[u8; 6]>(off, rd, "[u8;6]")?;
                if off % 2 == 0 {
                    self.one::<u16>(off, rd, "u16")?;
                }
                if off % 4 == 0 {
                    self.one::<u32>(off, rd, "u32")?;
                    self.one::<S8>(off, rd, "8-byte struct")?;
                    self.one::<S12>(off, rd, "12-byte struct")?;
                }
            }
        }
        Ok(())
    }
}

pub fn bounds(c: &Bounds, st: &mut Stats) -> Result<(), String> {
    world::reset();
    let w = c.window as usize;
    with(|wd| wd.dev.config = (0..w + 64).map(pat).collect());
    let (n, near) = match c.kind {
        BK::MmioLegacy | BK::MmioModern => {
            let v = if c.kind == BK::MmioLegacy { 1 } else { 2 };
            mmio_dev::install(v, 2, 0x100 + w as u64);
            let mut t = mmio_dev::transport(0x100 + w).map_err(|e| format!("{:?}", e))?;
            let mut a = Acc { t: &mut t, base: mmio_dev::MMIO_BASE + 0x100, eff: w, missing: false, n: 0, near_max: 0 };
            a.all()?;
            let r = (a.n, a.near_max);
            let _ = guard(move || drop(t));
            r
        }
        BK::Pci | BK::PciNoCap => {
            let has = c.kind == BK::Pci;
            if has && w < 4 {
                // a device-configuration capability shorter than one dword is refused by the
                // transport constructor (an error, which C11 permits); nothing to access
                st.class("pci_window_shorter_than_a_dword");
                return Ok(());
            }
            pci_dev::install_std(2, w as u32, has);
            let mut t = pci_dev::std_transport().map_err(|e| format!("{:?}", e))?;
            // the crate maps the whole-dword part of the capability's length
            let mut a = Acc { t: &mut t, base: 0x0000_00c0_0000_2000, eff: w / 4 * 4, missing: !has, n: 0, near_max: 0 };
            a.all()?;
            let r = (a.n, a.near_max);
            let _ = guard(move || drop(t));
            r
        }
    };
    st.class_n("accesses", n);
    st.class_n("accesses_near_usize_max", near);
    let mut s = Sig::new();
    s.add(c.kind as u64).add(c.window as u64);
    st.nontrivial(s.get(), || json!(c));
    Ok(())
}

// ---------------------------------------------------------------------------------------------
// torn reads

#[derive(Clone, Copy, Debug, Serialize, Deserialize, PartialEq, Eq)]
pub enum Drv {
    Blk,
    Vsock,
    Console,
    Net,
    P9,
}

#[derive(Clone, Debug, Serialize, Deserialize)]
pub struct Torn {
    pub drv: Drv,
    pub kind: TK,
    /// indices (counted over config-space + generation accesses of the call) before which the
    /// device switches to its next snapshot
    pub updates: Vec<u16>,
    /// 0: every snapshot differs in every field; 1: the upper half of 64-bit values alternates
    /// between two values, so that it *repeats* across updates (an implementation that validates a
    /// read by re-reading one half is fooled by the repeat)
    #[serde(default)]
    pub family: u8,
}

fn snapshot_bytes(drv: Drv, s: u32, family: u8) -> Vec<u8> {
    match drv {
        Drv::Blk | Drv::Vsock => {
            let mut v = Vec::new();
            v.extend_from_slice(&s.to_le_bytes());
            v.extend_from_slice(&(if family == 1 { 7 + (s & 1) } else { s }).to_le_bytes());
            v.resize(64, 0);
            v
        }
        Drv::Console => {
            let mut v = Vec::new();
            // family 1: the device toggles between two sizes (a window dragged back and forth), so
            // whole snapshots repeat and two equally torn reads agree with each other
            let (c, r) = if family == 1 { if s & 1 == 1 { (80u16, 24u16) } else { (132, 43) } } else { (s as u16, s as u16) };
            v.extend_from_slice(&c.to_le_bytes());
            v.extend_from_slice(&r.to_le_bytes());
            v.resize(16, 0);
            v
        }
        Drv::Net => {
            let mut v = vec![if family == 1 { 0x10 + (s & 1) as u8 } else { s as u8 }; 6];
            v.resize(24, 0);
            v
        }
        Drv::P9 if family == 1 => {
            // tags of two-byte characters: a torn mix of two tags is not valid UTF-8
            let tag = p9_utf8_tag(s);
            let mut v = Vec::new();
            v.extend_from_slice(&(tag.len() as u16).to_le_bytes());
            v.extend_from_slice(tag.as_bytes());
            v.resize(24, b'#');
            v
        }
        Drv::P9 => {
            let len = 3 + (s % 5) as u16;
            let ch = b'a' + (s % 26) as u8;
            let mut v = Vec::new();
            v.extend_from_slice(&len.to_le_bytes());
            v.extend(std::iter::repeat(ch).take(len as usize));
            v.resize(24, b'#');
            v
        }
    }
}

/// Snapshot `s` of the 9P mount tag in the multi-byte family: an ASCII prefix of alternating
/// length followed by two-byte characters, so that tags differ in where the character boundaries fall.
fn p9_utf8_tag(s: u32) -> String {
    let mut t = String::new();
    for _ in 0..(s % 2) {
        t.push('x');
    }
    let ch = char::from_u32(0xe0 + (s % 24)).unwrap();
    for _ in 0..(2 + s % 4) {
        t.push(ch);
    }
    t
}

#[derive(Clone, Debug, PartialEq, Eq)]
enum Val {
    U64(u64),
    Pair(u16, u16),
    Mac([u8; 6]),
    Tag(String),
}

fn snapshot_val(drv: Drv, s: u32, family: u8) -> Val {
    match drv {
        Drv::Blk | Drv::Vsock => Val::U64(((if family == 1 { 7 + (s & 1) } else { s }) as u64) << 32 | s as u64),
        Drv::Console if family == 1 => {
            if s & 1 == 1 {
                Val::Pair(80, 24)
            } else {
                Val::Pair(132, 43)
            }
        }
        Drv::Console => Val::Pair(s as u16, s as u16),
        Drv::Net => Val::Mac([if family == 1 { 0x10 + (s & 1) as u8 } else { s as u8 }; 6]),
        Drv::P9 if family == 1 => Val::Tag(p9_utf8_tag(s)),
        Drv::P9 => {
            let len = 3 + (s % 5) as usize;
            let ch = (b'a' + (s % 26) as u8) as char;
            Val::Tag(std::iter::repeat(ch).take(len).collect())
        }
    }
}

struct Updater {
    drv: Drv,
    family: u8,
    updates: Vec<u16>,
    count: u16,
    snap: u32,
    active: bool,
    /// an update fell strictly between two config reads of one attempt
    between_fields: bool,
    reads_since_gen: u32,
    accesses: u32,
}

impl DeviceModel for std::rc::Rc<std::cell::RefCell<Updater>> {
    fn on_config_access(&mut self, w: &mut World, off: usize, _len: usize, _write: bool) {
        let mut u = self.borrow_mut();
        if !u.active {
            return;
        }
        u.accesses += 1;
        if u.updates.contains(&u.count) {
            u.snap += 1;
            let b = snapshot_bytes(u.drv, u.snap, u.family);
            w.dev.config[..b.len()].copy_from_slice(&b);
            w.dev.gen = w.dev.gen.wrapping_add(1);
            if off != usize::MAX && u.reads_since_gen > 0 {
                u.between_fields = true;
            }
        }
        if off == usize::MAX {
            u.reads_since_gen = 0;
        } else {
            u.reads_since_gen += 1;
        }
        u.count = u.count.saturating_add(1);
    }
}

struct TornRun<'a> {
    c: &'a Torn,
    upd: std::rc::Rc<std::cell::RefCell<Updater>>,
}

impl WithT for TornRun<'_> {
    type Out = Result<Val, String>;
    fn call<T: Transport + 'static>(self, t: T) -> Self::Out {
        let upd = self.upd.clone();
        let drv = self.c.drv;
        let r = guard(move || -> Result<Val, String> {
            use virtio_drivers::device::{blk::VirtIOBlk, console::VirtIOConsole, net::VirtIONetRaw, socket::VirtIOSocket, virtio_9p::VirtIO9p};
            let e = |e: Error| format!("driver call failed: {:?}", e);
            match drv {
                Drv::Blk => {
                    upd.borrow_mut().active = true;
                    let d = VirtIOBlk::<LHal, T>::new(t).map_err(e)?;
                    upd.borrow_mut().active = false;
                    Ok(Val::U64(d.capacity()))
                }
                Drv::Vsock => {
                    upd.borrow_mut().active = true;
                    let d = VirtIOSocket::<LHal, T, 64>::new(t).map_err(e)?;
                    upd.borrow_mut().active = false;
                    Ok(Val::U64(d.guest_cid()))
                }
                Drv::Console => {
                    let d = VirtIOConsole::<LHal, T>::new(t).map_err(e)?;
                    upd.borrow_mut().active = true;
                    let s = d.size().map_err(e)?;
                    upd.borrow_mut().active = false;
                    let s = s.ok_or("size() returned None although SIZE was negotiated")?;
                    Ok(Val::Pair(s.columns, s.rows))
                }
                Drv::Net => {
                    upd.borrow_mut().active = true;
                    let d = VirtIONetRaw::<LHal, T, 4>::new(t).map_err(e)?;
                    upd.borrow_mut().active = false;
                    Ok(Val::Mac(d.mac_address()))
                }
                Drv::P9 => {
                    upd.borrow_mut().active = true;
                    let d = VirtIO9p::<LHal, T>::new(t).map_err(e)?;
                    upd.borrow_mut().active = false;
                    Ok(Val::Tag(d.mount_tag().to_string()))
                }
            }
        });
        match r {
            Caught::Ok(v) => v,
            Caught::Panic(p) => Err(p.render()),
            Caught::Escape(e) => Err(format!("{:?}", e)),
        }
    }
}

pub fn torn(c: &Torn, st: &mut Stats) -> Result<(), String> {
    if !c.kind.has_generation() {
        return Ok(());
    }
    world::reset();
    let dtype = match c.drv {
        Drv::Blk => 2,
        Drv::Vsock => 19,
        Drv::Console => 3,
        Drv::Net => 1,
        Drv::P9 => 9,
    };
    let upd = std::rc::Rc::new(std::cell::RefCell::new(Updater {
        drv: c.drv,
        family: c.family,
        updates: c.updates.clone(),
        count: 0,
        snap: 1,
        active: false,
        between_fields: false,
        reads_since_gen: 0,
        accesses: 0,
    }));
    with(|w| {
        // VERSION_1 + (console) SIZE; for the network device MAC, without which the `mac` field is
        // not valid and a driver need not read it
        w.dev.offered = (1 << 32) | if matches!(c.drv, Drv::Net) { 1 << 5 } else { 1 };
        w.dev.config = snapshot_bytes(c.drv, 1, c.family);
        w.dev.default_max = 256;
        w.spin_limit = 1_000_000;
    });
    world::set_model(Box::new(upd.clone()));
    let cfg_len = with(|w| w.dev.config.len());
    let val = with_transport(c.kind, dtype, cfg_len, TornRun { c, upd: upd.clone() })??;
    let u = upd.borrow();
    let exposed: Vec<Val> = (1..=u.snap).map(|s| snapshot_val(c.drv, s, c.family)).collect();
    if !exposed.contains(&val) {
        return Err(format!(
            "{:?} on {:?}: returned {:?}, which the device never exposed under a single configuration generation (snapshots {:?}, updates before accesses {:?})",
            c.drv, c.kind, val, exposed, c.updates
        ));
    }
    if let Some(f) = world::first_fault() {
        if f.prop != "notify_early" {
            return Err(f.msg);
        }
    }
    st.class_n("config_accesses", u.accesses as u64);
    if u.between_fields {
        let mut s = Sig::new();
        s.add(c.drv as u64).add(c.kind as u64);
        for x in &c.updates {
            s.add(*x as u64);
        }
        st.nontrivial(s.get(), || json!(c));
    }
    Ok(())
}

/// number of accesses of an update-free run
fn baseline_accesses(drv: Drv, kind: TK) -> u16 {
    let mut st = Stats::default();
    let c = Torn { drv, kind, updates: vec![], family: 0 };
    let _ = torn(&c, &mut st);
    st.classes.get("config_accesses").copied().unwrap_or(8) as u16
}

#[derive(Clone, Debug, Serialize, Deserialize)]
pub enum Item {
    B(Bounds),
    T(Torn),
}

pub fn replay(_engine: &str, case: &serde_json::Value) -> Result<(), String> {
    let mut st = Stats::default();
    if let Ok(i) = serde_json::from_value::<Item>(case.clone()) {
        return match i {
            Item::B(b) => bounds(&b, &mut st),
            Item::T(t) => torn(&t, &mut st),
        };
    }
    let t: Torn = serde_json::from_value(case.clone()).map_err(|e| e.to_string())?;
    torn(&t, &mut st)
}

/// Update schedules (one update at every access position, and every pair) for one driver's
/// multi-field configuration read: shared with the checks of the properties that promise the value
/// itself (block capacity: C14, 9P mount tag: C20).
pub fn torn_items(drv: Drv, quick: bool) -> Vec<Item> {
    let mut items = Vec::new();
    for kind in TKS {
        let base = baseline_accesses(drv, kind);
        for j in 0..base * 3 + 4 {
            items.push(Item::T(Torn { drv, kind, updates: vec![j], family: 0 }));
            if matches!(drv, Drv::P9) {
                items.push(Item::T(Torn { drv, kind, updates: vec![j], family: 1 }));
            }
        }
        let lim2 = if quick { (base * 2 + 2).min(24) } else { (base * 3 + 4).min(60) };
        for j in 0..lim2 {
            for k in j + 1..lim2 {
                items.push(Item::T(Torn { drv, kind, updates: vec![j, k], family: 0 }));
                if matches!(drv, Drv::Blk | Drv::Vsock | Drv::P9) {
                    items.push(Item::T(Torn { drv, kind, updates: vec![j, k], family: 1 }));
                }
            }
        }
        // three and four updates at every placement among the first accesses, with the family
        // whose snapshots repeat (A, B, A, B): what fools a reader that trusts two agreeing
        // attempts instead of an unchanged generation
        let lim3 = (base * 3 + 2).min(if quick { 14 } else { 20 });
        for j in 0..lim3 {
            for k in j + 1..lim3 {
                for l in k + 1..lim3 {
                    items.push(Item::T(Torn { drv, kind, updates: vec![j, k, l], family: 1 }));
                    if !quick {
                        for m in l + 1..lim3 {
                            items.push(Item::T(Torn { drv, kind, updates: vec![j, k, l, m], family: 1 }));
                        }
                    }
                }
            }
        }
    }
    items
}

/// The PCI part of the bounds grid (shared with C11: later operations touch only the windows).
pub fn pci_bounds_items(wmax: u32) -> Vec<Item> {
    let mut items: Vec<Item> = (0..=wmax).map(|window| Item::B(Bounds { kind: BK::Pci, window })).collect();
    items.push(Item::B(Bounds { kind: BK::PciNoCap, window: 0 }));
    items
}

pub fn run_item(it: &Item, st: &mut Stats) -> Result<(), String> {
    match it {
        Item::B(b) => bounds(b, st),
        Item::T(t) => torn(t, st),
    }
}

const DRVS: [Drv; 5] = [Drv::Blk, Drv::Vsock, Drv::Console, Drv::Net, Drv::P9];
const TKS: [TK; 3] = [TK::Model, TK::MmioModern, TK::Pci];

pub fn run(ctx: &Ctx) -> Report {
    let mut stats = Stats::default();
    let mut items = Vec::new();
    let wmax = 300;
    for kind in [BK::MmioLegacy, BK::MmioModern, BK::Pci] {
        for window in 0..=wmax {
            items.push(Item::B(Bounds { kind, window }));
        }
    }
    items.push(Item::B(Bounds { kind: BK::PciNoCap, window: 0 }));
    items.push(Item::B(Bounds { kind: BK::PciNoCap, window: 64 }));
    let n_bounds = items.len();
    // torn reads: one update at every position, two updates at every pair
    let mut n_single = 0;
    let mut n_pairs = 0;
    let mut n_triples = 0;
    for drv in DRVS {
        for kind in TKS {
            let base = baseline_accesses(drv, kind);
            let lim = base * 3 + 4;
            for j in 0..lim {
                items.push(Item::T(Torn { drv, kind, updates: vec![j], family: 0 }));
                if matches!(drv, Drv::P9) {
                    items.push(Item::T(Torn { drv, kind, updates: vec![j], family: 1 }));
                    n_single += 1;
                }
                n_single += 1;
            }
            let lim2 = if ctx.quick() { (base * 2 + 2).min(40) } else { (base * 3 + 4).min(80) };
            for j in 0..lim2 {
                for k in j + 1..lim2 {
                    items.push(Item::T(Torn { drv, kind, updates: vec![j, k], family: 0 }));
                if matches!(drv, Drv::Blk | Drv::Vsock | Drv::P9) {
                    items.push(Item::T(Torn { drv, kind, updates: vec![j, k], family: 1 }));
                }
                    n_pairs += 1;
                }
            }
            // three (thorough: and four) updates at every placement among the first accesses with
            // the repeating family (snapshots A, B, A, B): two equally torn attempts agree
            let lim3 = (base * 3 + 2).min(if ctx.quick() { 14 } else { 22 });
            for j in 0..lim3 {
                for k in j + 1..lim3 {
                    for l in k + 1..lim3 {
                        items.push(Item::T(Torn { drv, kind, updates: vec![j, k, l], family: 1 }));
                        n_triples += 1;
                        if !ctx.quick() {
                            for m in l + 1..lim3 {
                                items.push(Item::T(Torn { drv, kind, updates: vec![j, k, l, m], family: 1 }));
                                n_triples += 1;
                            }
                        }
                    }
                }
            }
        }
    }
    let (st, mut failure) = run_items(ctx, "items", items, |it: &Item, st| match it {
        Item::B(b) => bounds(b, st),
        Item::T(t) => torn(t, st),
    });
    stats.merge(st);
    if failure.is_none() {
        let strat = || {
            (0usize..5, 0usize..3, prop_oneof![prop::collection::btree_set(0u16..120, 0..12), prop::collection::btree_set(0u16..20, 0..9)]).prop_map(|(d, k, u)| Torn { drv: DRVS[d], kind: TKS[k], family: (u.len() % 2) as u8, updates: u.into_iter().collect() })
        };
        let (st, f) = run_proptest(ctx, "torn", 131, ctx.n(300_000, 100_000_000), strat, |c: &Torn, st| torn(c, st));
        stats.merge(st);
        failure = f;
    }
    Report {
        stats,
        failure,
        info: PartInfo {
            level: "exploration",
            rule: "bounds: exhaustive grid of window sizes 0..=300 bytes x {u8,u16,u32,[u8;6],8-byte struct,12-byte struct} x every suitably aligned offset in 0..=window+16 and the 16 offsets below usize::MAX x read/write x {MMIO legacy, MMIO modern, PCI, PCI without device-config capability}, oracle in 128-bit arithmetic on the ordered bus trace (exact byte coverage inside, error and empty trace outside, never a panic). Torn reads: blk capacity, vsock CID, console size, net MAC, 9p mount tag on {model, MMIO modern, PCI} with the device switching self-identifying snapshots (and, for 64-bit values, a second family whose upper half alternates between two values, so that it repeats across updates) (and bumping the generation) before the j-th configuration access: every single j, every pair, every triple (thorough: quadruple) among the first accesses with a family whose whole snapshots alternate A, B, A, B (console size, MAC), and generated sets of up to 12 updates; the returned value must equal one exposed snapshot. Non-trivial = every bounds grid cell; a torn-read schedule in which an update falls strictly between two field reads of one attempt. distinct = (kind, window) / (driver, transport, update positions).",
            assumptions: vec![
                "misaligned offsets and types with alignment > 4 are documented assertion failures of the crate and are not generated".into(),
                "legacy MMIO has no generation counter, so untorn reads are not asserted there".into(),
            ],
            exhaustive: false,
            extra: json!({"bounds_grid_cells": n_bounds, "bounds_grid_exhaustive": true, "single_update_schedules": n_single, "update_pair_schedules": n_pairs, "update_triple_and_quad_schedules_repeating_family": n_triples}),
        },
    }
}
