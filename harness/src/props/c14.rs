//! C14: block requests carry the caller's data intact and match the right completion.

use crate::devq::{Handler, Queues, Serve, Shared, SimDev};
use crate::hal::LHal;
use crate::props::drv::{self, F_VERSION_1};
use crate::ring::Chain;
use crate::runner::{guard, run_proptest, Caught, Ctx, PartInfo, Report, Sig, Stats};
use crate::tkind::{with_transport, WithT, TK};
use crate::world::{self, Escape, World};
use proptest::prelude::*;
use serde::{Deserialize, Serialize};
use serde_json::json;
use virtio_drivers::device::blk::{BlkReq, BlkResp, VirtIOBlk, SECTOR_SIZE};
use virtio_drivers::transport::Transport;
use virtio_drivers::Error;

pub const DISK_SECTORS: u64 = 64;
const F_RO: u64 = 1 << 5;
const F_FLUSH: u64 = 1 << 9;

#[derive(Clone, Debug, Serialize, Deserialize, PartialEq)]
pub enum Sect {
    In(u8),
    Edge(u8),
    Huge(u64),
}

impl Sect {
    fn get(&self) -> u64 {
        match self {
            Sect::In(s) => *s as u64 % DISK_SECTORS,
            Sect::Edge(d) => DISK_SECTORS - 4 + (*d as u64 % 8),
            Sect::Huge(h) => *h,
        }
    }
}

#[derive(Clone, Debug, Serialize, Deserialize, PartialEq)]
pub enum BOp {
    Read { s: Sect, n: u8 },
    Write { s: Sect, n: u8, seed: u8 },
    Flush,
    DeviceId,
    NbRead { s: Sect, n: u8 },
    NbWrite { s: Sect, n: u8, seed: u8 },
    /// device completes the pick-th held request, driver completes whatever is at the used front
    Complete { pick: u16 },
    /// status the device will answer for the next request it executes
    Inject(u8),
    Policy(Serve),
}

#[derive(Clone, Debug, Serialize, Deserialize)]
pub struct BCase {
    pub kind: TK,
    pub offered: u64,
    pub capacity: u64,
    pub policy: Serve,
    pub ops: Vec<BOp>,
    /// afterwards: this many rounds of (device completes the oldest request, driver completes it,
    /// a new non-blocking request is submitted) with two requests in flight all the time -- more
    /// than 65536 rounds take the queue's free-running indices through their wrap
    #[serde(default)]
    pub repeat: u32,
}

#[derive(Clone, Debug)]
pub struct Parsed {
    ty: u32,
    sector: u64,
    /// payload bytes the device received (writes)
    data_in: Vec<u8>,
    /// length of the device-writable data part
    data_out_len: usize,
}

pub struct BlkDev {
    pub disk: Vec<u8>,
    pub hold: bool,
    pub held: Vec<(Chain, Parsed)>,
    pub inject: Option<u8>,
    pub errors: Vec<String>,
    /// every request the device has seen, in arrival order
    pub seen: Vec<Parsed>,
    pub executed: u64,
    pub id: [u8; 20],
}

fn disk_pat(i: usize) -> u8 {
    ((i / 512) as u8).wrapping_mul(31) ^ (i as u8).wrapping_mul(7) ^ 0x42
}

impl BlkDev {
    pub fn new() -> Self {
        let mut id = [0u8; 20];
        id[..13].copy_from_slice(b"vdv-disk-0123");
        BlkDev {
            disk: (0..(DISK_SECTORS as usize * 512)).map(disk_pat).collect(),
            hold: false,
            held: Vec::new(),
            inject: None,
            errors: Vec::new(),
            seen: Vec::new(),
            executed: 0,
            id,
        }
    }

    fn parse(&mut self, w: &mut World, qs: &Queues, c: &Chain) -> Option<Parsed> {
        let rd: Vec<_> = c.elems.iter().filter(|e| !e.write).collect();
        let wr: Vec<_> = c.elems.iter().filter(|e| e.write).collect();
        let mut err = |m: String| {
            self.errors.push(m);
            None
        };
        // Framing-agnostic (VirtIO 1.2 §2.7.4.2): the request is the concatenation of the
        // device-readable parts (16-byte header, then the data of a write) followed by the
        // concatenation of the device-writable parts (the data of a read, then one status byte).
        let rd_len: usize = rd.iter().map(|e| e.len as usize).sum();
        let wr_len: usize = wr.iter().map(|e| e.len as usize).sum();
        if rd_len < 16 {
            return err(format!("request chain {:?}: must start with the 16-byte device-readable header", c.elems));
        }
        if wr_len < 1 {
            return err(format!("request chain {:?}: must end with the 1-byte device-writable status", c.elems));
        }
        if let Some(i) = c.elems.iter().position(|e| e.write) {
            if c.elems[i..].iter().any(|e| !e.write) {
                return err(format!("request chain {:?}: device-readable part after a device-writable one", c.elems));
            }
        }
        let all = qs.read(w, 0, c);
        if all.len() < 16 {
            return err("cannot read the request header".into());
        }
        let ty = u32::from_le_bytes(all[0..4].try_into().unwrap());
        let reserved = u32::from_le_bytes(all[4..8].try_into().unwrap());
        let sector = u64::from_le_bytes(all[8..16].try_into().unwrap());
        if reserved != 0 {
            return err(format!("request header reserved field = {:#x}", reserved));
        }
        let data_in = all[16..].to_vec();
        let data_out_len: usize = wr_len - 1;
        let p = Parsed { ty, sector, data_in, data_out_len };
        let shape_ok = match ty {
            0 => p.data_in.is_empty() && p.data_out_len > 0 && p.data_out_len % 512 == 0,
            1 => !p.data_in.is_empty() && p.data_in.len() % 512 == 0 && p.data_out_len == 0,
            4 => p.data_in.is_empty() && p.data_out_len == 0,
            8 => p.data_in.is_empty() && p.data_out_len == 20,
            _ => return err(format!("unknown request type {}", ty)),
        };
        if !shape_ok {
            return err(format!("request type {} with {} readable payload bytes and {} writable data bytes: {:?}", ty, p.data_in.len(), p.data_out_len, c.elems));
        }
        Some(p)
    }

    fn execute(&mut self, w: &mut World, qs: &mut Queues, c: &Chain, p: &Parsed) {
        self.executed += 1;
        let inj = self.inject.take();
        let mut status = inj.unwrap_or(0);
        let mut out: Vec<u8> = Vec::new();
        let start = p.sector.checked_mul(512);
        match p.ty {
            0 => {
                let end = start.and_then(|s| s.checked_add(p.data_out_len as u64));
                match (start, end) {
                    (Some(s), Some(e)) if e <= self.disk.len() as u64 => {
                        if status == 0 {
                            out.extend_from_slice(&self.disk[s as usize..e as usize]);
                        }
                    }
                    _ => {
                        if status == 0 {
                            status = 1;
                        }
                    }
                }
            }
            1 => {
                let end = start.and_then(|s| s.checked_add(p.data_in.len() as u64));
                match (start, end) {
                    (Some(s), Some(e)) if e <= self.disk.len() as u64 => {
                        if status == 0 {
                            self.disk[s as usize..e as usize].copy_from_slice(&p.data_in);
                        }
                    }
                    _ => {
                        if status == 0 {
                            status = 1;
                        }
                    }
                }
            }
            4 => {}
            8 => {
                if status == 0 {
                    out.extend_from_slice(&self.id);
                }
            }
            _ => status = 2,
        }
        // response = data (if any, else leave the data part untouched) + status byte at the end
        if p.data_out_len > 0 && out.is_empty() {
            // error before data transfer: only the status byte is written
            let st_elem = c.elems.iter().filter(|e| e.write && e.len > 0).last().unwrap();
            if let Err(m) = w.hal.dev_write(st_elem.addr + st_elem.len as u64 - 1, &[status]) {
                w.fault("devmem", m);
            }
            qs.complete_len(w, 0, c, 1);
        } else {
            out.push(status);
            qs.complete(w, 0, c, &out);
        }
    }

    pub fn complete_held(&mut self, w: &mut World, qs: &mut Queues, k: usize) {
        if k < self.held.len() {
            let (c, p) = self.held.remove(k);
            self.execute(w, qs, &c, &p);
        }
    }
}

impl Handler for BlkDev {
    fn on_chain(&mut self, w: &mut World, qs: &mut Queues, _q: u16, c: Chain) {
        match self.parse(w, qs, &c) {
            Some(p) => {
                self.seen.push(p.clone());
                if self.hold {
                    self.held.push((c, p));
                } else {
                    self.execute(w, qs, &c, &p);
                }
            }
            None => {
                // malformed: answer UNSUPP so a blocking caller returns
                qs.complete(w, 0, &c, &[2]);
            }
        }
    }
}

struct NbReq {
    token: u16,
    write: bool,
    sector: u64,
    req: Box<BlkReq>,
    buf: Box<[u8]>,
    orig: Vec<u8>,
    resp: Box<BlkResp>,
    seen_index: usize,
    order: u64,
}

fn status_ok(status: u8, r: &Result<(), Error>) -> bool {
    match status {
        0 => r.is_ok(),
        1 => *r == Err(Error::IoError),
        2 => *r == Err(Error::Unsupported),
        _ => r.is_err(),
    }
}

struct Run<'a> {
    c: &'a BCase,
    dev: Shared<BlkDev>,
    st: &'a mut Stats,
}

impl WithT for Run<'_> {
    type Out = Result<(), String>;
    fn call<T: Transport + 'static>(self, t: T) -> Self::Out {
        let Run { c, dev, st } = self;
        macro_rules! g {
            ($what:expr, $e:expr) => {
                match guard(|| $e) {
                    Caught::Ok(r) => r,
                    Caught::Panic(p) => return Err(format!("{}: {}", $what, p.render())),
                    Caught::Escape(Escape::LostWakeup(m)) => return Err(format!("{}: lost wake-up: {}", $what, m)),
                    Caught::Escape(Escape::Starved(m)) => return Err(format!("{}: blocking call never returns: {}", $what, m)),
                    Caught::Escape(e) => return Err(format!("{}: inconclusive {:?}", $what, e)),
                }
            };
        }
        let mut blk = match g!("VirtIOBlk::new", VirtIOBlk::<LHal, T>::new(t)) {
            Ok(b) => b,
            Err(e) => return Err(format!("VirtIOBlk::new failed: {:?}", e)),
        };
        let accepted = world::with(|w| w.dev.accepted);
        let offered = world::with(|w| w.dev.offered);
        if blk.capacity() != c.capacity {
            return Err(format!("capacity() = {:#x}, device configuration says {:#x}", blk.capacity(), c.capacity));
        }
        if blk.readonly() != (offered & F_RO != 0) {
            return Err(format!("readonly() = {} but RO feature offered = {}", blk.readonly(), offered & F_RO != 0));
        }
        let indirect = accepted & drv::F_INDIRECT != 0;
        let per_req = if indirect { 1 } else { 3 };
        let mut nb: Vec<NbReq> = Vec::new();
        let mut order = 0u64;
        let mut disk_model: Vec<u8> = dev.with(|d| d.h.disk.clone());
        let mut expect_status: Option<u8> = None;
        let mut sig = Sig::new();
        sig.add(c.kind as u64).add(accepted);
        let mut ooo = false;
        let mut non_ok = false;
        let check_dev = |dev: &Shared<BlkDev>| -> Result<(), String> {
            if let Some(e) = dev.with(|d| d.h.errors.first().cloned()) {
                return Err(format!("reference block device rejected a request: {}", e));
            }
            if let Some((tag, m)) = drv::fault_text() {
                return Err(format!("[{}] {}", tag, m));
            }
            Ok(())
        };
        // The status the device will report for a request, given the injected status.
        let predict = |inj: Option<u8>, ty: u32, sector: u64, len: usize| -> u8 {
            let in_range = match ty {
                0 | 1 => matches!(sector.checked_mul(512).and_then(|s| s.checked_add(len as u64)), Some(e) if e <= DISK_SECTORS * 512),
                _ => true,
            };
            match inj {
                Some(s) if s != 0 || in_range => s,
                _ if in_range => 0,
                _ => 1,
            }
        };
        let mut all_ops: Vec<BOp> = c.ops.clone();
        if c.repeat > 0 {
            all_ops.push(BOp::NbRead { s: Sect::In(1), n: 1 });
            all_ops.push(BOp::NbWrite { s: Sect::In(2), n: 1, seed: 3 });
            for r in 0..c.repeat {
                all_ops.push(BOp::Complete { pick: 0 });
                all_ops.push(if r % 3 == 0 { BOp::NbWrite { s: Sect::In((r % 60) as u8), n: 1, seed: r as u8 } } else { BOp::NbRead { s: Sect::In((r % 61) as u8), n: 1 } });
            }
        }
        for (i, op) in all_ops.iter().enumerate() {
            let what = format!("op #{} {:?}", i, op);
            world::with(|w| w.spins = 0);
            match op {
                BOp::Policy(p) => {
                    if nb.is_empty() {
                        dev.with(|d| world::with(|w| d.set_policy(w, *p)));
                    }
                }
                BOp::Inject(s) => {
                    if nb.is_empty() {
                        dev.with(|d| d.h.inject = Some(*s));
                        expect_status = Some(*s);
                    }
                }
                BOp::Read { s, n } if nb.is_empty() => {
                    let n = (*n as usize % 8) + 1;
                    let sector = s.get();
                    let mut buf = vec![0xEEu8; n * SECTOR_SIZE];
                    let seen0 = dev.with(|d| d.h.seen.len());
                    let r = g!(what, blk.read_blocks(sector as usize, &mut buf));
                    check_dev(&dev)?;
                    let seen = dev.with(|d| d.h.seen[seen0..].to_vec());
                    if seen.len() != 1 || seen[0].ty != 0 || seen[0].sector != sector || seen[0].data_out_len != buf.len() {
                        return Err(format!("{}: device saw {:?}, expected one IN request for sector {} with {} bytes", what, seen, sector, buf.len()));
                    }
                    let stt = predict(expect_status.take(), 0, sector, buf.len());
                    if !status_ok(stt, &r) {
                        return Err(format!("{}: device status {} but the call returned {:?}", what, stt, r));
                    }
                    if stt == 0 {
                        let want = &disk_model[sector as usize * 512..sector as usize * 512 + buf.len()];
                        if buf != want {
                            return Err(format!("{}: data returned differs from the device's sectors", what));
                        }
                    } else {
                        non_ok = true;
                    }
                    sig.add(1).add(n as u64).add(stt as u64);
                }
                BOp::Write { s, n, seed } if nb.is_empty() => {
                    let n = (*n as usize % 8) + 1;
                    let sector = s.get();
                    let buf: Vec<u8> = (0..n * SECTOR_SIZE).map(|k| (k as u8).wrapping_mul(13) ^ *seed).collect();
                    let seen0 = dev.with(|d| d.h.seen.len());
                    let r = g!(what, blk.write_blocks(sector as usize, &buf));
                    check_dev(&dev)?;
                    let seen = dev.with(|d| d.h.seen[seen0..].to_vec());
                    if seen.len() != 1 || seen[0].ty != 1 || seen[0].sector != sector || seen[0].data_in != buf {
                        return Err(format!(
                            "{}: device saw type {:?} sector {:?} with {} payload bytes (equal to caller's: {}), expected one OUT request for sector {} with {} bytes",
                            what,
                            seen.first().map(|p| p.ty),
                            seen.first().map(|p| p.sector),
                            seen.first().map(|p| p.data_in.len()).unwrap_or(0),
                            seen.first().map(|p| p.data_in == buf).unwrap_or(false),
                            sector,
                            buf.len()
                        ));
                    }
                    let stt = predict(expect_status.take(), 1, sector, buf.len());
                    if !status_ok(stt, &r) {
                        return Err(format!("{}: device status {} but the call returned {:?}", what, stt, r));
                    }
                    if stt == 0 {
                        disk_model[sector as usize * 512..sector as usize * 512 + buf.len()].copy_from_slice(&buf);
                    } else {
                        non_ok = true;
                    }
                    sig.add(2).add(n as u64).add(stt as u64);
                }
                BOp::Flush if nb.is_empty() => {
                    let seen0 = dev.with(|d| d.h.seen.len());
                    let r = g!(what, blk.flush());
                    check_dev(&dev)?;
                    let seen = dev.with(|d| d.h.seen[seen0..].to_vec());
                    if accepted & F_FLUSH != 0 {
                        if seen.len() != 1 || seen[0].ty != 4 {
                            return Err(format!("{}: FLUSH negotiated but device saw {:?}", what, seen));
                        }
                        let stt = predict(expect_status.take(), 4, 0, 0);
                        if !status_ok(stt, &r) {
                            return Err(format!("{}: device status {} but flush returned {:?}", what, stt, r));
                        }
                    } else if !seen.is_empty() || r.is_err() {
                        return Err(format!("{}: FLUSH not negotiated but device saw {:?}, result {:?}", what, seen, r));
                    }
                    sig.add(3);
                }
                BOp::DeviceId if nb.is_empty() => {
                    let mut id = [0xAAu8; 20];
                    let seen0 = dev.with(|d| d.h.seen.len());
                    let r = g!(what, blk.device_id(&mut id));
                    check_dev(&dev)?;
                    let seen = dev.with(|d| d.h.seen[seen0..].to_vec());
                    if seen.len() != 1 || seen[0].ty != 8 {
                        return Err(format!("{}: device saw {:?}, expected one GET_ID request", what, seen));
                    }
                    let stt = predict(expect_status.take(), 8, 0, 0);
                    match (&r, stt) {
                        (Ok(13), 0) => {
                            if &id[..13] != b"vdv-disk-0123" {
                                return Err(format!("{}: id bytes {:?}", what, id));
                            }
                        }
                        (Err(_), s) if s != 0 => non_ok = true,
                        _ => return Err(format!("{}: status {} but device_id returned {:?}", what, stt, r)),
                    }
                    sig.add(4);
                }
                BOp::NbRead { s, n } | BOp::NbWrite { s, n, .. } => {
                    let write = matches!(op, BOp::NbWrite { .. });
                    let seed = if let BOp::NbWrite { seed, .. } = op { *seed } else { 0 };
                    let n = (*n as usize % 8) + 1;
                    let sector = s.get();
                    dev.with(|d| d.h.hold = true);
                    let mut req = Box::new(BlkReq::default());
                    let mut resp = Box::new(BlkResp::default());
                    let mut buf: Box<[u8]> =
                        if write { (0..n * SECTOR_SIZE).map(|k| (k as u8).wrapping_mul(17) ^ seed).collect() } else { vec![0xEEu8; n * SECTOR_SIZE].into_boxed_slice() };
                    let orig = buf.to_vec();
                    // How many descriptors a request takes is the implementation's choice (one with
                    // an indirect table, up to three without; it may also decline to use a table it
                    // negotiated). The property only says a queue-full of requests can be
                    // outstanding: it must fit while three more descriptors are certainly free, and
                    // cannot fit once every descriptor carries a request. In between, both answers
                    // are right; what the queue itself must answer is C03's business.
                    let _ = per_req;
                    let must_fit = (nb.len() + 1) * 3 <= 16;
                    let cannot_fit = nb.len() >= 16;
                    let seen0 = dev.with(|d| d.h.seen.len());
                    let r = g!(what, unsafe {
                        if write {
                            blk.write_blocks_nb(sector as usize, &mut req, &buf, &mut resp)
                        } else {
                            blk.read_blocks_nb(sector as usize, &mut req, &mut buf, &mut resp)
                        }
                    });
                    match r {
                        Ok(token) => {
                            if cannot_fit {
                                return Err(format!("{}: accepted although the queue is full ({} outstanding)", what, nb.len()));
                            }
                            // give a late / polling device the turns it needs to pick the request up
                            for _ in 0..6 {
                                dev.turn_spin();
                            }
                            check_dev(&dev)?;
                            let seen = dev.with(|d| d.h.seen.len());
                            if seen != seen0 + 1 {
                                return Err(format!("{}: request submitted but the device saw {} new requests (was it notified?)", what, seen - seen0));
                            }
                            order += 1;
                            nb.push(NbReq { token, write, sector, req, buf, orig, resp, seen_index: seen0, order });
                        }
                        Err(Error::QueueFull) if !must_fit => {}
                        Err(e) => return Err(format!("{}: returned {:?} with {} requests outstanding", what, e, nb.len())),
                    }
                    sig.add(5 + write as u64).add(nb.len() as u64);
                }
                BOp::Complete { pick } => {
                    if nb.is_empty() {
                        continue;
                    }
                    let nheld = dev.with(|d| d.h.held.len());
                    if nheld == 0 {
                        continue;
                    }
                    let k = (*pick as usize * nheld) >> 16;
                    // which request is that? the k-th held corresponds to arrival order
                    let parsed = dev.with(|d| d.h.held[k].1.clone());
                    let inj = expect_status.take();
                    dev.with(|d| world::with(|w| {
                        let d = &mut *d;
                        d.h.complete_held(w, &mut d.qs, k)
                    }));
                    check_dev(&dev)?;
                    let tok = g!(what, blk.peek_used());
                    let Some(tok) = tok else {
                        return Err(format!("{}: device completed a request but peek_used() is None", what));
                    };
                    let Some(pos) = nb.iter().position(|r| r.token == tok) else {
                        return Err(format!("{}: peek_used() = {} which is not an outstanding request", what, tok));
                    };
                    // Half of the time the caller first tries to complete a request that is *not* the
                    // one at the front of the used ring (it has not completed yet, or another
                    // completion is ahead of it): that must fail and change nothing -- in particular
                    // the request stays posted, so the driver must not touch its buffers (the ledger
                    // reports a store into a device-writable buffer that is still shared).
                    if pick & 1 == 1 && nb.len() > 1 {
                        let o = (pos + 1 + (*pick as usize >> 1) % (nb.len() - 1)) % nb.len();
                        if o != pos {
                            let other = &mut nb[o];
                            let otok = other.token;
                            let res = g!(what, unsafe {
                                if other.write {
                                    blk.complete_write_blocks(otok, &other.req, &other.buf, &mut other.resp)
                                } else {
                                    blk.complete_read_blocks(otok, &other.req, &mut other.buf, &mut other.resp)
                                }
                            });
                            check_dev(&dev)?;
                            if res.is_ok() {
                                return Err(format!("{}: completing token {} succeeded although the completion at the front of the used ring is token {}", what, otok, tok));
                            }
                            st.class("blk_complete_attempt_for_request_not_at_front");
                        }
                    }
                    let mut r = nb.remove(pos);
                    if nb.iter().any(|o| o.order < r.order) {
                        ooo = true;
                    }
                    // the completed one must be the request the device executed
                    let dev_saw = dev.with(|d| d.h.seen[r.seen_index].clone());
                    if dev_saw.sector != parsed.sector || dev_saw.ty != parsed.ty || dev_saw.sector != r.sector {
                        return Err(format!("{}: completion token {} belongs to the request for sector {}, but the device completed sector {}", what, tok, r.sector, parsed.sector));
                    }
                    let res = g!(what, unsafe {
                        if r.write {
                            blk.complete_write_blocks(tok, &r.req, &r.buf, &mut r.resp)
                        } else {
                            blk.complete_read_blocks(tok, &r.req, &mut r.buf, &mut r.resp)
                        }
                    });
                    check_dev(&dev)?;
                    let stt = predict(inj, if r.write { 1 } else { 0 }, r.sector, r.buf.len());
                    if !status_ok(stt, &res) {
                        return Err(format!("{}: device status {} for sector {} but completion returned {:?}", what, stt, r.sector, res));
                    }
                    if stt != 0 {
                        non_ok = true;
                    }
                    if r.write {
                        if dev_saw.data_in != r.orig {
                            return Err(format!("{}: payload received by the device differs from the caller's buffer", what));
                        }
                        if stt == 0 {
                            let s = r.sector as usize * 512;
                            disk_model[s..s + r.buf.len()].copy_from_slice(&r.orig);
                        }
                    } else if stt == 0 {
                        let s = r.sector as usize * 512;
                        if r.buf[..] != disk_model[s..s + r.buf.len()] {
                            return Err(format!("{}: completion for sector {} returned another request's data", what, r.sector));
                        }
                    }
                    if nb.is_empty() {
                        dev.with(|d| d.h.hold = false);
                    }
                    sig.add(7).add(k as u64);
                }
                _ => {}
            }
        }
        // drain
        while !nb.is_empty() {
            dev.with(|d| world::with(|w| {
                let d = &mut *d;
                d.h.complete_held(w, &mut d.qs, 0)
            }));
            let tok = g!("drain", blk.peek_used());
            let Some(tok) = tok else { return Err("drain: device completed a request but peek_used() is None".into()) };
            let Some(pos) = nb.iter().position(|r| r.token == tok) else { return Err(format!("drain: unknown token {}", tok)) };
            let mut r = nb.remove(pos);
            let _ = g!("drain", unsafe {
                if r.write {
                    blk.complete_write_blocks(tok, &r.req, &r.buf, &mut r.resp)
                } else {
                    blk.complete_read_blocks(tok, &r.req, &mut r.buf, &mut r.resp)
                }
            });
            let inj = expect_status.take();
            if r.write && predict(inj, 1, r.sector, r.buf.len()) == 0 {
                let s = r.sector as usize * 512;
                disk_model[s..s + r.buf.len()].copy_from_slice(&r.orig);
            }
        }
        check_dev(&dev)?;
        let disk_now = dev.with(|d| d.h.disk.clone());
        if disk_now != disk_model {
            let sct = disk_now.iter().zip(disk_model.iter()).position(|(a, b)| a != b).unwrap() / 512;
            return Err(format!("device disk differs from the model at sector {}: writes changed other sectors or were lost", sct));
        }
        g!("drop", drop(blk));
        check_dev(&dev)?;
        let live = world::with(|w| (w.hal.live_dma_count(), w.hal.live_share_count()));
        if live != (0, 0) {
            return Err(format!("after drop: {} DMA regions and {} shares still live", live.0, live.1));
        }
        if ooo {
            st.class("out_of_order_completion");
        }
        if non_ok {
            st.class("non_ok_status");
        }
        if ooo || non_ok {
            st.nontrivial(sig.get(), || json!({"kind": c.kind, "offered": c.offered, "policy": c.policy, "ops": c.ops.iter().take(30).collect::<Vec<_>>()}));
        }
        Ok(())
    }
}

pub fn check(c: &BCase, st: &mut Stats) -> Result<(), String> {
    let mut cfg = vec![0u8; 64];
    cfg[..8].copy_from_slice(&c.capacity.to_le_bytes());
    drv::setup_world(c.kind, c.offered, cfg, 256);
    let dev = Shared::install(SimDev::new(1, c.policy, BlkDev::new()));
    with_transport(c.kind, 2, 64, Run { c, dev, st })?
}

fn sect() -> impl Strategy<Value = Sect> {
    prop_oneof![6 => any::<u8>().prop_map(Sect::In), 2 => any::<u8>().prop_map(Sect::Edge), 1 => any::<u64>().prop_map(Sect::Huge)]
}

fn op() -> impl Strategy<Value = BOp> {
    prop_oneof![
        4 => (sect(), any::<u8>()).prop_map(|(s, n)| BOp::Read { s, n }),
        4 => (sect(), any::<u8>(), any::<u8>()).prop_map(|(s, n, seed)| BOp::Write { s, n, seed }),
        1 => Just(BOp::Flush),
        1 => Just(BOp::DeviceId),
        4 => (sect(), any::<u8>()).prop_map(|(s, n)| BOp::NbRead { s, n }),
        4 => (sect(), any::<u8>(), any::<u8>()).prop_map(|(s, n, seed)| BOp::NbWrite { s, n, seed }),
        7 => any::<u16>().prop_map(|pick| BOp::Complete { pick }),
        2 => prop_oneof![Just(0u8), Just(1), Just(2), Just(3), any::<u8>()].prop_map(BOp::Inject),
        1 => drv::serve_strategy().prop_map(BOp::Policy),
    ]
}

pub fn strategy() -> impl Strategy<Value = BCase> {
    (drv::tk_strategy(), drv::feature_strategy(&[F_RO, F_FLUSH]), prop_oneof![Just(DISK_SECTORS), any::<u64>()], drv::serve_strategy(), prop::collection::vec(op(), 0..50))
        .prop_map(|(kind, offered, capacity, policy, ops)| BCase { kind, offered: offered | if kind.legacy() { 0 } else { offered & F_VERSION_1 }, capacity, policy, ops, repeat: 0 })
}

pub fn replay(e: &str, case: &serde_json::Value) -> Result<(), String> {
    if e == "capacity" {
        return crate::props::c13::replay(e, case);
    }
    check(&serde_json::from_value(case.clone()).map_err(|e| e.to_string())?, &mut Stats::default())
}

pub fn run(ctx: &Ctx) -> Report {
    // capacity() equals a capacity the device exposed, whenever the device changes it while the
    // driver is reading its two halves (update schedules shared with C13)
    let (mut stats, mut failure) = crate::runner::run_items(ctx, "capacity", crate::props::c13::torn_items(crate::props::c13::Drv::Blk, ctx.quick()), |it, st| {
        let r = crate::props::c13::run_item(it, st);
        if r.is_ok() {
            st.class("capacity_read_under_config_updates");
        }
        r
    });
    if failure.is_none() {
        // more than 65536 requests with two in flight all the time (index wrap while pipelined)
        let items: Vec<BCase> = [(TK::Model, 1u64 << 32), (TK::MmioModern, 1 << 32 | 1 << 28), (TK::Model, 1 << 32 | 1 << 29)]
            .into_iter()
            .map(|(kind, offered)| BCase { kind, offered, capacity: 64, policy: Serve::OnNotify, ops: vec![], repeat: 66_000 })
            .collect();
        let (st, f) = crate::runner::run_items(ctx, "blk", items, |c: &BCase, st| {
            let r = check(c, st);
            if r.is_ok() {
                st.class("pipelined_run_of_more_than_65536_requests");
            }
            r
        });
        stats.merge(st);
        failure = f;
    }
    if failure.is_none() {
        let (st, f) = run_proptest(ctx, "blk", 141, ctx.n(300_000, 12_000_000), strategy, |c: &BCase, st| check(c, st));
        stats.merge(st);
        failure = f;
    }
    Report {
        stats,
        failure,
        info: PartInfo {
            level: "exploration",
            rule: "proptest histories over read_blocks/write_blocks (1..8 sectors), flush, device_id, read_blocks_nb/write_blocks_nb/peek_used/complete_* with up to a queue-full outstanding and device-chosen completion order; sectors inside, at the edge of and far beyond a 64-sector reference disk; injected statuses 0/1/2/3/other; features +-RO +-FLUSH +-INDIRECT +-EVENT_IDX +-VERSION_1; on the model transport, real MMIO (legacy/modern) and real PCI; device servicing policies OnNotify/Poll/Late. The reference block device parses every chain against virtio-blk 5.2 (header, data direction and size, 1-byte status), a model disk is compared with the device disk at the end; plus deterministic runs of > 65536 non-blocking requests with two in flight all the time (index wrap while pipelined). capacity() is also read while the device changes its configuration before every single configuration access and every pair of accesses of the constructor (must equal one exposed value). Non-trivial = >=2 outstanding non-blocking requests completed out of order, or a non-OK status; distinct = (transport, accepted features, op kinds/sizes/outcomes).",
            assumptions: vec!["blocking calls are generated only while nothing non-blocking is outstanding (documented precondition of add_notify_wait_pop)".into()],
            exhaustive: false,
            extra: json!({}),
        },
    }
}
