//! C15: console bytes are delivered exactly once and in order in both directions.

use crate::devq::{Handler, Queues, Serve, Shared, SimDev};
use crate::hal::LHal;
use crate::props::drv;
use crate::ring::Chain;
use crate::runner::{guard, run_proptest, Caught, Ctx, PartInfo, Report, Sig, Stats};
use crate::tkind::{with_transport, WithT, TK};
use crate::world::{self, Escape, World};
use embedded_io::{BufRead, Read, ReadReady, Write};
use proptest::prelude::*;
use serde::{Deserialize, Serialize};
use serde_json::json;
use std::collections::VecDeque;
use virtio_drivers::device::console::VirtIOConsole;
use virtio_drivers::transport::Transport;

const F_SIZE: u64 = 1;
const F_EMERG: u64 = 4;

#[derive(Clone, Debug, Serialize, Deserialize, PartialEq)]
pub enum KOp {
    Recv(bool),
    Read(u16),
    FillConsume(u16),
    /// embedded_io::Read::read_exact of 1..=n bytes, issued only while that many bytes have been
    /// delivered and not yet consumed (so it never blocks)
    ReadExact(u16),
    ReadReady,
    AckInt(u8),
    Send(u8),
    SendBytes(u16),
    Write(u16),
    /// text through core::fmt::Write: 0 = write_str, 1 = write_char per character, 2 = write! with
    /// arguments and a fill character, 3 = write! of several pieces one of which is 63..5000 bytes long; the characters are derived from the seed and include
    /// U+0080..U+00FF and multi-byte code points
    Fmt(u8, u16),
    /// the device fills the posted buffer with its next chunk, if a buffer is posted
    Deliver,
    Policy(Serve),
    Size,
    Emerg(u8),
    /// Text through core::fmt::Write (as `Fmt`) while the device answers the transmit with a used
    /// element that names a descriptor head the driver did not submit, so the blocking send fails.
    /// The outcome of the call is not judged (the device misbehaves); what is judged is C08's
    /// clause that the `emerg_wr` configuration field is touched only when EMERG_WRITE was
    /// negotiated. Ends the history: the queue state after a bogus completion is unspecified.
    FmtFail(u8, u16),
}

#[derive(Clone, Debug, Serialize, Deserialize)]
pub struct KCase {
    pub kind: TK,
    pub offered: u64,
    pub policy: Serve,
    pub chunks: Vec<u16>,
    pub ops: Vec<KOp>,
}

fn pad_left(s: &str, width: usize, fill: char) -> String {
    let n = s.chars().count();
    let mut out = String::new();
    for _ in n..width {
        out.push(fill);
    }
    out.push_str(s);
    out
}

/// `write!` with a run-time fill character (format strings need it at compile time): the padding
/// goes through `write_char`, like the formatting machinery does for a fill.
fn write_padded<W: core::fmt::Write>(w: &mut W, first: char, text: &str, v: u16, fill: char) -> core::fmt::Result {
    write!(w, "{}{}|", first, text)?;
    let digits = v.to_string();
    for _ in digits.chars().count()..6 {
        w.write_char(fill)?;
    }
    write!(w, "{}", digits)
}

fn spat(i: u64) -> u8 {
    (i as u8).wrapping_mul(151) ^ ((i >> 8) as u8).wrapping_mul(37) ^ 0x9c
}

pub struct ConsoleDev {
    pub chunks: VecDeque<u16>,
    pub rx: Option<Chain>,
    pub delivered_total: u64,
    /// chunks the device may deliver on its own turns (used while a blocking read waits)
    pub feed_on_turn: u32,
    pub unpopped: bool,
    /// (delivered_total at the moment an rx buffer was posted)
    pub postings: Vec<u64>,
    pub tx: Vec<Vec<u8>>,
    pub errors: Vec<String>,
    /// answer the next transmit chain with a used element naming another head (misbehaving device)
    pub bad_tx: bool,
}

impl ConsoleDev {
    fn deliver(&mut self, w: &mut World, qs: &mut Queues) -> bool {
        let Some(c) = self.rx.as_ref() else { return false };
        let Some(len) = self.chunks.front().copied() else { return false };
        let cap = c.writable_len();
        let n = (len.max(1) as usize).min(cap);
        let data: Vec<u8> = (0..n as u64).map(|i| spat(self.delivered_total + i)).collect();
        let c = self.rx.take().unwrap();
        self.chunks.pop_front();
        if std::env::var("VDV_DEBUG").is_ok() {
            eprintln!("deliver {} bytes into head {} (delivered_total {})", n, c.head, self.delivered_total);
        }
        qs.complete(w, 0, &c, &data);
        self.delivered_total += n as u64;
        self.unpopped = true;
        true
    }
}

impl Handler for ConsoleDev {
    fn on_chain(&mut self, w: &mut World, qs: &mut Queues, q: u16, c: Chain) {
        match q {
            0 => {
                if self.rx.is_some() {
                    self.errors.push("a second receive buffer was posted while one is still outstanding".into());
                }
                if c.readable_len() != 0 || c.writable_len() == 0 {
                    self.errors.push(format!("receive buffer chain must be device-writable only: {:?}", c.elems));
                }
                self.postings.push(self.delivered_total);
                if std::env::var("VDV_DEBUG").is_ok() {
                    eprintln!("rx buffer posted head {} cap {}", c.head, c.writable_len());
                }
                self.rx = Some(c);
            }
            1 => {
                if c.writable_len() != 0 || c.elems.len() != 1 {
                    self.errors.push(format!("transmit must be one device-readable buffer: {:?}", c.elems));
                }
                let d = qs.read(w, 1, &c);
                if self.bad_tx {
                    self.bad_tx = false;
                    let mut bogus = c.clone();
                    bogus.head ^= 1;
                    qs.complete_len(w, 1, &bogus, 0);
                    return;
                }
                self.tx.push(d);
                qs.complete_len(w, 1, &c, 0);
            }
            _ => self.errors.push(format!("chain on unexpected queue {}", q)),
        }
    }
    fn on_turn(&mut self, w: &mut World, qs: &mut Queues) -> bool {
        if self.feed_on_turn > 0 && self.rx.is_some() && !self.chunks.is_empty() {
            self.feed_on_turn -= 1;
            return self.deliver(w, qs);
        }
        false
    }
}

struct Run<'a> {
    c: &'a KCase,
    dev: Shared<ConsoleDev>,
    st: &'a mut Stats,
}

impl WithT for Run<'_> {
    type Out = Result<(), String>;
    fn call<T: Transport + 'static>(self, t: T) -> Self::Out {
        let Run { c, dev, st } = self;
        macro_rules! g {
            ($what:expr, $e:expr) => {
                match guard(|| $e) {
                    Caught::Ok(r) => r,
                    Caught::Panic(p) => return Err(format!("{}: {}", $what, p.render())),
                    Caught::Escape(Escape::LostWakeup(m)) => return Err(format!("{}: lost wake-up: {}", $what, m)),
                    Caught::Escape(Escape::Starved(m)) => return Err(format!("{}: blocking call never returns although the device delivered data: {}", $what, m)),
                    Caught::Escape(e) => return Err(format!("{}: inconclusive {:?}", $what, e)),
                }
            };
        }
        let mut con = match g!("VirtIOConsole::new", VirtIOConsole::<LHal, T>::new(t)) {
            Ok(b) => b,
            Err(e) => return Err(format!("VirtIOConsole::new failed: {:?}", e)),
        };
        let accepted = world::with(|w| w.dev.accepted);
        // model: bytes delivered by the device and not yet returned by the API
        let mut pending: VecDeque<u8> = VecDeque::new();
        let mut consumed: u64 = 0;
        let mut synced: u64 = 0; // delivered bytes already moved into `pending`
        let mut tx_model: Vec<Vec<u8>> = Vec::new();
        let mut fmt_used = false;
        let mut sig = Sig::new();
        sig.add(c.kind as u64).add(accepted);
        let (mut partial, mut peek_after_partial, mut later_chunk) = (false, false, false);
        let mut tx_seed = 0u8;
        for (i, op) in c.ops.iter().enumerate() {
            let what = format!("op #{} {:?}", i, op);
            world::with(|w| w.spins = 0);
            let consumed_before = consumed;
            let postings_before = dev.with(|d| d.h.postings.len());
            let ev_before = world::with(|w| w.dev.ev.len());
            // move newly delivered bytes into the model (they become visible to any API call)
            let sync = |pending: &mut VecDeque<u8>, synced: &mut u64| {
                let total = dev.with(|d| d.h.delivered_total);
                while *synced < total {
                    pending.push_back(spat(*synced));
                    *synced += 1;
                }
            };
            let mut extra_before_post = 0u64;
            match op {
                KOp::Policy(p) => dev.with(|d| world::with(|w| d.set_policy(w, *p))),
                KOp::Deliver => {
                    // the device acts between driver calls (gives a Late/Poll device its turns first)
                    for _ in 0..5 {
                        dev.turn_spin();
                    }
                    let did = dev.with(|d| world::with(|w| {
                        let d = &mut *d;
                        d.h.deliver(w, &mut d.qs)
                    }));
                    if did && partial {
                        later_chunk = true;
                    }
                }
                KOp::Recv(pop) => {
                    let r = g!(what, con.recv(*pop));
                    sync(&mut pending, &mut synced);
                    dev.with(|d| d.h.unpopped = false);
                    let want = pending.front().copied();
                    match r {
                        Ok(got) if got == want => {}
                        other => return Err(format!("{}: returned {:?}, next undelivered byte of the stream is {:?}", what, other, want)),
                    }
                    if want.is_some() {
                        if *pop {
                            pending.pop_front();
                            consumed += 1;
                            extra_before_post = 1;
                        } else if partial {
                            peek_after_partial = true;
                        }
                    }
                    sig.add(1 + *pop as u64);
                }
                KOp::ReadExact(n) => {
                    sync(&mut pending, &mut synced);
                    if pending.is_empty() {
                        continue;
                    }
                    let k = 1 + (*n as usize % pending.len());
                    let mut buf = vec![0u8; k];
                    let r = g!(what, embedded_io::Read::read_exact(&mut con, &mut buf));
                    sync(&mut pending, &mut synced);
                    dev.with(|d| d.h.unpopped = false);
                    if r.is_err() {
                        return Err(format!("{}: read_exact({}) failed with {:?} although {} bytes were available", what, k, r.err(), pending.len()));
                    }
                    for (j, b) in buf.iter().enumerate() {
                        let want = pending.pop_front().unwrap();
                        if *b != want {
                            return Err(format!("{}: byte {} of the result is {:#x}, the stream has {:#x} (stream offset {})", what, j, b, want, consumed + j as u64));
                        }
                    }
                    consumed += k as u64;
                    if !pending.is_empty() {
                        partial = true;
                    }
                    sig.add(12).add(k.min(9) as u64);
                }
                KOp::Read(n) | KOp::FillConsume(n) => {
                    sync(&mut pending, &mut synced);
                    let will_block = pending.is_empty();
                    if will_block {
                        let can = dev.with(|d| !d.h.chunks.is_empty());
                        if !can || (matches!(op, KOp::Read(0))) {
                            if matches!(op, KOp::Read(0)) {
                                let mut b = [0u8; 0];
                                let r = g!(what, con.read(&mut b));
                                if r != Ok(0) {
                                    return Err(format!("{}: read of an empty buffer returned {:?}", what, r));
                                }
                            } else {
                                st.class("blocking_read_not_issued_stream_exhausted");
                            }
                            continue;
                        }
                        dev.with(|d| d.h.feed_on_turn = 1);
                    }
                    if let KOp::Read(n) = op {
                        let mut buf = vec![0u8; *n as usize];
                        let r = g!(what, con.read(&mut buf));
                        sync(&mut pending, &mut synced);
                        if *n != 0 {
                            dev.with(|d| d.h.unpopped = false);
                        }
                        let k = match r {
                            Ok(k) => k,
                            Err(e) => return Err(format!("{}: failed with {:?}", what, e)),
                        };
                        if *n == 0 {
                            if k != 0 {
                                return Err(format!("{}: returned {} bytes for an empty buffer", what, k));
                            }
                        } else {
                            if k == 0 || k > *n as usize || k > pending.len() {
                                return Err(format!("{}: returned {} bytes with {} delivered and unconsumed", what, k, pending.len()));
                            }
                            for (j, b) in buf[..k].iter().enumerate() {
                                let want = pending.pop_front().unwrap();
                                if *b != want {
                                    return Err(format!("{}: byte {} of the result is {:#x}, the stream has {:#x} (stream offset {})", what, j, b, want, consumed + j as u64));
                                }
                            }
                            consumed += k as u64;
                            if !pending.is_empty() {
                                partial = true;
                            }
                        }
                        sig.add(3).add((k.min(9)) as u64);
                    } else {
                        let got: Vec<u8> = match g!(what, con.fill_buf().map(|s| s.to_vec())) {
                            Ok(v) => v,
                            Err(e) => return Err(format!("{}: fill_buf failed with {:?}", what, e)),
                        };
                        sync(&mut pending, &mut synced);
                        dev.with(|d| d.h.unpopped = false);
                        if got.is_empty() || got.len() > pending.len() || got.iter().zip(pending.iter()).any(|(a, b)| a != b) {
                            return Err(format!("{}: fill_buf returned {} bytes that are not the next bytes of the stream ({} delivered and unconsumed)", what, got.len(), pending.len()));
                        }
                        let k = (*n as usize * (got.len() + 1)) >> 16;
                        g!(what, con.consume(k));
                        for _ in 0..k {
                            pending.pop_front();
                        }
                        consumed += k as u64;
                        if k < got.len() {
                            partial = true;
                        }
                        sig.add(4).add(k.min(9) as u64);
                    }
                    dev.with(|d| d.h.feed_on_turn = 0);
                }
                KOp::ReadReady => {
                    let r = g!(what, con.read_ready());
                    sync(&mut pending, &mut synced);
                    dev.with(|d| d.h.unpopped = false);
                    if r != Ok(!pending.is_empty()) {
                        return Err(format!("{}: returned {:?} with {} bytes delivered and unconsumed", what, r, pending.len()));
                    }
                    sig.add(5);
                }
                KOp::AckInt(isr) => {
                    let unpopped = dev.with(|d| d.h.unpopped);
                    world::with(|w| w.dev.isr = (*isr & 3) as u32);
                    let r = g!(what, con.ack_interrupt());
                    // documented: "returns true if new data has been received". With the queue
                    // interrupt pending and a completed buffer waiting it must say so; it may never
                    // claim data that is not there; whether it also looks at the ring when the
                    // interrupt bit is clear is the implementation's choice.
                    let must = isr & 1 != 0 && unpopped;
                    let ok = match r {
                        Ok(true) => unpopped,
                        Ok(false) => !must,
                        Err(_) => false,
                    };
                    if !ok {
                        return Err(format!("{}: returned {:?}; queue interrupt pending: {}, completed receive buffer waiting: {}", what, r, isr & 1 != 0, unpopped));
                    }
                    if r == Ok(true) {
                        dev.with(|d| d.h.unpopped = false);
                    }
                    sync(&mut pending, &mut synced);
                    sig.add(6).add(*isr as u64 & 3);
                }
                KOp::Send(b) => {
                    let r = g!(what, con.send(*b));
                    if r.is_err() {
                        return Err(format!("{}: {:?}", what, r));
                    }
                    tx_model.push(vec![*b]);
                }
                KOp::SendBytes(n) | KOp::Write(n) => {
                    tx_seed = tx_seed.wrapping_add(29);
                    let data: Vec<u8> = (0..(*n as usize % 5000)).map(|k| (k as u8) ^ tx_seed).collect();
                    if let KOp::Write(_) = op {
                        let r = g!(what, con.write(&data));
                        if r != Ok(data.len()) {
                            return Err(format!("{}: returned {:?} for {} bytes", what, r, data.len()));
                        }
                        if !data.is_empty() {
                            tx_model.push(data);
                        }
                    } else {
                        if data.is_empty() {
                            continue; // send_bytes documents nothing for empty input; add() asserts non-empty buffers
                        }
                        let r = g!(what, con.send_bytes(&data));
                        if r.is_err() {
                            return Err(format!("{}: {:?}", what, r));
                        }
                        tx_model.push(data);
                    }
                    sig.add(7);
                }
                KOp::Fmt(how, seed) => {
                    let pool = ['a', 'Z', '0', ' ', '\u{7f}', '\u{80}', '\u{a9}', '\u{e9}', '\u{ff}', '\u{100}', '\u{7ff}', '\u{800}', '\u{20ac}', '\u{ffff}', '\u{1f600}', '\n'];
                    let len = 1 + (*seed as usize % 7);
                    let text: String = (0..len).map(|k| pool[(*seed as usize / 7 + k * 5 + (*seed as usize >> 9)) % pool.len()]).collect();
                    let fill = pool[(*seed as usize >> 5) % pool.len()];
                    let mut want: Vec<u8> = Vec::new();
                    let r = match how % 4 {
                        0 => {
                            want.extend(text.as_bytes());
                            g!(what, core::fmt::Write::write_str(&mut con, &text))
                        }
                        3 => {
                            // one message of several pieces, one of them long (around typical
                            // staging-buffer sizes): "<short literal><short arg><long arg><number>"
                            let lens = [63usize, 64, 127, 128, 129, 255, 256, 257, 300, 511, 512, 513, 1000, 4095, 4096, 4097, 5000];
                            let n = lens[(*seed as usize >> 3) % lens.len()];
                            let long: String = (0..n).map(|k| (b'a' + ((k + *seed as usize) % 26) as u8) as char).collect();
                            let expect = format!("cmdline[{}]: {} #{}\n", text, long, *seed);
                            want.extend(expect.as_bytes());
                            g!(what, core::fmt::Write::write_fmt(&mut con, format_args!("cmdline[{}]: {} #{}\n", text, long, *seed)))
                        }
                        1 => {
                            want.extend(text.as_bytes());
                            let mut r = Ok(());
                            for c in text.chars() {
                                r = g!(what, core::fmt::Write::write_char(&mut con, c));
                                if r.is_err() {
                                    break;
                                }
                            }
                            r
                        }
                        _ => {
                            // "{}" with a char and a &str argument, an integer padded with the fill character
                            let first = text.chars().next().unwrap();
                            let expect = match fill {
                                '\n' => format!("{}{}|{:>6}", first, text, *seed),
                                _ => format!("{}{}|{}", first, text, pad_left(&seed.to_string(), 6, fill)),
                            };
                            want.extend(expect.as_bytes());
                            if fill == '\n' {
                                g!(what, core::fmt::Write::write_fmt(&mut con, format_args!("{}{}|{:>6}", first, text, *seed)))
                            } else {
                                g!(what, write_padded(&mut con, first, &text, *seed, fill))
                            }
                        }
                    };
                    if r.is_err() {
                        return Err(format!("{}: returned {:?}", what, r));
                    }
                    fmt_used = true;
                    tx_model.push(want);
                    sig.add(11);
                }
                KOp::FmtFail(how, seed) => {
                    let pool = ['a', 'Z', '0', ' ', '\u{7f}', '\u{a9}', '\u{20ac}', '\n'];
                    let len = 1 + (*seed as usize % 7);
                    let text: String = (0..len).map(|k| pool[(*seed as usize / 7 + k * 5) % pool.len()]).collect();
                    dev.with(|d| d.h.bad_tx = true);
                    // any result, a clean panic or a wait that never ends is the device's doing
                    let outcome = guard(|| match how % 2 {
                        0 => core::fmt::Write::write_str(&mut con, &text),
                        _ => core::fmt::Write::write_fmt(&mut con, format_args!("{}:{}", text, *seed)),
                    });
                    let wrote: Vec<_> = world::with(|w| w.dev.ev[ev_before..].iter().filter_map(|e| if let crate::dev::Ev::CfgWrite { off, val } = e { Some((*off, val.clone())) } else { None }).collect());
                    let verdict = if accepted & F_EMERG == 0 && !wrote.is_empty() {
                        Err(format!("{}: the transmit failed (device completed a chain that was not submitted) and the driver wrote configuration space {:x?} although EMERG_WRITE was not negotiated", what, wrote))
                    } else {
                        Ok(())
                    };
                    st.class("console_fmt_with_failing_transmit");
                    if matches!(outcome, Caught::Ok(Err(_))) {
                        st.class("console_fmt_with_failing_transmit_reported_error");
                    }
                    // the rest of the history is not judged: tear down quietly
                    let _ = guard(move || drop(con));
                    let _ = world::take_faults();
                    return verdict;
                }
                KOp::Size => {
                    let r = g!(what, con.size());
                    let want = if accepted & F_SIZE != 0 { Some((0x50u16, 0x19u16)) } else { None };
                    match r {
                        Ok(s) if s.map(|s| (s.columns, s.rows)) == want => {}
                        other => return Err(format!("{}: returned {:?}, expected {:?} (SIZE negotiated: {})", what, other.map(|s| s.map(|s| (s.columns, s.rows))), want, accepted & F_SIZE != 0)),
                    }
                }
                KOp::Emerg(b) => {
                    let ev0 = world::with(|w| w.dev.ev.len());
                    let r = g!(what, con.emergency_write(*b));
                    let wrote: Vec<_> = world::with(|w| w.dev.ev[ev0..].iter().filter_map(|e| if let crate::dev::Ev::CfgWrite { off, val } = e { Some((*off, val.clone())) } else { None }).collect());
                    if accepted & F_EMERG != 0 {
                        if r.is_err() || wrote != vec![(8usize, vec![*b, 0, 0, 0])] {
                            return Err(format!("{}: EMERG_WRITE negotiated; result {:?}, config writes {:?}", what, r, wrote));
                        }
                    } else if r != Err(virtio_drivers::Error::Unsupported) || !wrote.is_empty() {
                        return Err(format!("{}: EMERG_WRITE not negotiated; result {:?}, config writes {:?}", what, r, wrote));
                    }
                }
            }
            // device-side invariants
            if let Some(e) = dev.with(|d| d.h.errors.first().cloned()) {
                return Err(format!("{}: {}", what, e));
            }
            if let Some((tag, m)) = drv::fault_text() {
                return Err(format!("{}: [{}] {}", what, tag, m));
            }
            // configuration space is written by exactly one operation of this driver, the
            // emergency write, and only when its feature was negotiated (C08)
            if accepted & F_EMERG == 0 {
                let wrote: Vec<_> = world::with(|w| w.dev.ev[ev_before..].iter().filter_map(|e| if let crate::dev::Ev::CfgWrite { off, val } = e { Some((*off, val.clone())) } else { None }).collect());
                if !wrote.is_empty() {
                    return Err(format!("{}: configuration space written {:x?} although EMERG_WRITE was not negotiated", what, wrote));
                }
            }
            let new_posts: Vec<u64> = dev.with(|d| d.h.postings[postings_before..].to_vec());
            // A buffer posted during this call is judged when the call returns: everything the
            // device had delivered before the posting must have been handed to the caller by then
            // (a call may drain the buffer and re-post it at once, or leave that to the next call).
            // Re-posting before the bytes are copied out is caught by the stream comparison: posted
            // buffers are overwritten with the ledger's fill byte.
            let _ = (consumed_before, extra_before_post);
            for p in new_posts {
                if p > consumed {
                    return Err(format!(
                        "{}: a receive buffer was re-posted while {} received bytes had not been consumed yet",
                        what,
                        p - consumed
                    ));
                }
            }
            let tx_seen = dev.with(|d| d.h.tx.clone());
            // formatted output may reach the queue in any chunking: compare the byte stream
            let same = if fmt_used { tx_seen.concat() == tx_model.concat() } else { tx_seen == tx_model };
            if !same {
                return Err(format!("{}: transmit queue carried {} chains, expected {}; last seen {:x?}", what, tx_seen.len(), tx_model.len(), tx_seen.last().map(|v| v.iter().take(8).collect::<Vec<_>>())));
            }
        }
        g!("drop", drop(con));
        if let Some((tag, m)) = drv::fault_text() {
            return Err(format!("drop: [{}] {}", tag, m));
        }
        let live = world::with(|w| (w.hal.live_dma_count(), w.hal.live_share_count()));
        if live.0 != 0 {
            return Err(format!("after drop: {} DMA regions still live", live.0));
        }
        st.class_n("bytes_consumed", consumed);
        if partial && peek_after_partial && later_chunk {
            st.nontrivial(sig.get(), || json!({"kind": c.kind, "policy": c.policy, "chunks": c.chunks.iter().take(10).collect::<Vec<_>>(), "ops": c.ops.iter().take(30).collect::<Vec<_>>()}));
        }
        Ok(())
    }
}

pub fn check(c: &KCase, st: &mut Stats) -> Result<(), String> {
    let mut cfg = vec![0u8; 12];
    cfg[0] = 0x50;
    cfg[2] = 0x19;
    drv::setup_world(c.kind, c.offered, cfg, 64);
    let dev = Shared::install(SimDev::new(
        2,
        c.policy,
        ConsoleDev { chunks: c.chunks.iter().copied().collect(), rx: None, delivered_total: 0, feed_on_turn: 0, unpopped: false, postings: vec![], tx: vec![], errors: vec![], bad_tx: false },
    ));
    with_transport(c.kind, 3, 12, Run { c, dev, st })?
}

fn op() -> impl Strategy<Value = KOp> {
    prop_oneof![
        5 => any::<bool>().prop_map(KOp::Recv),
        4 => prop_oneof![1u16..8, 1u16..300, Just(4096u16), Just(0u16), any::<u16>().prop_map(|x| x % 6000)].prop_map(KOp::Read),
        4 => any::<u16>().prop_map(KOp::FillConsume),
        2 => Just(KOp::ReadReady),
        2 => (0u8..4).prop_map(KOp::AckInt),
        1 => any::<u8>().prop_map(KOp::Send),
        1 => any::<u16>().prop_map(KOp::SendBytes),
        1 => any::<u16>().prop_map(KOp::Write),
        3 => any::<u16>().prop_map(KOp::ReadExact),
        2 => (0u8..4, any::<u16>()).prop_map(|(h, s)| KOp::Fmt(h, s)),
        6 => Just(KOp::Deliver),
        1 => drv::serve_strategy().prop_map(KOp::Policy),
        1 => Just(KOp::Size),
        1 => any::<u8>().prop_map(KOp::Emerg),
    ]
}

pub fn strategy() -> impl Strategy<Value = KCase> {
    (
        drv::tk_strategy(),
        drv::feature_strategy(&[F_SIZE, F_EMERG]),
        drv::serve_strategy(),
        prop::collection::vec(prop_oneof![4 => 1u16..16, 2 => 1u16..600, 1 => Just(4096u16), 1 => 4000u16..=4096], 0..24),
        prop::collection::vec(op(), 0..60),
        // one history in six ends with formatted output against a device that fails the transmit
        prop_oneof![5 => Just(None), 1 => (0u8..2, any::<u16>()).prop_map(Some)],
    )
        .prop_map(|(kind, offered, policy, chunks, mut ops, fail)| {
            if let Some((h, s)) = fail {
                ops.push(KOp::FmtFail(h, s));
            }
            KCase { kind, offered, policy, chunks, ops }
        })
}

pub fn replay(_e: &str, case: &serde_json::Value) -> Result<(), String> {
    check(&serde_json::from_value(case.clone()).map_err(|e| e.to_string())?, &mut Stats::default())
}

pub fn run(ctx: &Ctx) -> Report {
    let (stats, failure) = run_proptest(ctx, "console", 151, ctx.n(200_000, 12_000_000), strategy, |c: &KCase, st| check(c, st));
    Report {
        stats,
        failure,
        info: PartInfo {
            level: "exploration",
            rule: "proptest: a device byte stream cut into chunks of 1..=4096 bytes; interleavings of recv(peek), recv(pop), read(n), fill_buf+consume(k<=len), read_ready, ack_interrupt (with/without a pending interrupt), send, send_bytes, write, size, emergency_write, device deliveries at generated moments and during blocking reads, device servicing policies, all transports. Oracle: bytes returned = the next bytes of the delivered stream (never lost, duplicated, reordered); at most one receive buffer outstanding; it is re-posted only when every received byte has been consumed; each send is one readable chain with exactly the caller's bytes. Non-trivial = a partial read/consume followed by a peek and a later chunk; distinct = (transport, features, op kinds and sizes).",
            assumptions: vec!["blocking reads are issued only while the device still has data to give (otherwise counted as not issued)".into()],
            exhaustive: false,
            extra: json!({}),
        },
    }
}
