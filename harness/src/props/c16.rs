//! C16: network frames pass unmodified; receive buffers are never lost or duplicated.

use crate::devq::{Handler, Queues, Serve, Shared, SimDev};
use crate::hal::LHal;
use crate::props::drv::{self, F_INDIRECT, F_VERSION_1};
use crate::ring::Chain;
use crate::runner::{guard, run_proptest, Caught, Ctx, PartInfo, Report, Sig, Stats};
use crate::tkind::{with_transport, WithT, TK};
use crate::world::{self, Escape, World};
use proptest::prelude::*;
use serde::{Deserialize, Serialize};
use serde_json::json;
use virtio_drivers::device::net::{RxBuffer, TxBuffer, VirtIONet, VirtIONetRaw};
use virtio_drivers::transport::Transport;
use virtio_drivers::{Error, Result as VResult};

const F_MAC: u64 = 1 << 5;
const F_STATUS: u64 = 1 << 16;
const MAC: [u8; 6] = [0x52, 0x54, 0x00, 0x12, 0x34, 0x56];

#[derive(Clone, Debug, Serialize, Deserialize, PartialEq)]
pub enum NOp {
    Send(u16),
    TxBegin(u16),
    /// device completes the pick-th held transmit, driver polls and completes it
    TxFinish(u16),
    CanSend,
    // raw receive path
    RxBegin,
    RxFinish,
    ReceiveWait(u16),
    // buffered receive path
    CanRecv,
    Receive,
    Recycle(u16),
    /// device writes a frame of (len fraction of capacity) into the pick-th posted buffer
    Inject { pick: u16, len: u16 },
    Policy(Serve),
}

#[derive(Clone, Debug, Serialize, Deserialize)]
pub struct NCase {
    pub kind: TK,
    pub offered: u64,
    pub policy: Serve,
    pub buffered: bool,
    /// 0 => 2, 1 => 4, 2 => 16
    pub nsel: u8,
    pub buf_len: u16,
    /// receive buffers larger than 64 KiB (buf_len + 65536)
    #[serde(default)]
    pub big: bool,
    /// afterwards: this many receive rounds with buffers in flight all the time (more than 65536
    /// take the receive queue's indices through their wrap)
    #[serde(default)]
    pub repeat: u32,
    pub ops: Vec<NOp>,
}

fn fpat(seed: u64, i: usize) -> u8 {
    (seed as u8).wrapping_mul(59) ^ (i as u8).wrapping_mul(3) ^ ((i >> 8) as u8) ^ 0x6d
}

pub struct NetDev {
    pub hdr: usize,
    pub rx_held: Vec<Chain>,
    pub injected: u64,
    /// frames injected, in completion order: (head, frame bytes)
    pub rx_log: Vec<(u16, Vec<u8>)>,
    pub tx_hold: bool,
    pub tx_held: Vec<(Chain, Vec<u8>)>,
    /// complete bytes of every transmit chain, in arrival order
    pub tx_seen: Vec<(Vec<u8>, usize)>,
    pub feed: Option<u16>,
    pub errors: Vec<String>,
}

/// flags, gso_type, hdr_len, gso_size, csum_start, csum_offset, num_buffers as the device writes them
pub const RX_HDR: [u8; 12] = [1, 0, 0x34, 0x12, 0x78, 0x56, 0xbc, 0x9a, 0xf0, 0xde, 1, 0];

impl NetDev {
    pub fn inject(&mut self, w: &mut World, qs: &mut Queues, pick: u16, len: u16) -> bool {
        if self.rx_held.is_empty() {
            return false;
        }
        let k = (pick as usize * self.rx_held.len()) >> 16;
        let c = self.rx_held.remove(k);
        let cap = c.writable_len().saturating_sub(self.hdr);
        let flen = (len as usize * (cap + 1)) >> 16;
        self.injected += 1;
        // a header with a recognisable value in every field
        let mut data = RX_HDR[..self.hdr].to_vec();
        if self.hdr == 12 {
            data[10] = 1; // num_buffers
        }
        let frame: Vec<u8> = (0..flen).map(|i| fpat(self.injected, i)).collect();
        data.extend_from_slice(&frame);
        qs.complete(w, 0, &c, &data);
        self.rx_log.push((c.head, frame));
        true
    }
}

impl Handler for NetDev {
    fn on_chain(&mut self, w: &mut World, qs: &mut Queues, q: u16, c: Chain) {
        match q {
            0 => {
                if c.readable_len() != 0 || c.elems.len() != 1 {
                    self.errors.push(format!("receive buffer must be one device-writable buffer: {:?}", c.elems));
                }
                self.rx_held.push(c);
            }
            1 => {
                if c.writable_len() != 0 {
                    self.errors.push(format!("transmit chain has device-writable parts: {:?}", c.elems));
                }
                let d = qs.read(w, 1, &c);
                self.tx_seen.push((d.clone(), c.elems.len()));
                if self.tx_hold {
                    self.tx_held.push((c, d));
                } else {
                    qs.complete_len(w, 1, &c, 0);
                }
            }
            _ => self.errors.push(format!("chain on unexpected queue {}", q)),
        }
    }
    fn on_turn(&mut self, w: &mut World, qs: &mut Queues) -> bool {
        if let Some(len) = self.feed {
            if !self.rx_held.is_empty() {
                self.feed = None;
                // the blocking receive posted the newest buffer: fill that one
                let last = self.rx_held.len() - 1;
                let pick = ((last as u32 * 65536 + 65535) / self.rx_held.len() as u32).min(65535) as u16;
                return self.inject(w, qs, pick, len);
            }
        }
        false
    }
}

trait RawApi {
    fn can_send(&self) -> bool;
    fn fill_hdr(&self, b: &mut [u8]) -> VResult<usize>;
    unsafe fn tx_begin(&mut self, b: &[u8]) -> VResult<u16>;
    fn poll_tx(&mut self) -> Option<u16>;
    unsafe fn tx_complete(&mut self, t: u16, b: &[u8]) -> VResult<usize>;
    unsafe fn rx_begin(&mut self, b: &mut [u8]) -> VResult<u16>;
    fn poll_rx(&self) -> Option<u16>;
    unsafe fn rx_complete(&mut self, t: u16, b: &mut [u8]) -> VResult<(usize, usize)>;
    fn send(&mut self, b: &[u8]) -> VResult<()>;
    fn receive_wait(&mut self, b: &mut [u8]) -> VResult<(usize, usize)>;
    fn mac(&self) -> [u8; 6];
}

impl<T: Transport, const N: usize> RawApi for VirtIONetRaw<LHal, T, N> {
    fn can_send(&self) -> bool {
        VirtIONetRaw::can_send(self)
    }
    fn fill_hdr(&self, b: &mut [u8]) -> VResult<usize> {
        self.fill_buffer_header(b)
    }
    unsafe fn tx_begin(&mut self, b: &[u8]) -> VResult<u16> {
        unsafe { self.transmit_begin(b) }
    }
    fn poll_tx(&mut self) -> Option<u16> {
        self.poll_transmit()
    }
    unsafe fn tx_complete(&mut self, t: u16, b: &[u8]) -> VResult<usize> {
        unsafe { self.transmit_complete(t, b) }
    }
    unsafe fn rx_begin(&mut self, b: &mut [u8]) -> VResult<u16> {
        unsafe { self.receive_begin(b) }
    }
    fn poll_rx(&self) -> Option<u16> {
        self.poll_receive()
    }
    unsafe fn rx_complete(&mut self, t: u16, b: &mut [u8]) -> VResult<(usize, usize)> {
        unsafe { self.receive_complete(t, b) }
    }
    fn send(&mut self, b: &[u8]) -> VResult<()> {
        VirtIONetRaw::send(self, b)
    }
    fn receive_wait(&mut self, b: &mut [u8]) -> VResult<(usize, usize)> {
        VirtIONetRaw::receive_wait(self, b)
    }
    fn mac(&self) -> [u8; 6] {
        self.mac_address()
    }
}

trait BufApi {
    fn can_send(&self) -> bool;
    fn can_recv(&self) -> bool;
    fn receive(&mut self) -> VResult<RxBuffer>;
    fn recycle(&mut self, b: RxBuffer) -> VResult<()>;
    fn send(&mut self, frame: &[u8]) -> VResult<()>;
    fn mac(&self) -> [u8; 6];
}

impl<T: Transport, const N: usize> BufApi for VirtIONet<LHal, T, N> {
    fn can_send(&self) -> bool {
        VirtIONet::can_send(self)
    }
    fn can_recv(&self) -> bool {
        VirtIONet::can_recv(self)
    }
    fn receive(&mut self) -> VResult<RxBuffer> {
        VirtIONet::receive(self)
    }
    fn recycle(&mut self, b: RxBuffer) -> VResult<()> {
        self.recycle_rx_buffer(b)
    }
    fn send(&mut self, frame: &[u8]) -> VResult<()> {
        let mut tx = self.new_tx_buffer(frame.len());
        tx.packet_mut().copy_from_slice(frame);
        assert_eq!(tx.packet_len(), frame.len());
        let _ = TxBuffer::from(frame);
        VirtIONet::send(self, tx)
    }
    fn mac(&self) -> [u8; 6] {
        self.mac_address()
    }
}

enum Drv {
    Raw(Box<dyn RawApi>),
    Buf(Box<dyn BufApi>),
}

fn mk<T: Transport + 'static>(t: T, buffered: bool, nsel: u8, buf_len: usize) -> VResult<Drv> {
    Ok(match (buffered, nsel % 3) {
        (false, 0) => Drv::Raw(Box::new(VirtIONetRaw::<LHal, T, 2>::new(t)?)),
        (false, 1) => Drv::Raw(Box::new(VirtIONetRaw::<LHal, T, 4>::new(t)?)),
        (false, _) => Drv::Raw(Box::new(VirtIONetRaw::<LHal, T, 16>::new(t)?)),
        (true, 0) => Drv::Buf(Box::new(VirtIONet::<LHal, T, 2>::new(t, buf_len)?)),
        (true, 1) => Drv::Buf(Box::new(VirtIONet::<LHal, T, 4>::new(t, buf_len)?)),
        (true, _) => Drv::Buf(Box::new(VirtIONet::<LHal, T, 16>::new(t, buf_len)?)),
    })
}

struct Run<'a> {
    c: &'a NCase,
    dev: Shared<NetDev>,
    st: &'a mut Stats,
}

impl WithT for Run<'_> {
    type Out = Result<(), String>;
    fn call<T: Transport + 'static>(self, t: T) -> Self::Out {
        let c = self.c;
        // (the buffered driver rounds the length down to a multiple of 8, which must still be >= 1526)
        let buf_len = (c.buf_len as usize).clamp(if c.buffered { 1528 } else { 1526 }, 65535) + if c.big { 65536 } else { 0 };
        let d = match guard(|| mk(t, c.buffered, c.nsel, buf_len)) {
            Caught::Ok(Ok(d)) => d,
            Caught::Ok(Err(e)) => return Err(format!("driver construction failed: {:?}", e)),
            Caught::Panic(p) => return Err(format!("driver construction: {}", p.render())),
            Caught::Escape(e) => return Err(format!("driver construction: {:?}", e)),
        };
        run_ops(c, d, self.dev, self.st, buf_len)
    }
}

struct RawRx {
    token: u16,
    buf: Box<[u8]>,
}
struct RawTx {
    token: u16,
    buf: Box<[u8]>,
}

fn run_ops(c: &NCase, mut d: Drv, dev: Shared<NetDev>, st: &mut Stats, buf_len: usize) -> Result<(), String> {
    macro_rules! g {
        ($what:expr, $e:expr) => {
            match guard(|| $e) {
                Caught::Ok(r) => r,
                Caught::Panic(p) => return Err(format!("{}: {}", $what, p.render())),
                Caught::Escape(Escape::LostWakeup(m)) => return Err(format!("{}: lost wake-up: {}", $what, m)),
                Caught::Escape(Escape::Starved(m)) => return Err(format!("{}: blocking call never returns: {}", $what, m)),
                Caught::Escape(e) => return Err(format!("{}: inconclusive {:?}", $what, e)),
            }
        };
    }
    let n: usize = [2, 4, 16][c.nsel as usize % 3];
    let accepted = world::with(|w| w.dev.accepted);
    let hdr = if accepted & F_VERSION_1 != 0 { 12 } else { 10 };
    let indirect = accepted & F_INDIRECT != 0;
    dev.with(|d| d.h.hdr = hdr);
    let mac = match &d {
        Drv::Raw(r) => r.mac(),
        Drv::Buf(b) => b.mac(),
    };
    // the `mac` configuration field is valid (and need only be used) when VIRTIO_NET_F_MAC was
    // negotiated; without it the driver's choice of address is its own
    if accepted & (1 << 5) != 0 && mac != MAC {
        return Err(format!("mac_address() = {:x?}, device configuration holds {:x?}", mac, MAC));
    }
    let check_dev = |dev: &Shared<NetDev>| -> Result<(), String> {
        if let Some(e) = dev.with(|d| d.h.errors.first().cloned()) {
            return Err(format!("reference network device: {}", e));
        }
        if let Some((tag, m)) = drv::fault_text() {
            return Err(format!("[{}] {}", tag, m));
        }
        Ok(())
    };
    // give non-immediate devices time to pick up what was posted during construction
    for _ in 0..6 {
        dev.turn_spin();
    }
    check_dev(&dev)?;
    let cap = if c.buffered { buf_len / 8 * 8 } else { buf_len };
    if c.buffered {
        let posted = dev.with(|d| d.h.rx_held.len());
        if posted != n {
            return Err(format!("after construction the device holds {} receive buffers, expected {}", posted, n));
        }
        let caps: Vec<usize> = dev.with(|d| d.h.rx_held.iter().map(|c| c.writable_len()).collect());
        if caps.iter().any(|&x| x != cap) {
            return Err(format!("receive buffers of {:?} bytes posted, expected {}", caps, cap));
        }
    }
    let mut tx_model: Vec<Vec<u8>> = Vec::new(); // frames
    let mut raw_tx: Vec<RawTx> = Vec::new();
    let mut raw_rx: Vec<RawRx> = Vec::new();
    let mut held: Vec<RxBuffer> = Vec::new();
    let mut rx_next = 0usize; // index into dev.rx_log of the next completion the driver will see
    let mut sig = Sig::new();
    sig.add(c.kind as u64).add(accepted).add(c.buffered as u64).add(n as u64);
    let mut seed = 0u64;
    let (mut ooo_rx, mut recycled_other_order) = (false, false);
    let mut post_order: Vec<u16> = Vec::new();
    let mut all_ops: Vec<NOp> = c.ops.clone();
    if c.repeat > 0 {
        if c.buffered {
            for r in 0..c.repeat {
                all_ops.push(NOp::Inject { pick: (r as u16).wrapping_mul(7919), len: 40 });
                all_ops.push(NOp::Receive);
                all_ops.push(NOp::Recycle(0));
            }
        } else {
            all_ops.push(NOp::RxBegin);
            all_ops.push(NOp::RxBegin);
            for _ in 0..c.repeat {
                all_ops.push(NOp::Inject { pick: 0, len: 40 });
                all_ops.push(NOp::RxFinish);
                all_ops.push(NOp::RxBegin);
            }
        }
    }
    for (i, op) in all_ops.iter().enumerate() {
        let what = format!("op #{} {:?}", i, op);
        world::with(|w| w.spins = 0);
        match op {
            NOp::Policy(p) => {
                if raw_tx.is_empty() {
                    dev.with(|d| world::with(|w| d.set_policy(w, *p)));
                }
            }
            NOp::Send(len) => {
                if !raw_tx.is_empty() {
                    continue; // the blocking helper assumes nothing else is in flight on the queue
                }
                let max = 2000usize;
                let flen = (*len as usize) % (max + 1);
                seed += 1;
                let frame: Vec<u8> = (0..flen).map(|k| fpat(seed + 1000, k)).collect();
                let seen0 = dev.with(|d| d.h.tx_seen.len());
                let r = match &mut d {
                    Drv::Raw(r) => g!(what, r.send(&frame)),
                    Drv::Buf(b) => g!(what, b.send(&frame)),
                };
                if let Err(e) = r {
                    return Err(format!("{}: failed with {:?}", what, e));
                }
                check_dev(&dev)?;
                let seen: Vec<(Vec<u8>, usize)> = dev.with(|d| d.h.tx_seen[seen0..].to_vec());
                if seen.len() != 1 {
                    return Err(format!("{}: device saw {} transmit chains", what, seen.len()));
                }
                check_tx(&what, &seen[0].0, hdr, &frame)?;
                tx_model.push(frame);
                sig.add(1).add((flen.min(3)) as u64);
            }
            NOp::TxBegin(len) => {
                let Drv::Raw(r) = &mut d else { continue };
                let flen = (*len as usize) % 1501;
                seed += 1;
                let mut buf = vec![0xffu8; hdr + flen].into_boxed_slice();
                // the caller may put the frame in place before or after filling the header
                let frame_first = *len & 0x800 != 0;
                let frame: Vec<u8> = (0..flen).map(|k| fpat(seed + 2000, k) | 1).collect();
                if frame_first {
                    buf[hdr..].copy_from_slice(&frame);
                }
                let h = g!(what, r.fill_hdr(&mut buf));
                if h != Ok(hdr) {
                    return Err(format!("{}: fill_buffer_header returned {:?}, header is {} bytes (VERSION_1 negotiated: {})", what, h, hdr, hdr == 12));
                }
                if frame_first {
                    if buf[hdr..] != frame[..] {
                        return Err(format!("{}: fill_buffer_header changed bytes after the {}-byte header (frame placed first)", what, hdr));
                    }
                } else {
                    buf[hdr..].copy_from_slice(&frame);
                }
                let need = 1;
                let full = raw_tx.len() + need > n;
                dev.with(|d| d.h.tx_hold = true);
                let seen0 = dev.with(|d| d.h.tx_seen.len());
                let res = g!(what, unsafe { r.tx_begin(&buf) });
                match res {
                    Ok(token) => {
                        if full {
                            return Err(format!("{}: accepted with {} transmits outstanding on a queue of {}", what, raw_tx.len(), n));
                        }
                        for _ in 0..6 {
                            dev.turn_spin();
                        }
                        check_dev(&dev)?;
                        let seen: Vec<(Vec<u8>, usize)> = dev.with(|d| d.h.tx_seen[seen0..].to_vec());
                        if seen.len() != 1 {
                            return Err(format!("{}: device saw {} transmit chains (was it notified?)", what, seen.len()));
                        }
                        check_tx(&what, &seen[0].0, hdr, &buf[hdr..])?;
                        raw_tx.push(RawTx { token, buf });
                    }
                    Err(Error::QueueFull) if full => {}
                    Err(e) => return Err(format!("{}: returned {:?} with {} outstanding", what, e, raw_tx.len())),
                }
                sig.add(2);
            }
            NOp::TxFinish(pick) => {
                let Drv::Raw(r) = &mut d else { continue };
                let nheld = dev.with(|d| d.h.tx_held.len());
                if nheld == 0 || raw_tx.is_empty() {
                    continue;
                }
                let k = (*pick as usize * nheld) >> 16;
                let bytes = dev.with(|d| {
                    world::with(|w| {
                        let (c, b) = d.h.tx_held.remove(k);
                        d.qs.complete_len(w, 1, &c, 0);
                        b
                    })
                });
                let tok = g!(what, r.poll_tx());
                let Some(tok) = tok else { return Err(format!("{}: device completed a transmit but poll_transmit() is None", what)) };
                let Some(pos) = raw_tx.iter().position(|t| t.token == tok) else { return Err(format!("{}: poll_transmit() = {} is not an outstanding transmit", what, tok)) };
                let t = raw_tx.remove(pos);
                if t.buf[..] != bytes[..] {
                    return Err(format!("{}: completion token {} does not belong to the buffer the device transmitted", what, tok));
                }
                let res = g!(what, unsafe { r.tx_complete(tok, &t.buf) });
                if res.is_err() {
                    return Err(format!("{}: transmit_complete returned {:?}", what, res));
                }
                if raw_tx.is_empty() {
                    dev.with(|d| d.h.tx_hold = false);
                }
                sig.add(3).add(k as u64);
            }
            NOp::CanSend => {
                let got = match &d {
                    Drv::Raw(r) => r.can_send(),
                    Drv::Buf(b) => b.can_send(),
                };
                let used = raw_tx.len();
                let want = if indirect { used < n && n >= 2 } else { n - used >= 2 };
                if got != want {
                    return Err(format!("{}: can_send() = {} with {} of {} transmit descriptors in use (indirect: {})", what, got, used, n, indirect));
                }
            }
            NOp::RxBegin => {
                let Drv::Raw(r) = &mut d else { continue };
                let mut buf = vec![0xEEu8; buf_len].into_boxed_slice();
                let full = raw_rx.len() + 1 > n;
                let held0 = dev.with(|d| d.h.rx_held.len());
                let res = g!(what, unsafe { r.rx_begin(&mut buf) });
                match res {
                    Ok(token) => {
                        if full {
                            return Err(format!("{}: accepted with {} receives outstanding on a queue of {}", what, raw_rx.len(), n));
                        }
                        for _ in 0..6 {
                            dev.turn_spin();
                        }
                        check_dev(&dev)?;
                        if dev.with(|d| d.h.rx_held.len()) != held0 + 1 {
                            return Err(format!("{}: buffer posted but the device did not see it (was it notified?)", what));
                        }
                        post_order.push(token);
                        raw_rx.push(RawRx { token, buf });
                    }
                    Err(Error::QueueFull) if full => {}
                    Err(e) => return Err(format!("{}: returned {:?}", what, e)),
                }
                sig.add(4);
            }
            NOp::Inject { pick, len } => {
                let did = dev.with(|d| world::with(|w| {
                    let d = &mut *d;
                    d.h.inject(w, &mut d.qs, *pick, *len)
                }));
                if did {
                    sig.add(5);
                }
            }
            NOp::RxFinish => {
                let Drv::Raw(r) = &mut d else { continue };
                let tok = g!(what, r.poll_rx());
                let pending = dev.with(|d| d.h.rx_log.len()) - rx_next;
                match (tok, pending) {
                    (None, 0) => continue,
                    (Some(t), p) if p > 0 => {
                        let (head, frame) = dev.with(|d| d.h.rx_log[rx_next].clone());
                        if t != head {
                            return Err(format!("{}: poll_receive() = {} but the device completed buffer {}", what, t, head));
                        }
                        let Some(pos) = raw_rx.iter().position(|x| x.token == t) else { return Err(format!("{}: token {} not outstanding", what, t)) };
                        if pos != 0 {
                            ooo_rx = true;
                        }
                        let mut rx = raw_rx.remove(pos);
                        let res = g!(what, unsafe { r.rx_complete(t, &mut rx.buf) });
                        match res {
                            Ok((h, l)) if h == hdr && l == frame.len() => {
                                if rx.buf[h..h + l] != frame[..] {
                                    return Err(format!("{}: frame bytes differ from what the device wrote", what));
                                }
                            }
                            other => return Err(format!("{}: receive_complete returned {:?}, device wrote a {}-byte header and a {}-byte frame", what, other, hdr, frame.len())),
                        }
                        rx_next += 1;
                        sig.add(6).add(frame.len().min(3) as u64);
                    }
                    (t, p) => return Err(format!("{}: poll_receive() = {:?} with {} completions pending", what, t, p)),
                }
            }
            NOp::ReceiveWait(len) => {
                let Drv::Raw(r) = &mut d else { continue };
                if !raw_rx.is_empty() || raw_rx.len() + 1 > n {
                    continue; // precondition: nothing else outstanding on the receive queue
                }
                if dev.with(|d| d.h.rx_log.len()) != rx_next {
                    continue;
                }
                let mut buf = vec![0xEEu8; buf_len].into_boxed_slice();
                dev.with(|d| d.h.feed = Some(*len));
                let res = g!(what, r.receive_wait(&mut buf));
                check_dev(&dev)?;
                let (_, frame) = dev.with(|d| d.h.rx_log.last().cloned()).ok_or("receive_wait returned but the device injected nothing")?;
                match res {
                    Ok((h, l)) if h == hdr && l == frame.len() && buf[h..h + l] == frame[..] => {}
                    other => return Err(format!("{}: returned {:?}, device wrote a {}-byte header and a {}-byte frame", what, other.map(|x| (x.0, x.1)), hdr, frame.len())),
                }
                rx_next += 1;
                sig.add(7);
            }
            NOp::CanRecv => {
                let Drv::Buf(b) = &d else { continue };
                let pending = dev.with(|d| d.h.rx_log.len()) - rx_next;
                let got = b.can_recv();
                if got != (pending > 0) {
                    return Err(format!("{}: can_recv() = {} with {} completions pending", what, got, pending));
                }
            }
            NOp::Receive => {
                let Drv::Buf(b) = &mut d else { continue };
                let pending = dev.with(|d| d.h.rx_log.len()) - rx_next;
                let res = g!(what, b.receive());
                match res {
                    Err(Error::NotReady) if pending == 0 => {}
                    Ok(rb) if pending > 0 => {
                        let (_, frame) = dev.with(|d| d.h.rx_log[rx_next].clone());
                        rx_next += 1;
                        if rb.packet_len() != frame.len() || rb.packet() != &frame[..] {
                            return Err(format!("{}: packet of {} bytes returned, device wrote a {}-byte frame (or contents differ)", what, rb.packet_len(), frame.len()));
                        }
                        // the header the caller can inspect is the one the device wrote (the legacy
                        // form has no num_buffers field: it reads as 0)
                        {
                            use zerocopy::IntoBytes;
                            let h = rb.header();
                            let mut want = RX_HDR;
                            if hdr != 12 {
                                want[10] = 0;
                                want[11] = 0;
                            }
                            if h.as_bytes() != &want[..] {
                                return Err(format!("{}: header() = {:x?}, the device wrote {:x?} ({}-byte header)", what, h.as_bytes(), &RX_HDR[..hdr], hdr));
                            }
                        }
                        if rb.as_bytes().len() != cap {
                            return Err(format!("{}: buffer of {} bytes, expected {}", what, rb.as_bytes().len(), cap));
                        }
                        held.push(rb);
                        sig.add(8).add(frame.len().min(3) as u64);
                    }
                    other => return Err(format!("{}: returned {:?} with {} completions pending", what, other.map(|b| b.packet_len()), pending)),
                }
            }
            NOp::Recycle(pick) => {
                let Drv::Buf(b) = &mut d else { continue };
                if held.is_empty() {
                    continue;
                }
                let k = (*pick as usize * held.len()) >> 16;
                if k != 0 {
                    recycled_other_order = true;
                }
                let rb = held.remove(k);
                let held0 = dev.with(|d| d.h.rx_held.len());
                let res = g!(what, b.recycle(rb));
                if let Err(e) = res {
                    return Err(format!("{}: failed with {:?}", what, e));
                }
                for _ in 0..6 {
                    dev.turn_spin();
                }
                check_dev(&dev)?;
                if dev.with(|d| d.h.rx_held.len()) != held0 + 1 {
                    return Err(format!("{}: buffer recycled but the device did not get it back (was it notified?)", what));
                }
                sig.add(9).add(k as u64);
            }
        }
        check_dev(&dev)?;
        // conservation
        if c.buffered {
            let posted = dev.with(|d| d.h.rx_held.len());
            let pending = dev.with(|d| d.h.rx_log.len()) - rx_next;
            if posted + pending + held.len() != n {
                return Err(format!("{}: {} buffers posted + {} completed and not yet received + {} owned by the caller != {}", what, posted, pending, held.len(), n));
            }
        }
    }
    // order statistics
    if c.buffered {
        let log: Vec<u16> = dev.with(|d| d.h.rx_log.iter().map(|x| x.0).collect());
        if log.windows(2).any(|w| w[1] < w[0]) {
            ooo_rx = true;
        }
        // give everything back
        let Drv::Buf(b) = &mut d else { unreachable!() };
        while dev.with(|d| d.h.rx_log.len()) > rx_next {
            match g!("drain receive", b.receive()) {
                Ok(rb) => {
                    rx_next += 1;
                    held.push(rb);
                }
                Err(e) => return Err(format!("drain: receive failed with {:?}", e)),
            }
        }
        while let Some(rb) = held.pop() {
            if let Err(e) = g!("drain recycle", b.recycle(rb)) {
                return Err(format!("drain: recycle failed with {:?}", e));
            }
        }
        for _ in 0..6 {
            dev.turn_spin();
        }
        let posted = dev.with(|d| d.h.rx_held.len());
        if posted != n {
            return Err(format!("after recycling every buffer the device holds {} receive buffers, expected {}", posted, n));
        }
    } else {
        let _ = &post_order;
    }
    // quiesce: device completes what it still holds so that raw buffers may be released
    let is_raw = matches!(d, Drv::Raw(_));
    g!("drop", drop(d));
    drop(raw_rx);
    drop(raw_tx);
    check_dev(&dev)?;
    let live = world::with(|w| w.hal.live_dma_count());
    if live != 0 {
        return Err(format!("after drop: {} DMA regions still live", live));
    }
    let _ = is_raw;
    if ooo_rx {
        st.class("receive_order_differs_from_posting");
    }
    if recycled_other_order {
        st.class("recycled_in_third_order");
    }
    if (ooo_rx && (recycled_other_order || !c.buffered)) || tx_model.len() >= 2 {
        st.nontrivial(sig.get(), || json!({"kind": c.kind, "buffered": c.buffered, "n": n, "buf_len": buf_len, "offered": c.offered, "ops": c.ops.iter().take(30).collect::<Vec<_>>()}));
    }
    Ok(())
}

fn check_tx(what: &str, bytes: &[u8], hdr: usize, frame: &[u8]) -> Result<(), String> {
    if bytes.len() != hdr + frame.len() {
        return Err(format!("{}: transmit chain carries {} bytes, expected a {}-byte header + {}-byte frame", what, bytes.len(), hdr, frame.len()));
    }
    if bytes[..hdr].iter().any(|&b| b != 0) {
        return Err(format!("{}: virtio-net header is not zeroed: {:x?}", what, &bytes[..hdr]));
    }
    if &bytes[hdr..] != frame {
        return Err(format!("{}: frame bytes on the transmit queue differ from the caller's", what));
    }
    Ok(())
}

pub fn check(c: &NCase, st: &mut Stats) -> Result<(), String> {
    let mut cfg = vec![0u8; 12];
    cfg[..6].copy_from_slice(&MAC);
    cfg[6] = 1;
    drv::setup_world(c.kind, c.offered, cfg, 256);
    let dev = Shared::install(SimDev::new(
        2,
        c.policy,
        NetDev { hdr: 12, rx_held: vec![], injected: 0, rx_log: vec![], tx_hold: false, tx_held: vec![], tx_seen: vec![], feed: None, errors: vec![] },
    ));
    with_transport(c.kind, 1, 12, Run { c, dev, st })?
}

fn op() -> impl Strategy<Value = NOp> {
    prop_oneof![
        3 => any::<u16>().prop_map(NOp::Send),
        3 => any::<u16>().prop_map(NOp::TxBegin),
        3 => any::<u16>().prop_map(NOp::TxFinish),
        1 => Just(NOp::CanSend),
        4 => Just(NOp::RxBegin),
        4 => Just(NOp::RxFinish),
        1 => any::<u16>().prop_map(NOp::ReceiveWait),
        1 => Just(NOp::CanRecv),
        5 => Just(NOp::Receive),
        4 => any::<u16>().prop_map(NOp::Recycle),
        7 => (any::<u16>(), prop_oneof![Just(0u16), Just(65535u16), any::<u16>(), 0u16..2000]).prop_map(|(pick, len)| NOp::Inject { pick, len }),
        1 => drv::serve_strategy().prop_map(NOp::Policy),
    ]
}

pub fn strategy() -> impl Strategy<Value = NCase> {
    (
        drv::tk_strategy(),
        drv::feature_strategy(&[F_MAC, F_STATUS]),
        drv::serve_strategy(),
        any::<bool>(),
        0u8..3,
        prop_oneof![Just(1526u16), Just(2048u16), 1526u16..=4096, Just(65535u16)],
        prop::collection::vec(op(), 0..60),
        prop::bool::weighted(0.06),
    )
        .prop_map(|(kind, offered, policy, buffered, nsel, buf_len, ops, big)| NCase { kind, offered, policy, buffered, nsel, buf_len, ops, big, repeat: 0 })
}

pub fn replay(_e: &str, case: &serde_json::Value) -> Result<(), String> {
    check(&serde_json::from_value(case.clone()).map_err(|e| e.to_string())?, &mut Stats::default())
}

pub fn run(ctx: &Ctx) -> Report {
    // more than 65536 received frames with receive buffers in flight all the time
    let items: Vec<NCase> = [(false, 1u8, 1u64 << 32), (true, 1, 1 << 32), (true, 0, 1 << 32 | 1 << 29), (false, 2, 1 << 28)]
        .into_iter()
        .map(|(buffered, nsel, offered)| NCase { kind: TK::Model, offered, policy: Serve::OnNotify, buffered, nsel, buf_len: 1600, ops: vec![], big: false, repeat: 66_000 })
        .collect();
    let (mut stats, mut failure) = crate::runner::run_items(ctx, "net", items, |c: &NCase, st| {
        let r = check(c, st);
        if r.is_ok() {
            st.class("pipelined_run_of_more_than_65536_frames");
        }
        r
    });
    if failure.is_none() {
        let (st, f) = run_proptest(ctx, "net", 161, ctx.n(150_000, 6_000_000), strategy, |c: &NCase, st| check(c, st));
        stats.merge(st);
        failure = f;
    }
    Report {
        stats,
        failure,
        info: PartInfo {
            level: "exploration",
            rule: "proptest histories on VirtIONetRaw<_,_,N> and VirtIONet<_,_,N>, N in {2,4,16}, +-VERSION_1 +-INDIRECT +-EVENT_IDX, buffer lengths 1526..65535, all transports and device policies: send (frames 0..2000 bytes), transmit_begin/poll/complete with device-chosen completion order, receive_begin/poll/complete, receive_wait, receive, recycle_rx_buffer (any order), can_send, can_recv; the device injects frames of 0..capacity bytes into any posted buffer. Oracle: every transmit chain = zeroed header of 12 bytes iff VERSION_1 else 10, then exactly the frame; received packet = exactly the frame bytes, packet_len = used length - header; posted + pending + caller-owned buffers = N after every operation and N posted after recycling all; readiness queries agree with the queue state. Non-trivial = buffers received in an order different from posting (and recycled in a third order for the buffered driver), or >=2 transmitted frames; distinct = (transport, features, driver, N, op kinds/outcomes).",
            assumptions: vec!["send() is generated only while no non-blocking transmit is outstanding; receive_wait only on an idle receive queue (preconditions of the blocking helper)".into()],
            exhaustive: false,
            extra: json!({}),
        },
    }
}
