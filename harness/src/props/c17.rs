//! C17: socket streams are loss-free and obey credit-based flow control both ways; the byte
//! counters are free-running 32-bit counters.

use crate::devq::{Serve, Shared, SimDev};
use crate::devs_vsock::{Pkt, VsockDev};
use crate::hal::LHal;
use crate::props::drv;
use crate::runner::{guard, known_open, load_known, run_items, run_proptest, Caught, Ctx, PartInfo, Report, Sig, Stats};
use crate::tkind::{with_transport, WithT, TK};
use crate::world::{self, Escape};
use proptest::prelude::*;
use serde::{Deserialize, Serialize};
use serde_json::json;
use std::collections::VecDeque;
use virtio_drivers::device::socket::{ConnectionInfo, SocketError, VirtIOSocket, VsockAddr, VsockConnectionManager, VsockEvent, VsockEventType};
use virtio_drivers::transport::Transport;
use virtio_drivers::{Error, Result as VResult};

pub const KEY_D8: &str = "vsock-counter-arithmetic-not-free-running";
const GUEST_CID: u64 = 0x42;
const PEER: (u64, u32) = (2, 5000);
const PORT: u32 = 77;

#[derive(Clone, Debug, Serialize, Deserialize, PartialEq)]
pub enum FOp {
    Send(u16),
    Recv(u16),
    /// peer sends data: fraction of what its credit view allows, split into `parts` packets
    PeerData { frac: u16, parts: u8 },
    /// peer advertises a new window: buf_alloc selector, and consumes a fraction of the in-flight bytes
    PeerCredit { alloc: u32, consume: u16 },
    PeerCreditRequest,
    UpdateCredit,
    Poll,
    Policy(Serve),
}

#[derive(Clone, Debug, Serialize, Deserialize)]
pub struct FCase {
    pub kind: TK,
    pub offered: u64,
    pub policy: Serve,
    pub capacity: u16,
    /// 0 => 64, 1 => 512, 2 => 65532
    pub rxsel: u8,
    /// true: we connect and the peer answers; false: the peer connects to a listening port
    pub active: bool,
    pub peer_alloc0: u32,
    pub ops: Vec<FOp>,
    /// how the peer ends the stream before the final drain: 0 = it does not, 1 = SHUTDOWN,
    /// 2 = RST, 3 = SHUTDOWN then RST. Whatever it sent before must still be readable.
    #[serde(default)]
    pub close: u8,
}

fn dpat(dir: u8, k: u64) -> u8 {
    (k as u8).wrapping_mul(113) ^ ((k >> 8) as u8).wrapping_mul(7) ^ dir.wrapping_mul(0x5b)
}

trait MgrApi {
    fn listen(&mut self, p: u32);
    fn connect(&mut self, a: VsockAddr, p: u32) -> VResult<()>;
    fn send(&mut self, a: VsockAddr, p: u32, b: &[u8]) -> VResult<()>;
    fn recv(&mut self, a: VsockAddr, p: u32, b: &mut [u8]) -> VResult<usize>;
    fn update_credit(&mut self, a: VsockAddr, p: u32) -> VResult<()>;
    fn poll(&mut self) -> VResult<Option<VsockEvent>>;
    fn available(&mut self, a: VsockAddr, p: u32) -> VResult<usize>;
}

impl<T: Transport, const RX: usize> MgrApi for VsockConnectionManager<LHal, T, RX> {
    fn listen(&mut self, p: u32) {
        VsockConnectionManager::listen(self, p)
    }
    fn connect(&mut self, a: VsockAddr, p: u32) -> VResult<()> {
        VsockConnectionManager::connect(self, a, p)
    }
    fn send(&mut self, a: VsockAddr, p: u32, b: &[u8]) -> VResult<()> {
        VsockConnectionManager::send(self, a, p, b)
    }
    fn recv(&mut self, a: VsockAddr, p: u32, b: &mut [u8]) -> VResult<usize> {
        VsockConnectionManager::recv(self, a, p, b)
    }
    fn update_credit(&mut self, a: VsockAddr, p: u32) -> VResult<()> {
        VsockConnectionManager::update_credit(self, a, p)
    }
    fn poll(&mut self) -> VResult<Option<VsockEvent>> {
        VsockConnectionManager::poll(self)
    }
    fn available(&mut self, a: VsockAddr, p: u32) -> VResult<usize> {
        self.recv_buffer_available_bytes(a, p)
    }
}

struct Mk {
    rxsel: u8,
    capacity: u32,
}
impl WithT for Mk {
    type Out = Result<Box<dyn MgrApi>, String>;
    fn call<T: Transport + 'static>(self, t: T) -> Self::Out {
        let cap = self.capacity;
        let r = guard(move || -> VResult<Box<dyn MgrApi>> {
            Ok(match self.rxsel % 3 {
                0 => Box::new(VsockConnectionManager::new_with_capacity(VirtIOSocket::<LHal, T, 64>::new(t)?, cap)),
                1 => Box::new(VsockConnectionManager::new_with_capacity(VirtIOSocket::<LHal, T, 512>::new(t)?, cap)),
                _ => Box::new(VsockConnectionManager::new_with_capacity(VirtIOSocket::<LHal, T, 65532>::new(t)?, cap)),
            })
        });
        match r {
            Caught::Ok(Ok(m)) => Ok(m),
            Caught::Ok(Err(e)) => Err(format!("VirtIOSocket::new failed: {:?}", e)),
            Caught::Panic(p) => Err(p.render()),
            Caught::Escape(e) => Err(format!("{:?}", e)),
        }
    }
}

pub struct Known {
    pub d8: bool,
}

/// Does this failure text match the known finding's signature?
fn is_d8(msg: &str) -> bool {
    (msg.contains("vsock.rs") && msg.contains("overflow")) || msg.contains("[D8]")
}

pub fn check_stream(c: &FCase, st: &mut Stats, known: &Known) -> Result<(), String> {
    match stream_inner(c, st) {
        Err(m) if known.d8 && is_d8(&m) => {
            st.known_excluded += 1;
            *st.known_hits.entry(KEY_D8.to_string()).or_insert(0) += 1;
            Ok(())
        }
        other => other,
    }
}

#[allow(unused_assignments)]
fn stream_inner(c: &FCase, st: &mut Stats) -> Result<(), String> {
    let capacity = (c.capacity as u32 % 8192) + 1;
    let rx_size = [64usize, 512, 65532][c.rxsel as usize % 3];
    let mut cfg = vec![0u8; 8];
    cfg[..8].copy_from_slice(&GUEST_CID.to_le_bytes());
    drv::setup_world(c.kind, c.offered, cfg, 64);
    let dev = Shared::install(SimDev::new(3, c.policy, VsockDev::new()));
    let mut mgr = with_transport(c.kind, 19, 8, Mk { rxsel: c.rxsel, capacity })??;
    macro_rules! g {
        ($what:expr, $e:expr) => {
            match guard(|| $e) {
                Caught::Ok(r) => r,
                Caught::Panic(p) => return Err(format!("{}: {}", $what, p.render())),
                Caught::Escape(Escape::LostWakeup(m)) => return Err(format!("{}: lost wake-up: {}", $what, m)),
                Caught::Escape(Escape::Starved(m)) => return Err(format!("{}: blocking call never returns: {}", $what, m)),
                Caught::Escape(e) => return Err(format!("{}: inconclusive {:?}", $what, e)),
            }
        };
    }
    let settle = |dev: &Shared<VsockDev>| {
        for _ in 0..6 {
            dev.turn_spin();
        }
    };
    let peer_addr = VsockAddr { cid: PEER.0, port: PEER.1 };
    // peer-side state
    let mut peer_alloc: u32 = c.peer_alloc0; // window the peer advertises
    let mut peer_consumed: u64 = 0; // bytes of the driver's stream the peer has consumed
    let mut drv_sent: u64 = 0; // bytes the driver has sent (accepted sends)
    let mut peer_sent: u64 = 0; // bytes the peer has sent
    // what the peer knows about the driver's window (from the last header it saw)
    let mut seen_drv_alloc: u32 = 0;
    let mut seen_drv_fwd: u32 = 0;
    // what the driver knows about the peer (from the last peer header it has polled)
    let mut drv_view_alloc: u32 = 0;
    let mut drv_view_fwd: u32 = 0;
    let mut credit_request_pending = false;
    // receive side model
    let mut unpolled: VecDeque<(Pkt, Vec<u8>)> = VecDeque::new();
    let mut buffered: VecDeque<u8> = VecDeque::new();
    let mut app_read: u64 = 0;
    let mut closed = false;
    let mut tx_seen = 0usize;
    let mk_pkt = |op: u16, len: u32, alloc: u32, fwd: u32| Pkt {
        src_cid: PEER.0,
        dst_cid: GUEST_CID,
        src_port: PEER.1,
        dst_port: PORT,
        len,
        ty: 1,
        op,
        flags: 0,
        buf_alloc: alloc,
        fwd_cnt: fwd,
        payload: vec![],
        wire_len: len as usize,
    };
    // every transmitted packet: addressing and advertised credit
    macro_rules! check_tx {
        ($what:expr) => {{
            settle(&dev);
            if let Some(e) = dev.with(|d| d.h.errors.first().cloned()) {
                return Err(format!("{}: reference peer: {}", $what, e));
            }
            if let Some((tag, m)) = drv::fault_text() {
                return Err(format!("{}: [{}] {}", $what, tag, m));
            }
            let new: Vec<Pkt> = dev.with(|d| d.h.tx[tx_seen..].to_vec());
            tx_seen += new.len();
            for p in &new {
                if p.src_cid != GUEST_CID || p.dst_cid != PEER.0 || p.src_port != PORT || p.dst_port != PEER.1 || p.ty != 1 || p.len as usize != p.wire_len {
                    return Err(format!("{}: transmitted packet with wrong addressing/length/type: {:?}", $what, p));
                }
                if p.buf_alloc != capacity {
                    return Err(format!("{}: header advertises buf_alloc {} but the connection's buffer capacity is {}", $what, p.buf_alloc, capacity));
                }
                if p.fwd_cnt != app_read as u32 {
                    return Err(format!("{}: header advertises fwd_cnt {} but the application has read {} bytes (mod 2^32: {})", $what, p.fwd_cnt, app_read, app_read as u32));
                }
                // the advertised credit must not overstate the real free space
                let advertised_free = p.buf_alloc as u64 - (peer_sent - app_read).min(p.buf_alloc as u64);
                let real_free = capacity as u64 - buffered.len() as u64 - unpolled.iter().map(|x| x.1.len() as u64).sum::<u64>();
                if advertised_free > real_free {
                    return Err(format!("{}: advertised credit {} exceeds the real free receive space {}", $what, advertised_free, real_free));
                }
                seen_drv_alloc = p.buf_alloc;
                seen_drv_fwd = p.fwd_cnt;
            }
            new
        }};
    }
    // establish the connection
    if c.active {
        let r = g!("connect", mgr.connect(peer_addr, PORT));
        if r.is_err() {
            return Err(format!("connect failed: {:?}", r));
        }
        let tx = check_tx!("connect");
        if tx.len() != 1 || tx[0].op != 1 {
            return Err(format!("connect transmitted {:?}", tx.iter().map(|p| p.op).collect::<Vec<_>>()));
        }
        let p = mk_pkt(2, 0, peer_alloc, 0);
        if !dev.with(|d| world::with(|w| {
            let d = &mut *d;
            d.h.inject(w, &mut d.qs, &p, &[])
        })) {
            return Err("no receive buffer posted for the peer's RESPONSE".into());
        }
        let r = g!("poll", mgr.poll());
        if !matches!(&r, Ok(Some(e)) if e.event_type == VsockEventType::Connected) {
            return Err(format!("poll of the RESPONSE returned {:?}", r));
        }
    } else {
        mgr.listen(PORT);
        settle(&dev);
        let p = mk_pkt(1, 0, peer_alloc, 0);
        if !dev.with(|d| world::with(|w| {
            let d = &mut *d;
            d.h.inject(w, &mut d.qs, &p, &[])
        })) {
            return Err("no receive buffer posted for the peer's REQUEST".into());
        }
        let r = g!("poll", mgr.poll());
        if !matches!(&r, Ok(Some(e)) if e.event_type == VsockEventType::ConnectionRequest) {
            return Err(format!("poll of the REQUEST returned {:?}", r));
        }
        let tx = check_tx!("accept");
        if tx.len() != 1 || tx[0].op != 2 {
            return Err(format!("accept transmitted {:?}", tx.iter().map(|p| p.op).collect::<Vec<_>>()));
        }
    }
    drv_view_alloc = peer_alloc;
    drv_view_fwd = 0;
    let mut sig = Sig::new();
    sig.add(c.kind as u64).add(capacity as u64).add(rx_size as u64);
    let (mut refused_then_accepted, mut was_refused, mut ring_wrapped, mut shrink) = (false, false, false, false);
    let mut ring_pos: u64 = 0;
    for (i, op) in c.ops.iter().enumerate() {
        let what = format!("op #{} {:?}", i, op);
        world::with(|w| w.spins = 0);
        match op {
            FOp::Policy(p) => dev.with(|d| world::with(|w| d.set_policy(w, *p))),
            FOp::Send(len) => {
                let n = (*len as usize % 3000) + 1;
                let data: Vec<u8> = (0..n as u64).map(|k| dpat(1, drv_sent + k)).collect();
                let in_flight = (drv_sent as u32).wrapping_sub(drv_view_fwd);
                let free = drv_view_alloc.saturating_sub(in_flight);
                let allowed = free as usize >= n;
                let r = g!(what, mgr.send(peer_addr, PORT, &data));
                let tx = check_tx!(what);
                if allowed {
                    if r.is_err() {
                        return Err(format!("{}: refused ({:?}) although the peer's last advertised window has {} free bytes (buf_alloc {}, {} in flight)", what, r, free, drv_view_alloc, in_flight));
                    }
                    // any packetisation will do: RW packets only, carrying the caller's bytes in order
                    let sent: Vec<u8> = tx.iter().flat_map(|p| p.payload.iter().copied()).collect();
                    if tx.iter().any(|p| p.op != 5) || sent != data {
                        return Err(format!("{}: transmitted {:?}; expected RW packets carrying exactly the caller's {} bytes", what, tx.iter().map(|p| (p.op, p.len)).collect::<Vec<_>>(), n));
                    }
                    drv_sent += n as u64;
                    if was_refused {
                        refused_then_accepted = true;
                    }
                } else {
                    if r != Err(Error::SocketDeviceError(SocketError::InsufficientBufferSpaceInPeer)) {
                        let sent_rw = tx.iter().any(|p| p.op == 5);
                        return Err(format!(
                            "[D8] {}: returned {:?}{} although {} bytes are in flight towards a peer that last advertised buf_alloc {} (free {}): payload in flight would exceed the advertised free space",
                            what,
                            r,
                            if sent_rw { " and transmitted the data" } else { "" },
                            in_flight,
                            drv_view_alloc,
                            free
                        ));
                    }
                    was_refused = true;
                    let want_req = !credit_request_pending;
                    let got_req = tx.iter().filter(|p| p.op == 7).count();
                    if tx.iter().any(|p| p.op == 5) || got_req != want_req as usize || tx.len() != got_req {
                        return Err(format!("{}: refused send transmitted {:?}; expected {} CREDIT_REQUEST", what, tx.iter().map(|p| p.op).collect::<Vec<_>>(), want_req as usize));
                    }
                    credit_request_pending = true;
                }
                sig.add(1).add(allowed as u64);
            }
            FOp::Recv(n) => {
                let n = *n as usize % 5000;
                let mut buf = vec![0u8; n];
                let r = g!(what, mgr.recv(peer_addr, PORT, &mut buf));
                let k = n.min(buffered.len());
                match r {
                    Ok(got) if got == k => {
                        for (j, b) in buf[..got].iter().enumerate() {
                            let want = buffered.pop_front().unwrap();
                            if *b != want {
                                return Err(format!("{}: byte {} of the stream is {:#x}, the peer sent {:#x}", what, app_read + j as u64, b, want));
                            }
                        }
                        app_read += got as u64;
                        let before = ring_pos % capacity as u64;
                        ring_pos += got as u64;
                        if got > 0 && before + got as u64 > capacity as u64 {
                            ring_wrapped = true;
                        }
                    }
                    other => return Err(format!("{}: returned {:?}, {} bytes are buffered", what, other, buffered.len())),
                }
                let _ = check_tx!(what);
                sig.add(2);
            }
            FOp::PeerData { frac, parts } => {
                settle(&dev);
                // the peer honours the credit it derives from the last header it saw
                let in_flight = (peer_sent as u32).wrapping_sub(seen_drv_fwd);
                let credit = seen_drv_alloc.saturating_sub(in_flight) as usize;
                let total = (*frac as usize * (credit + 1)) >> 16;
                if total == 0 {
                    continue;
                }
                let parts = (*parts as usize % 4) + 1;
                let mut left = total;
                for pi in 0..parts {
                    if left == 0 {
                        break;
                    }
                    let max_pkt = rx_size - 44;
                    let mut n = if pi + 1 == parts { left } else { (left / 2).max(1) };
                    n = n.min(max_pkt);
                    let payload: Vec<u8> = (0..n as u64).map(|k| dpat(2, peer_sent + k)).collect();
                    let p = mk_pkt(5, n as u32, peer_alloc, peer_consumed as u32);
                    let ok = dev.with(|d| world::with(|w| {
                        let d = &mut *d;
                        d.h.inject(w, &mut d.qs, &p, &payload)
                    }));
                    if !ok {
                        break; // no receive buffer available: the peer waits
                    }
                    peer_sent += n as u64;
                    left -= n;
                    unpolled.push_back((p, payload));
                }
                sig.add(3);
            }
            FOp::PeerCredit { alloc, consume } => {
                settle(&dev);
                let in_flight = drv_sent - peer_consumed;
                let eat = (*consume as u64 * (in_flight + 1)) >> 16;
                peer_consumed += eat;
                let new_alloc = match alloc % 6 {
                    0 => 0,
                    1 => (in_flight - eat).saturating_sub(1 + (*alloc as u64 >> 8) % 50) as u32, // below what is in flight
                    2 => (*alloc >> 4) % 5000,
                    3 => peer_alloc.wrapping_add(*alloc >> 4),
                    4 => u32::MAX,
                    _ => *alloc,
                };
                if (new_alloc as u64) < in_flight - eat {
                    shrink = true;
                }
                peer_alloc = new_alloc;
                let p = mk_pkt(6, 0, peer_alloc, peer_consumed as u32);
                if dev.with(|d| world::with(|w| {
                    let d = &mut *d;
                    d.h.inject(w, &mut d.qs, &p, &[])
                })) {
                    unpolled.push_back((p, vec![]));
                }
                sig.add(4).add((alloc % 6) as u64);
            }
            FOp::PeerCreditRequest => {
                settle(&dev);
                let p = mk_pkt(7, 0, peer_alloc, peer_consumed as u32);
                if dev.with(|d| world::with(|w| {
                    let d = &mut *d;
                    d.h.inject(w, &mut d.qs, &p, &[])
                })) {
                    unpolled.push_back((p, vec![]));
                }
            }
            FOp::UpdateCredit => {
                let r = g!(what, mgr.update_credit(peer_addr, PORT));
                let tx = check_tx!(what);
                if r.is_err() || tx.len() != 1 || tx[0].op != 6 {
                    return Err(format!("{}: returned {:?}, transmitted {:?}", what, r, tx.iter().map(|p| p.op).collect::<Vec<_>>()));
                }
            }
            FOp::Poll => {
                let rx0 = dev.with(|d| d.h.rx_sizes.len());
                let r = g!(what, mgr.poll());
                if unpolled.is_empty() {
                    if r != Ok(None) {
                        return Err(format!("{}: nothing pending but poll returned {:?}", what, r));
                    }
                    continue;
                }
                // One poll may work through several delivered packets (read off the receive
                // buffers that came back); only the last can be the source of the result, the
                // earlier ones must be packets that yield no event (credit requests).
                settle(&dev);
                let batch = (dev.with(|d| d.h.rx_sizes.len()) - rx0).clamp(1, unpolled.len());
                let mut requests_in_batch = 0usize;
                for nth in 0..batch - 1 {
                    let (q, _) = unpolled.pop_front().unwrap();
                    if q.op != 7 {
                        return Err(format!("{}: this poll consumed {} packets; packet {} (op {}) produces an event but was not the last one, so its event was lost", what, batch, nth + 1, q.op));
                    }
                    drv_view_alloc = q.buf_alloc;
                    drv_view_fwd = q.fwd_cnt;
                    requests_in_batch += 1;
                }
                let (p, payload) = unpolled.pop_front().unwrap();
                drv_view_alloc = p.buf_alloc;
                drv_view_fwd = p.fwd_cnt;
                let mut tx_poll: Option<Vec<Pkt>> = None;
                match p.op {
                    5 => {
                        match &r {
                            Ok(Some(e)) if e.event_type == (VsockEventType::Received { length: payload.len() }) => {}
                            Err(Error::SocketDeviceError(SocketError::OutputBufferTooShort(_))) => {
                                return Err(format!("{}: the peer stayed within the advertised credit but {} bytes did not fit into the connection's buffer ({} of {} used): data lost", what, payload.len(), buffered.len(), capacity));
                            }
                            other => return Err(format!("{}: data packet returned {:?}", what, other)),
                        }
                        buffered.extend(payload.iter().copied());
                        let tx = check_tx!(what);
                        tx_poll = Some(tx.clone());
                        // an unsolicited credit update (its header was checked above) is the
                        // implementation's choice; anything else is not
                        if tx.iter().any(|p| p.op != 6) {
                            return Err(format!("{}: unexpected transmissions {:?}", what, tx.iter().map(|p| p.op).collect::<Vec<_>>()));
                        }
                    }
                    6 => {
                        credit_request_pending = false;
                        if !matches!(&r, Ok(Some(e)) if e.event_type == VsockEventType::CreditUpdate) {
                            return Err(format!("{}: credit update returned {:?}", what, r));
                        }
                        tx_poll = Some(check_tx!(what));
                    }
                    7 => {
                        if r != Ok(None) {
                            return Err(format!("{}: credit request returned {:?}", what, r));
                        }
                        requests_in_batch += 1;
                    }
                    _ => {}
                }
                if requests_in_batch > 0 {
                    // every credit request is answered with a credit update (further, unsolicited
                    // ones are the implementation's choice), and with nothing else
                    let tx = match tx_poll {
                        Some(t) => t,
                        None => check_tx!(what),
                    };
                    if tx.len() < requests_in_batch || tx.iter().any(|p| p.op != 6) {
                        return Err(format!("{}: {} credit request(s) answered with {:?}", what, requests_in_batch, tx.iter().map(|p| p.op).collect::<Vec<_>>()));
                    }
                }
                let avail = g!(what, mgr.available(peer_addr, PORT));
                if avail != Ok(buffered.len()) {
                    return Err(format!("{}: recv_buffer_available_bytes = {:?}, model has {}", what, avail, buffered.len()));
                }
                sig.add(5).add(p.op as u64);
            }
        }
    }
    // the peer may end the stream; what it sent before stays readable
    if c.close % 4 != 0 {
        while !unpolled.is_empty() {
            let rx0 = dev.with(|d| d.h.rx_sizes.len());
            let r = g!("pre-close poll", mgr.poll());
            settle(&dev);
            let batch = (dev.with(|d| d.h.rx_sizes.len()) - rx0).clamp(1, unpolled.len());
            for nth in 0..batch {
                let (p, payload) = unpolled.pop_front().unwrap();
                let last = nth + 1 == batch;
                if !last && p.op != 7 {
                    return Err(format!("pre-close: one poll consumed {} packets; packet {} (op {}) produces an event but was not the last one, so its event was lost", batch, nth + 1, p.op));
                }
                if p.op == 5 {
                    if !matches!(&r, Ok(Some(_))) {
                        return Err(format!("pre-close: data packet returned {:?}", r));
                    }
                    buffered.extend(payload.iter().copied());
                }
            }
            let _ = check_tx!("pre-close");
        }
        let seq: &[u16] = match c.close % 4 {
            1 => &[4],
            2 => &[3],
            _ => &[4, 3],
        };
        let mut gone = false;
        for &op in seq {
            settle(&dev);
            let mut p = mk_pkt(op, 0, peer_alloc, peer_consumed as u32);
            if op == 4 {
                p.flags = 3;
            }
            let ok = dev.with(|d| world::with(|w| {
                let d = &mut *d;
                d.h.inject(w, &mut d.qs, &p, &[])
            }));
            if !ok {
                break;
            }
            let r = g!("peer close", mgr.poll());
            if gone {
                if r != Ok(None) {
                    return Err(format!("peer close: packet for the already closed connection returned {:?}", r));
                }
            } else if !matches!(&r, Ok(Some(e)) if matches!(e.event_type, VsockEventType::Disconnected { .. })) {
                return Err(format!("peer close (op {}): poll returned {:?}", op, r));
            }
            let _ = check_tx!("peer close");
            if buffered.is_empty() {
                gone = true; // nothing to drain: the connection is dropped at once
            }
        }
        closed = true;
    }
    // drain: everything the peer sent must come out, in order
    loop {
        while !unpolled.is_empty() {
            let rx0 = dev.with(|d| d.h.rx_sizes.len());
            let r = g!("drain poll", mgr.poll());
            settle(&dev);
            let batch = (dev.with(|d| d.h.rx_sizes.len()) - rx0).clamp(1, unpolled.len());
            for nth in 0..batch {
                let (p, payload) = unpolled.pop_front().unwrap();
                let last = nth + 1 == batch;
                if !last && p.op != 7 {
                    return Err(format!("drain: one poll consumed {} packets; packet {} (op {}) produces an event but was not the last one, so its event was lost", batch, nth + 1, p.op));
                }
                if p.op == 5 {
                    if !matches!(&r, Ok(Some(_))) {
                        return Err(format!("drain: data packet returned {:?}", r));
                    }
                    buffered.extend(payload.iter().copied());
                }
            }
            let _ = check_tx!("drain");
        }
        if buffered.is_empty() {
            break;
        }
        let mut buf = vec![0u8; 4096];
        let r = g!("drain recv", mgr.recv(peer_addr, PORT, &mut buf));
        match r {
            Ok(got) if got == buffered.len().min(4096) => {
                for b in &buf[..got] {
                    if *b != buffered.pop_front().unwrap() {
                        return Err("drain: stream bytes differ from what the peer sent".into());
                    }
                }
                app_read += got as u64;
            }
            other => return Err(format!("drain: recv returned {:?} with {} bytes buffered", other, buffered.len())),
        }
    }
    if app_read != peer_sent {
        return Err(format!("the peer sent {} bytes but the application could read {}", peer_sent, app_read));
    }
    g!("drop", drop(mgr));
    if closed {
        st.class("peer_closed_the_stream_before_the_drain");
    }
    if refused_then_accepted {
        st.class("send_refused_for_credit_then_accepted");
    }
    if ring_wrapped {
        st.class("receive_ring_buffer_wrapped");
    }
    if shrink {
        st.class("peer_shrank_window_below_in_flight");
    }
    if refused_then_accepted || ring_wrapped {
        st.nontrivial(sig.get(), || json!({"kind": c.kind, "capacity": capacity, "rx": rx_size, "active": c.active, "ops": c.ops.iter().take(30).collect::<Vec<_>>()}));
    }
    Ok(())
}

// ---------------------------------------------------------------------------------------------
// counter wrap with large steps: ConnectionInfo + VirtIOSocket directly

#[derive(Clone, Debug, Serialize, Deserialize, PartialEq)]
pub enum WOp {
    /// application reads `n` bytes (done_forwarding)
    Forward(u32),
    /// send `n` bytes (big buffers are not copied: remap Hal)
    Send(u32),
    /// peer credit update: window selector and fraction of in-flight consumed
    Credit { alloc: u32, consume: u16 },
    /// ask for a header (credit_update) to observe fwd_cnt
    Observe,
}

#[derive(Clone, Debug, Serialize, Deserialize)]
pub struct WCase {
    pub ops: Vec<WOp>,
}

const BIG: usize = 1 << 28;

pub fn check_wrap(c: &WCase, st: &mut Stats, known: &Known) -> Result<(), String> {
    match wrap_inner(c, st) {
        Err(m) if known.d8 && is_d8(&m) => {
            st.known_excluded += 1;
            *st.known_hits.entry(KEY_D8.to_string()).or_insert(0) += 1;
            Ok(())
        }
        other => other,
    }
}

fn wrap_inner(c: &WCase, st: &mut Stats) -> Result<(), String> {
    let mut cfg = vec![0u8; 8];
    cfg[..8].copy_from_slice(&GUEST_CID.to_le_bytes());
    drv::setup_world(TK::Model, 1 << 32, cfg, 64);
    world::with(|w| w.hal.bounce = false);
    let dev = Shared::install(SimDev::new(3, Serve::OnNotify, {
        let mut d = VsockDev::new();
        d.keep = 16;
        d
    }));
    let t = crate::dev::MTransport::new();
    let mut sock = match guard(|| VirtIOSocket::<LHal, _, 512>::new(t)) {
        Caught::Ok(Ok(s)) => s,
        other => return Err(format!("VirtIOSocket::new failed: {}", matches!(other, Caught::Ok(_)))),
    };
    macro_rules! g {
        ($what:expr, $e:expr) => {
            match guard(|| $e) {
                Caught::Ok(r) => r,
                Caught::Panic(p) => return Err(format!("{}: {}", $what, p.render())),
                Caught::Escape(e) => return Err(format!("{}: {:?}", $what, e)),
            }
        };
    }
    // one zero page mapped repeatedly would be ideal; a lazily touched allocation is enough
    let big: Vec<u8> = vec![0u8; BIG];
    let mut info = ConnectionInfo::new(VsockAddr { cid: PEER.0, port: PEER.1 }, PORT);
    info.buf_alloc = 4096;
    // model, free-running
    let mut fwd: u64 = 0;
    let mut tx: u64 = 0;
    let mut peer_alloc: u32 = 0;
    let mut peer_fwd: u64 = 0;
    let mut credit_req_pending = false;
    let mut tx_seen = 0usize;
    let mut crossed = false;
    let mut sig = Sig::new();
    for (i, op) in c.ops.iter().enumerate() {
        let what = format!("op #{} {:?}", i, op);
        match op {
            WOp::Forward(n) => {
                let before = fwd;
                g!(what, info.done_forwarding(*n as usize));
                fwd += *n as u64;
                if before >> 32 != fwd >> 32 {
                    crossed = true;
                }
                sig.add(1);
            }
            WOp::Credit { alloc, consume } => {
                let in_flight = tx - peer_fwd;
                // 65535 = everything received so far has been consumed
                let eat = if *consume == 65535 { in_flight } else { (*consume as u64 * (in_flight + 1)) >> 16 };
                let before = peer_fwd;
                peer_fwd += eat;
                if before >> 32 != peer_fwd >> 32 {
                    crossed = true;
                }
                peer_alloc = match alloc % 5 {
                    0 => u32::MAX,
                    1 => 1 << 30,
                    2 => ((in_flight - eat) as u32).saturating_sub(1 + (*alloc >> 8) % 1000),
                    3 => *alloc,
                    _ => (*alloc >> 3) % 100_000,
                };
                let p = Pkt { src_cid: PEER.0, dst_cid: GUEST_CID, src_port: PEER.1, dst_port: PORT, len: 0, ty: 1, op: 6, flags: 0, buf_alloc: peer_alloc, fwd_cnt: peer_fwd as u32, payload: vec![], wire_len: 0 };
                for _ in 0..3 {
                    dev.turn_spin();
                }
                let ok = dev.with(|d| world::with(|w| {
                    let d = &mut *d;
                    d.h.inject(w, &mut d.qs, &p, &[])
                }));
                if !ok {
                    return Err(format!("{}: no receive buffer posted", what));
                }
                let mut got = None;
                let r = g!(what, sock.poll(|ev, _body| {
                    got = Some(ev.clone());
                    Ok(Some(ev))
                }));
                if r.is_err() || got.is_none() {
                    return Err(format!("{}: poll returned {:?}", what, r));
                }
                g!(what, info.update_for_event(got.as_ref().unwrap()));
                credit_req_pending = false;
                sig.add(2).add((alloc % 5) as u64);
            }
            WOp::Send(n) => {
                let n = (*n as usize % BIG) + 1;
                let in_flight = (tx as u32).wrapping_sub(peer_fwd as u32);
                let free = peer_alloc.saturating_sub(in_flight);
                let allowed = free as usize >= n;
                let r = g!(what, sock.send(&big[..n], &mut info));
                let new: Vec<Pkt> = dev.with(|d| d.h.tx[tx_seen..].to_vec());
                tx_seen += new.len();
                if allowed {
                    // any packetisation: RW packets only whose lengths add up to the send
                    if r.is_err() || new.iter().any(|p| p.op != 5) || new.iter().map(|p| p.len as usize).sum::<usize>() != n {
                        return Err(format!("[D8] {}: window has {} free bytes (buf_alloc {}, in flight {}) but send returned {:?} / transmitted {:?}", what, free, peer_alloc, in_flight, r, new.iter().map(|p| (p.op, p.len)).collect::<Vec<_>>()));
                    }
                    let before = tx;
                    tx += n as u64;
                    if before >> 32 != tx >> 32 {
                        crossed = true;
                    }
                } else {
                    if r != Err(Error::SocketDeviceError(SocketError::InsufficientBufferSpaceInPeer)) || new.iter().any(|p| p.op == 5) {
                        return Err(format!("[D8] {}: {} bytes in flight, peer advertised buf_alloc {} (free {}), yet send of {} bytes returned {:?} / transmitted {:?}", what, in_flight, peer_alloc, free, n, r, new.iter().map(|p| (p.op, p.len)).collect::<Vec<_>>()));
                    }
                    let reqs = new.iter().filter(|p| p.op == 7).count();
                    if reqs != (!credit_req_pending) as usize {
                        return Err(format!("{}: refused send emitted {} credit requests (one already pending: {})", what, reqs, credit_req_pending));
                    }
                    credit_req_pending = true;
                }
                for p in &new {
                    if p.fwd_cnt != fwd as u32 || p.buf_alloc != 4096 {
                        return Err(format!("{}: header fwd_cnt {} / buf_alloc {}, expected {} / 4096", what, p.fwd_cnt, p.buf_alloc, fwd as u32));
                    }
                }
                sig.add(3).add(allowed as u64);
            }
            WOp::Observe => {
                let r = g!(what, sock.credit_update(&info));
                let new: Vec<Pkt> = dev.with(|d| d.h.tx[tx_seen..].to_vec());
                tx_seen += new.len();
                if r.is_err() || new.len() != 1 || new[0].op != 6 || new[0].fwd_cnt != fwd as u32 {
                    return Err(format!("{}: credit_update returned {:?}; header fwd_cnt {:?}, application has read {} (mod 2^32: {})", what, r, new.first().map(|p| p.fwd_cnt), fwd, fwd as u32));
                }
            }
        }
        if let Some(e) = dev.with(|d| d.h.errors.first().cloned()) {
            return Err(format!("{}: reference peer: {}", what, e));
        }
        if let Some((tag, m)) = drv::fault_text() {
            return Err(format!("{}: [{}] {}", what, tag, m));
        }
    }
    let _ = guard(move || drop(sock));
    drop(big);
    if crossed {
        st.class("counter_crossed_2_pow_32");
        st.nontrivial(sig.get(), || json!({"wrap_ops": c.ops.iter().take(30).collect::<Vec<_>>()}));
    }
    Ok(())
}

fn fop() -> impl Strategy<Value = FOp> {
    prop_oneof![
        6 => any::<u16>().prop_map(FOp::Send),
        6 => any::<u16>().prop_map(FOp::Recv),
        6 => (any::<u16>(), any::<u8>()).prop_map(|(frac, parts)| FOp::PeerData { frac, parts }),
        4 => (any::<u32>(), any::<u16>()).prop_map(|(alloc, consume)| FOp::PeerCredit { alloc, consume }),
        1 => Just(FOp::PeerCreditRequest),
        1 => Just(FOp::UpdateCredit),
        10 => Just(FOp::Poll),
        1 => drv::serve_strategy().prop_map(FOp::Policy),
    ]
}

pub fn stream_strategy() -> impl Strategy<Value = FCase> {
    (
        drv::tk_strategy(),
        drv::feature_strategy(&[]),
        drv::serve_strategy(),
        prop_oneof![Just(0u16), 1u16..64, 64u16..1024, any::<u16>()],
        0u8..3,
        any::<bool>(),
        prop_oneof![Just(0u32), 1u32..200, 1000u32..100_000, Just(u32::MAX)],
        prop::collection::vec(fop(), 0..80),
        prop_oneof![3 => Just(0u8), 1 => Just(1u8), 2 => Just(2u8), 1 => Just(3u8)],
    )
        .prop_map(|(kind, offered, policy, capacity, rxsel, active, peer_alloc0, ops, close)| FCase { kind, offered, policy, capacity, rxsel, active, peer_alloc0, ops, close })
}

fn wop() -> impl Strategy<Value = WOp> {
    prop_oneof![
        4 => prop_oneof![any::<u32>(), Just(u32::MAX), 0u32..1000, (1u32..16).prop_map(|k| k << 28)].prop_map(WOp::Forward),
        6 => prop_oneof![any::<u32>(), Just(BIG as u32 - 1), 0u32..5000].prop_map(WOp::Send),
        4 => (any::<u32>(), prop_oneof![Just(65535u16), any::<u16>()]).prop_map(|(alloc, consume)| WOp::Credit { alloc, consume }),
        2 => Just(WOp::Observe),
    ]
}

/// `alloc` argument of `WOp::Credit` that makes the peer advertise a window of exactly `w` (< 100000) bytes.
fn alloc_for(w: u32) -> u32 {
    (0..8).map(|r| w * 8 + r).find(|a| a % 5 == 4).unwrap()
}

/// Brings the transmit counter to 2^32 - `below` with everything acknowledged, then makes the peer
/// advertise a window of `w` bytes.
fn near_wrap_prefix(below: u32, w: u32) -> Vec<WOp> {
    let mut ops = vec![WOp::Credit { alloc: 0, consume: 0 }];
    for _ in 0..15 {
        ops.push(WOp::Send(BIG as u32 - 1));
        ops.push(WOp::Credit { alloc: 0, consume: 65535 });
    }
    ops.push(WOp::Send(BIG as u32 - 1 - below));
    ops.push(WOp::Credit { alloc: alloc_for(w), consume: 65535 });
    ops
}

fn wop_small() -> impl Strategy<Value = WOp> {
    prop_oneof![
        1 => (0u32..1000).prop_map(WOp::Forward),
        8 => (0u32..3000).prop_map(WOp::Send),
        4 => ((1u32..3000).prop_map(alloc_for), prop_oneof![Just(65535u16), Just(0u16), any::<u16>()]).prop_map(|(alloc, consume)| WOp::Credit { alloc, consume }),
        1 => Just(WOp::Observe),
    ]
}

pub fn wrap_strategy() -> impl Strategy<Value = WCase> {
    prop_oneof![
        2 => prop::collection::vec(wop(), 0..60).prop_map(|ops| WCase { ops }),
        // start just below the wrap of the transmit counter with a small window
        1 => (1u32..4000, 1u32..3000, prop::collection::vec(wop_small(), 1..30)).prop_map(|(below, w, ops)| WCase { ops: near_wrap_prefix(below, w).into_iter().chain(ops).collect() }),
    ]
}

#[derive(Clone, Debug, Serialize, Deserialize)]
pub enum Item {
    Wrap(WCase),
}

pub fn replay(engine: &str, case: &serde_json::Value) -> Result<(), String> {
    let k = Known { d8: false };
    let mut st = Stats::default();
    match engine {
        "vsock-wrap" => check_wrap(&serde_json::from_value(case.clone()).map_err(|e| e.to_string())?, &mut st, &k),
        "items" => {
            let Item::Wrap(w) = serde_json::from_value(case.clone()).map_err(|e| e.to_string())?;
            check_wrap(&w, &mut st, &k)
        }
        _ => check_stream(&serde_json::from_value(case.clone()).map_err(|e| e.to_string())?, &mut st, &k),
    }
}

pub fn run(ctx: &Ctx) -> Report {
    let kn = load_known(&ctx.root);
    let known = Known { d8: known_open(&kn, "C17", KEY_D8) };
    let mut stats = Stats::default();
    // deterministic wrap runs: push every counter past 2^32
    let mut items = Vec::new();
    for v in 0..4u32 {
        let mut ops = Vec::new();
        ops.push(WOp::Credit { alloc: 0, consume: 0 }); // window u32::MAX
        for k in 0..40u32 {
            ops.push(WOp::Send(BIG as u32 - 1 - v));
            if k % 3 == v % 3 {
                ops.push(WOp::Credit { alloc: 0, consume: 65535 });
            }
            ops.push(WOp::Forward(0x1000_0000 + v * 7));
            if k % 5 == 0 {
                ops.push(WOp::Observe);
            }
        }
        ops.push(WOp::Observe);
        items.push(Item::Wrap(WCase { ops }));
    }
    // deterministic runs with a *tight* window while the transmit counter has wrapped and the
    // peer's forward counter has not: bytes in flight straddle 2^32, then sends just inside and
    // just outside the remaining credit
    for &w in &[64u32, 1000, 4096, 99_999] {
        for &a in &[1u32, w / 2, w - 1] {
            for &extra in &[0u32, 1, a] {
                items.push(Item::Wrap(WCase { ops: near_wrap_prefix(16, w).into_iter().chain([WOp::Send(a - 1), WOp::Send((w - a + extra).max(1) - 1), WOp::Observe, WOp::Credit { alloc: alloc_for(w), consume: 30_000 }, WOp::Send(w / 3), WOp::Send(w - 1)]).collect() }));
            }
        }
    }
    // a peer with a window of nearly 4 GiB that lags by 2^31 bytes or more (no counter wrap
    // involved): its packets must not make the driver forget what is in flight
    for before in [8u32, 9, 12] {
        for alloc in [0u32, 5] {
            let mut ops = vec![WOp::Credit { alloc, consume: 0 }];
            ops.extend((0..before).map(|_| WOp::Send(BIG as u32 - 1)));
            ops.push(WOp::Credit { alloc, consume: 0 });
            ops.push(WOp::Observe);
            ops.extend((before..17).map(|_| WOp::Send(BIG as u32 - 1)));
            ops.push(WOp::Credit { alloc, consume: 30000 });
            ops.extend((0..4).map(|_| WOp::Send(BIG as u32 - 1)));
            items.push(Item::Wrap(WCase { ops }));
        }
    }
    let (st, mut failure) = run_items(ctx, "items", items, |it: &Item, st| match it {
        Item::Wrap(w) => check_wrap(w, st, &known),
    });
    stats.merge(st);
    if failure.is_none() {
        let (st, f) = run_proptest(ctx, "vsock-wrap", 172, ctx.n(6_000, 600_000), wrap_strategy, |c: &WCase, st| check_wrap(c, st, &known));
        stats.merge(st);
        failure = f;
    }
    if failure.is_none() {
        let (st, f) = run_proptest(ctx, "vsock-stream", 171, ctx.n(60_000, 4_000_000), stream_strategy, |c: &FCase, st| check_stream(c, st, &known));
        stats.merge(st);
        failure = f;
    }
    Report {
        stats,
        failure,
        info: PartInfo {
            level: "exploration",
            rule: "(a) proptest histories on VsockConnectionManager (capacity 1..=8192, RX buffer 64/512/65532, active and passive open, all transports and device policies): send, recv(n), peer data within the credit derived from the last header the peer saw (any packetisation), peer credit updates that grow, shrink (below the bytes in flight) or zero the window, credit requests, update_credit, poll. The reference peer checks every transmitted header (addressing, len, type, buf_alloc = capacity, fwd_cnt = bytes read), the credit invariant on every data packet, a single CREDIT_REQUEST per refusal, that advertised credit never exceeds real free space, and end-to-end stream equality after a final drain. (b) ConnectionInfo + VirtIOSocket driven directly with steps of up to 2^32-1 forwarded bytes and 256 MiB sends under a non-copying Hal, so that tx, fwd and peer counters cross 2^32 within tens of operations (deterministic runs + proptest), including runs that start just below the wrap of the transmit counter with a tight window, so that bytes in flight straddle 2^32 while sends just inside / just outside the remaining credit are made. Non-trivial = a send refused for credit and later accepted, a receive ring-buffer wrap, or a counter crossing 2^32. distinct = (transport, capacity, op kinds/outcomes).",
            assumptions: vec!["capacity 0 is not generated (a zero-byte ring buffer cannot receive and the crate's modulo would divide by zero)".into(), "the peer never claims to have consumed more than was sent".into()],
            exhaustive: false,
            extra: json!({}),
        },
    }
}
