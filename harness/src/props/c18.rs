//! C18: socket connection state follows the protocol and connections are isolated.
//! Lock-step model of the connection table.

use crate::devq::{Serve, Shared, SimDev};
use crate::devs_vsock::{Pkt, VsockDev};
use crate::hal::LHal;
use crate::props::drv;
use crate::runner::{guard, run_proptest, Caught, Ctx, PartInfo, Report, Sig, Stats};
use crate::tkind::{with_transport, WithT, TK};
use crate::world::{self, Escape};
use proptest::prelude::*;
use serde::{Deserialize, Serialize};
use serde_json::json;
use std::collections::VecDeque;
use virtio_drivers::device::socket::{DisconnectReason, SocketError, VirtIOSocket, VsockAddr, VsockConnectionManager, VsockEventType};
use virtio_drivers::transport::Transport;
use virtio_drivers::Error;

pub const GUEST_CID: u64 = 0x42;
/// per-connection buffer capacity (deliberately not a power of two)
pub const CAPACITY: u32 = 250;
// same CID / different port, and same port / CIDs that differ only above bit 31
const PEERS: [(u64, u32); 3] = [(2, 1000), (2, 1001), (0x1_0000_0002, 1000)];
const PORTS: [u32; 3] = [80, 81, 9000];

#[derive(Clone, Debug, Serialize, Deserialize, PartialEq)]
pub enum VOp {
    Listen(u8),
    Unlisten(u8),
    Connect(u8, u8),
    Send(u8, u8, u16),
    Recv(u8, u8, u16),
    Shutdown(u8, u8),
    ForceClose(u8, u8),
    UpdateCredit(u8, u8),
    Poll,
    /// peer packet for (peer, port): op code, payload length, flags; `bad_cid`: wrong dst cid
    Peer { peer: u8, port: u8, op: u16, len: u16, bad_cid: bool },
    Policy(Serve),
}

#[derive(Clone, Debug, Serialize, Deserialize)]
pub struct VCase {
    pub kind: TK,
    pub offered: u64,
    pub policy: Serve,
    pub ops: Vec<VOp>,
    /// 4096-byte receive buffers and a 4096-byte per-connection buffer, data packets of up to 2000
    /// bytes (default: 512 / 256 / 100)
    #[serde(default)]
    pub big: bool,
}

struct MConn {
    peer: (u64, u32),
    port: u32,
    established: bool,
    peer_shutdown: bool,
    /// the peer closed with a RST (answering a reset with a reset once drained is optional)
    peer_reset: bool,
    buffered: VecDeque<u8>,
    /// bytes the application has read (fwd_cnt)
    read_total: u32,
    /// bytes the peer has sent on this connection
    peer_sent: u64,
    /// bytes we sent
    sent: u64,
    id: u8,
}

fn tag(id: u8, k: u64) -> u8 {
    id.wrapping_mul(37).wrapping_add(k as u8).wrapping_mul(3) ^ 0x2b
}

struct Run<'a> {
    c: &'a VCase,
    dev: Shared<VsockDev>,
    st: &'a mut Stats,
}

impl WithT for Run<'_> {
    type Out = Result<(), String>;
    fn call<T: Transport + 'static>(self, t: T) -> Self::Out {
        if self.c.big {
            self.body::<T, 4096>(t, 4000, 2000)
        } else {
            self.body::<T, 512>(t, CAPACITY, 100)
        }
    }
}

impl Run<'_> {
    fn body<T: Transport + 'static, const RX: usize>(self, t: T, capacity: u32, max_data: usize) -> Result<(), String> {
        let Run { c, dev, st } = self;
        macro_rules! g {
            ($what:expr, $e:expr) => {
                match guard(|| $e) {
                    Caught::Ok(r) => r,
                    Caught::Panic(p) => return Err(format!("{}: {}", $what, p.render())),
                    Caught::Escape(Escape::LostWakeup(m)) => return Err(format!("{}: lost wake-up: {}", $what, m)),
                    Caught::Escape(Escape::Starved(m)) => return Err(format!("{}: blocking call never returns: {}", $what, m)),
                    Caught::Escape(e) => return Err(format!("{}: inconclusive {:?}", $what, e)),
                }
            };
        }
        let sock = match g!("VirtIOSocket::new", VirtIOSocket::<LHal, T, RX>::new(t)) {
            Ok(s) => s,
            Err(e) => return Err(format!("VirtIOSocket::new failed: {:?}", e)),
        };
        if sock.guest_cid() != GUEST_CID {
            return Err(format!("guest_cid() = {:#x}", sock.guest_cid()));
        }
        let mut mgr = VsockConnectionManager::new_with_capacity(sock, capacity);
        let settle = |dev: &Shared<VsockDev>| {
            for _ in 0..6 {
                dev.turn_spin();
            }
        };
        settle(&dev);
        let chk = |dev: &Shared<VsockDev>, what: &str, unpolled: usize| -> Result<(), String> {
            if let Some(e) = dev.with(|d| d.h.errors.first().cloned()) {
                return Err(format!("{}: reference peer: {}", what, e));
            }
            if let Some((tag, m)) = drv::fault_text() {
                return Err(format!("{}: [{}] {}", what, tag, m));
            }
            let posted = dev.with(|d| d.h.rx_posted.len());
            if posted + unpolled != 8 {
                return Err(format!("{}: {} receive buffers are posted with {} packets delivered and not yet polled, expected {}", what, posted, unpolled, 8 - unpolled));
            }
            Ok(())
        };
        chk(&dev, "after construction", 0)?;
        let mut conns: Vec<MConn> = Vec::new();
        let mut listening: Vec<u32> = Vec::new();
        let mut next_id = 1u8;
        let mut pending_pkts = 0usize; // injected, not yet polled
        let mut expected_polls: VecDeque<(Pkt, Vec<u8>)> = VecDeque::new();
        let mut sig = Sig::new();
        sig.add(c.kind as u64);
        let (mut max_conns, mut unknown_pkt) = (0usize, false);
        let mut dup_request = false;
        let find = |conns: &Vec<MConn>, peer: (u64, u32), port: u32| conns.iter().position(|m| m.peer == peer && m.port == port);
        for (i, op) in c.ops.iter().enumerate() {
            let what = format!("op #{} {:?}", i, op);
            world::with(|w| w.spins = 0);
            let tx0 = dev.with(|d| d.h.tx.len());
            // expected packets the driver transmits during this op: (op, peer, port, payload, flags)
            let mut want_tx: Vec<(u16, (u64, u32), u32, Vec<u8>, u32, u32)> = Vec::new();
            let mut skip_tx_check = false;
            // indices into want_tx of replies sent on behalf of no connection (any buf_alloc)
            let mut any_alloc: Vec<usize> = Vec::new();
            match op {
                VOp::Policy(p) => dev.with(|d| world::with(|w| d.set_policy(w, *p))),
                VOp::Listen(p) => {
                    let port = PORTS[*p as usize % 3];
                    mgr.listen(port);
                    if !listening.contains(&port) {
                        listening.push(port);
                    }
                }
                VOp::Unlisten(p) => {
                    let port = PORTS[*p as usize % 3];
                    mgr.unlisten(port);
                    listening.retain(|x| *x != port);
                }
                VOp::Connect(pe, p) => {
                    let peer = PEERS[*pe as usize % 3];
                    let port = PORTS[*p as usize % 3];
                    // not generated: connecting while a non-REQUEST packet that the same peer sent for
                    // the same port, when the connection did not exist yet, is still waiting to be
                    // polled (its payload and credit were made up for an unknown connection). A pending
                    // REQUEST is fine: it becomes a REQUEST for an existing connection (see Poll).
                    if expected_polls.iter().any(|(q, _)| q.op != 1 && (q.src_cid, q.src_port) == peer && q.dst_port == port && q.dst_cid == GUEST_CID) {
                        continue;
                    }
                    let r = g!(what, mgr.connect(VsockAddr { cid: peer.0, port: peer.1 }, port));
                    if find(&conns, peer, port).is_some() {
                        if r != Err(Error::SocketDeviceError(SocketError::ConnectionExists)) {
                            return Err(format!("{}: duplicate connect returned {:?}", what, r));
                        }
                    } else {
                        if r.is_err() {
                            return Err(format!("{}: returned {:?}", what, r));
                        }
                        want_tx.push((1, peer, port, vec![], 0, 0));
                        conns.push(MConn { peer, port, established: false, peer_shutdown: false, peer_reset: false, buffered: VecDeque::new(), read_total: 0, peer_sent: 0, sent: 0, id: next_id });
                        next_id = next_id.wrapping_add(1);
                    }
                    sig.add(1);
                }
                VOp::Send(pe, p, len) => {
                    let peer = PEERS[*pe as usize % 3];
                    let port = PORTS[*p as usize % 3];
                    let n = *len as usize % 64 + 1;
                    let idx = find(&conns, peer, port);
                    let data: Vec<u8> = match idx {
                        Some(k) => (0..n as u64).map(|j| tag(conns[k].id, conns[k].sent + j) ^ 0xff).collect(),
                        None => vec![1; n],
                    };
                    let r = g!(what, mgr.send(VsockAddr { cid: peer.0, port: peer.1 }, port, &data));
                    match idx {
                        None => {
                            if r != Err(Error::SocketDeviceError(SocketError::NotConnected)) {
                                return Err(format!("{}: unknown connection, returned {:?}", what, r));
                            }
                        }
                        Some(k) if conns[k].peer_shutdown => skip_tx_check = true,
                        Some(k) => {
                            // the peer of this model always advertises a large window once it has spoken;
                            // before that the window is 0
                            match r {
                                Ok(()) => {
                                    want_tx.push((5, peer, port, data.clone(), 0, 0));
                                    conns[k].sent += n as u64;
                                }
                                Err(Error::SocketDeviceError(SocketError::InsufficientBufferSpaceInPeer)) => skip_tx_check = true,
                                // sending on a connection whose handshake has not completed may be
                                // refused (nothing may be transmitted then: checked below)
                                Err(Error::SocketDeviceError(SocketError::NotConnected)) if !conns[k].established => {}
                                other => return Err(format!("{}: returned {:?}", what, other)),
                            }
                        }
                    }
                    sig.add(2);
                }
                VOp::Recv(pe, p, len) => {
                    let peer = PEERS[*pe as usize % 3];
                    let port = PORTS[*p as usize % 3];
                    let n = *len as usize % 300;
                    let mut buf = vec![0u8; n];
                    let r = g!(what, mgr.recv(VsockAddr { cid: peer.0, port: peer.1 }, port, &mut buf));
                    match find(&conns, peer, port) {
                        None => {
                            if r != Err(Error::SocketDeviceError(SocketError::NotConnected)) {
                                return Err(format!("{}: unknown connection, returned {:?}", what, r));
                            }
                        }
                        Some(k) => {
                            let m = &mut conns[k];
                            let want: Vec<u8> = (0..n.min(m.buffered.len())).map(|_| m.buffered.pop_front().unwrap()).collect();
                            m.read_total = m.read_total.wrapping_add(want.len() as u32);
                            match r {
                                Ok(got) if got == want.len() && buf[..got] == want[..] => {}
                                other => return Err(format!("{}: returned {:?} ({} bytes expected); data delivered to the wrong connection or corrupted", what, other, want.len())),
                            }
                            if m.peer_shutdown && m.buffered.is_empty() {
                                // "closed with a reset once drained" is stated for a peer
                                // shutdown; after a peer RST a reset in reply is optional
                                settle(&dev);
                                let txn: Vec<Pkt> = dev.with(|d| d.h.tx[tx0..].to_vec());
                                if !m.peer_reset || txn.iter().any(|t| t.op == 3) {
                                    want_tx.push((3, peer, port, vec![], 0, 0));
                                }
                                conns.remove(k);
                            }
                        }
                    }
                    sig.add(3);
                }
                VOp::Shutdown(pe, p) | VOp::ForceClose(pe, p) | VOp::UpdateCredit(pe, p) => {
                    let peer = PEERS[*pe as usize % 3];
                    let port = PORTS[*p as usize % 3];
                    let a = VsockAddr { cid: peer.0, port: peer.1 };
                    let r = match op {
                        VOp::Shutdown(..) => g!(what, mgr.shutdown(a, port)),
                        VOp::ForceClose(..) => g!(what, mgr.force_close(a, port)),
                        _ => g!(what, mgr.update_credit(a, port)),
                    };
                    match find(&conns, peer, port) {
                        None => {
                            if r != Err(Error::SocketDeviceError(SocketError::NotConnected)) {
                                return Err(format!("{}: unknown connection, returned {:?}", what, r));
                            }
                        }
                        Some(k) => match op {
                            VOp::Shutdown(..) => {
                                if r.is_err() {
                                    return Err(format!("{}: returned {:?}", what, r));
                                }
                                want_tx.push((4, peer, port, vec![], 3, 0));
                            }
                            VOp::ForceClose(..) => {
                                if r.is_err() {
                                    return Err(format!("{}: returned {:?}", what, r));
                                }
                                want_tx.push((3, peer, port, vec![], 0, 0));
                                conns.remove(k);
                            }
                            _ => {
                                if conns[k].peer_shutdown {
                                    skip_tx_check = true;
                                } else {
                                    if r.is_err() {
                                        return Err(format!("{}: returned {:?}", what, r));
                                    }
                                    want_tx.push((6, peer, port, vec![], 0, 0));
                                }
                            }
                        },
                    }
                    sig.add(4);
                }
                VOp::Peer { peer, port, op: pop, len, bad_cid } => {
                    let peer_a = PEERS[*peer as usize % 3];
                    let port_v = PORTS[*port as usize % 3];
                    let idx = find(&conns, peer_a, port_v);
                    // not generated: a second REQUEST while one of the same peer for the same port is
                    // still waiting to be polled. A REQUEST for a connection that already exists *is*
                    // generated: what happens to that connection is the implementation's choice, but
                    // every other connection must stay untouched (see Poll).
                    if *pop == 1 && !*bad_cid && expected_polls.iter().any(|(q, _)| q.op == 1 && (q.src_cid, q.src_port) == peer_a && q.dst_port == port_v && q.dst_cid == GUEST_CID) {
                        continue;
                    }
                    let mut plen = if *pop == 5 { (*len as usize % max_data) + 1 } else if *len % 8 == 7 { (*len as usize % 20) + 1 } else { 0 };
                    if *pop == 5 {
                        // the peer honours the credit the driver advertised -- also for a connection
                        // that does not exist yet but may exist by the time the packet is polled,
                        // because the peer's REQUEST is still waiting (a later `listen` accepts it)
                        let same = |p: &Pkt| (p.src_cid, p.src_port) == peer_a && p.dst_port == port_v && p.dst_cid == GUEST_CID;
                        let request_pending = expected_polls.iter().any(|(p, _)| p.op == 1 && same(p));
                        if idx.is_some() || request_pending {
                            let buffered = idx.map(|k| conns[k].buffered.len()).unwrap_or(0);
                            let free = (capacity as usize).saturating_sub(buffered + expected_polls.iter().filter(|(p, _)| p.op == 5 && same(p)).map(|(_, b)| b.len()).sum::<usize>());
                            plen = plen.min(free);
                            if plen == 0 {
                                continue;
                            }
                        }
                    }
                    let id = idx.map(|k| conns[k].id).unwrap_or(0xee);
                    let base = idx.map(|k| conns[k].peer_sent).unwrap_or(0);
                    let payload: Vec<u8> = (0..plen as u64).map(|j| tag(id, base + j)).collect();
                    let pkt = Pkt {
                        src_cid: peer_a.0,
                        dst_cid: if *bad_cid { GUEST_CID + 1 } else { GUEST_CID },
                        src_port: peer_a.1,
                        dst_port: port_v,
                        len: plen as u32,
                        ty: 1,
                        op: *pop,
                        flags: if *pop == 4 { 3 } else { 0 },
                        buf_alloc: 1 << 20,
                        fwd_cnt: idx.map(|k| conns[k].sent as u32).unwrap_or(0),
                        payload: vec![],
                        wire_len: plen,
                    };
                    settle(&dev);
                    let ok = dev.with(|d| world::with(|w| {
                        let d = &mut *d;
                        d.h.inject(w, &mut d.qs, &pkt, &payload)
                    }));
                    if ok {
                        if *pop == 5 && !*bad_cid {
                            if let Some(k) = idx {
                                conns[k].peer_sent += plen as u64;
                            }
                        }
                        expected_polls.push_back((pkt, payload));
                        pending_pkts += 1;
                    }
                    continue;
                }
                VOp::Poll => {
                    let rx0 = dev.with(|d| d.h.rx_sizes.len());
                    let r_call = g!(what, mgr.poll());
                    settle(&dev);
                    if expected_polls.is_empty() {
                        if r_call != Ok(None) {
                            return Err(format!("{}: nothing was sent by the peer but poll returned {:?}", what, r_call));
                        }
                        chk(&dev, &what, 0)?;
                        continue;
                    }
                    // How many delivered packets one poll works through is the implementation's
                    // choice (the property fixes what each packet does, not how polls batch them):
                    // read it off the receive buffers that came back, at least one. Only the last
                    // packet of the batch can be the source of the call's result; the earlier ones
                    // must be packets that produce no event, or an event was swallowed.
                    let reposted = dev.with(|d| d.h.rx_sizes.len()) - rx0;
                    let batch = reposted.clamp(1, expected_polls.len());
                    let txn: Vec<Pkt> = dev.with(|d| d.h.tx[tx0..].to_vec());
                    let what_call = what.clone();
                    for nth in 0..batch {
                    let (pkt, payload) = expected_polls.pop_front().unwrap();
                    pending_pkts -= 1;
                    let last = nth + 1 == batch;
                    let r = if last { r_call.clone() } else { Ok(None) };
                    let what = if batch == 1 { what_call.clone() } else { format!("{} [packet {} of the {} this poll consumed, op {}{}]", what_call, nth + 1, batch, pkt.op, if last { "" } else { "; not the last, so it cannot have produced the result" }) };
                    let peer_a = (pkt.src_cid, pkt.src_port);
                    let idx = if pkt.dst_cid == GUEST_CID { find(&conns, peer_a, pkt.dst_port) } else { None };
                    let control_with_data = pkt.op != 5 && pkt.len != 0;
                    // what must happen
                    if pkt.op == 0 || pkt.op >= 8 {
                        if r.is_ok() {
                            return Err(format!("{}: packet with invalid operation {} was accepted: {:?}", what, pkt.op, r));
                        }
                    } else if control_with_data {
                        if r.is_ok() {
                            return Err(format!("{}: control packet (op {}) carrying {} data bytes was accepted: {:?}", what, pkt.op, pkt.len, r));
                        }
                    } else {
                        match (pkt.op, idx) {
                            (1, None) if pkt.dst_cid == GUEST_CID => {
                                if listening.contains(&pkt.dst_port) {
                                    match &r {
                                        Ok(Some(e)) if e.event_type == VsockEventType::ConnectionRequest && e.source == (VsockAddr { cid: peer_a.0, port: peer_a.1 }) && e.destination.port == pkt.dst_port => {}
                                        other => return Err(format!("{}: request to listening port {} returned {:?}", what, pkt.dst_port, other)),
                                    }
                                    want_tx.push((2, peer_a, pkt.dst_port, vec![], 0, 0));
                                    conns.push(MConn { peer: peer_a, port: pkt.dst_port, established: true, peer_shutdown: false, peer_reset: false, buffered: VecDeque::new(), read_total: 0, peer_sent: 0, sent: 0, id: next_id });
                                    next_id = next_id.wrapping_add(1);
                                } else {
                                    if r != Ok(None) {
                                        return Err(format!("{}: request to non-listening port {} was reported: {:?}", what, pkt.dst_port, r));
                                    }
                                    want_tx.push((3, peer_a, pkt.dst_port, vec![], 0, 0));
                                }
                            }
                            (1, Some(k)) => {
                                // Duplicate REQUEST for an existing connection. The property does not
                                // say what becomes of *that* connection; the outcome is read off the
                                // packet the driver answers with, and the model follows it. Anything
                                // addressed elsewhere, and any later effect on another connection, is
                                // caught by the ordinary lock-step comparison.
                                dup_request = true;
                                match &r {
                                    Ok(None) => {}
                                    Ok(Some(e)) if e.event_type == VsockEventType::ConnectionRequest && e.source == (VsockAddr { cid: peer_a.0, port: peer_a.1 }) && e.destination.port == pkt.dst_port => {}
                                    other => return Err(format!("{}: duplicate request for an existing connection returned {:?}", what, other)),
                                }
                                let t0 = txn.get(want_tx.len()).cloned();
                                if let Some(t0) = t0.filter(|t| (t.dst_cid, t.dst_port) == peer_a && t.src_port == pkt.dst_port) {
                                    match t0.op {
                                        3 => {
                                            want_tx.push((3, peer_a, pkt.dst_port, vec![], 0, 0));
                                            conns.remove(k);
                                        }
                                        2 => {
                                            want_tx.push((2, peer_a, pkt.dst_port, vec![], 0, 0));
                                            conns[k].established = true;
                                        }
                                        _ => {}
                                    }
                                }
                            }
                            (_, None) => {
                                unknown_pkt = true;
                                if r != Ok(None) {
                                    return Err(format!("{}: packet (op {}) for an unknown connection was reported: {:?}", what, pkt.op, r));
                                }
                                // Telling the sender that there is no such connection (a RST naming
                                // exactly the stray packet's addresses, never in answer to a RST) is
                                // allowed and creates no state; staying silent is allowed too.
                                if pkt.dst_cid == GUEST_CID && pkt.op != 3 {
                                    if let Some(t) = txn.get(want_tx.len()) {
                                        if t.op == 3 && (t.dst_cid, t.dst_port) == peer_a && t.src_port == pkt.dst_port {
                                            any_alloc.push(want_tx.len());
                                            want_tx.push((3, peer_a, pkt.dst_port, vec![], 0, 0));
                                        }
                                    }
                                }
                            }
                            (2, Some(k)) => {
                                conns[k].established = true;
                                if !matches!(&r, Ok(Some(e)) if e.event_type == VsockEventType::Connected) {
                                    return Err(format!("{}: RESPONSE returned {:?}", what, r));
                                }
                            }
                            (3, Some(k)) | (4, Some(k)) => {
                                let reason = if pkt.op == 3 { DisconnectReason::Reset } else { DisconnectReason::Shutdown };
                                if !matches!(&r, Ok(Some(e)) if e.event_type == (VsockEventType::Disconnected { reason })) {
                                    return Err(format!("{}: disconnect packet returned {:?}", what, r));
                                }
                                if conns[k].buffered.is_empty() {
                                    if pkt.op == 4 {
                                        want_tx.push((3, peer_a, pkt.dst_port, vec![], 0, 0));
                                    }
                                    conns.remove(k);
                                } else {
                                    conns[k].peer_shutdown = true;
                                    conns[k].peer_reset |= pkt.op == 3;
                                }
                            }
                            (5, Some(k)) => {
                                if !matches!(&r, Ok(Some(e)) if e.event_type == (VsockEventType::Received { length: payload.len() })) {
                                    return Err(format!("{}: data packet of {} bytes returned {:?}", what, payload.len(), r));
                                }
                                conns[k].buffered.extend(payload.iter().copied());
                            }
                            (6, Some(_)) => {
                                if !matches!(&r, Ok(Some(e)) if e.event_type == VsockEventType::CreditUpdate) {
                                    return Err(format!("{}: credit update returned {:?}", what, r));
                                }
                            }
                            (7, Some(_)) => {
                                if r != Ok(None) {
                                    return Err(format!("{}: credit request returned {:?}", what, r));
                                }
                                want_tx.push((6, peer_a, pkt.dst_port, vec![], 0, 0));
                            }
                            _ => {}
                        }
                    }
                    sig.add(5).add(pkt.op as u64).add(idx.is_some() as u64);
                    }
                    if batch > 1 {
                        st.class("poll_consumed_several_packets");
                    }
                }
            }
            settle(&dev);
            // transmitted packets of this op
            let tx_all: Vec<Pkt> = dev.with(|d| d.h.tx[tx0..].to_vec());
            // An unsolicited credit update to an existing connection is the implementation's
            // choice at any time (C17 judges its contents; fwd_cnt is checked below as for every
            // packet): such packets are set aside before the comparison unless they are the
            // packet expected at that position.
            let mut tx: Vec<Pkt> = Vec::new();
            for p in &tx_all {
                let expected_here = want_tx.get(tx.len()).map_or(false, |w| p.op == w.0 && (p.dst_cid, p.dst_port) == w.1 && p.src_port == w.2);
                let unsolicited_cu = p.op == 6 && p.len == 0 && p.src_cid == GUEST_CID && p.ty == 1 && p.buf_alloc == capacity && find(&conns, (p.dst_cid, p.dst_port), p.src_port).is_some();
                if expected_here || !unsolicited_cu {
                    tx.push(p.clone());
                }
            }
            if tx.len() != tx_all.len() {
                st.class("unsolicited_credit_update_seen");
            }
            if !skip_tx_check {
                if tx.len() != want_tx.len() {
                    return Err(format!("{}: driver transmitted {:?}, expected ops {:?}", what, tx.iter().map(|p| (p.op, p.dst_cid, p.dst_port, p.src_port)).collect::<Vec<_>>(), want_tx.iter().map(|x| (x.0, x.1, x.2)).collect::<Vec<_>>()));
                }
                for (ti, (p, wnt)) in tx.iter().zip(want_tx.iter()).enumerate() {
                    let ok = p.op == wnt.0 && (p.dst_cid, p.dst_port) == wnt.1 && p.src_port == wnt.2 && p.src_cid == GUEST_CID && p.payload == wnt.3 && p.len as usize == wnt.3.len() && p.flags == wnt.4 && p.ty == 1 && (p.buf_alloc == capacity || any_alloc.contains(&ti));
                    if !ok {
                        return Err(format!("{}: transmitted packet {:?}, expected op {} to {:?} from port {} with {} payload bytes, flags {}, buf_alloc {}", what, p, wnt.0, wnt.1, wnt.2, wnt.3.len(), wnt.4, capacity));
                    }
                }
            }
            // fwd_cnt in every transmitted header = bytes the application has read on that connection
            for p in &tx_all {
                if let Some(k) = find(&conns, (p.dst_cid, p.dst_port), p.src_port) {
                    if p.fwd_cnt != conns[k].read_total {
                        return Err(format!("{}: header fwd_cnt {} but the application has read {} bytes on that connection", what, p.fwd_cnt, conns[k].read_total));
                    }
                }
            }
            chk(&dev, &what, expected_polls.len())?;
            max_conns = max_conns.max(conns.len());
        }
        let _ = pending_pkts;
        g!("drop", drop(mgr));
        if let Some((tag, m)) = drv::fault_text() {
            return Err(format!("drop: [{}] {}", tag, m));
        }
        if max_conns >= 2 {
            st.class("two_simultaneous_connections");
        }
        if unknown_pkt {
            st.class("packet_for_unknown_connection");
        }
        if dup_request {
            st.class("duplicate_request_for_existing_connection");
        }
        if max_conns >= 2 && unknown_pkt {
            st.nontrivial(sig.get(), || json!({"kind": c.kind, "policy": c.policy, "ops": c.ops.iter().take(40).collect::<Vec<_>>()}));
        }
        Ok(())
    }
}

pub fn check(c: &VCase, st: &mut Stats) -> Result<(), String> {
    let mut cfg = vec![0u8; 8];
    cfg[..8].copy_from_slice(&GUEST_CID.to_le_bytes());
    drv::setup_world(c.kind, c.offered, cfg, 64);
    let dev = Shared::install(SimDev::new(3, c.policy, VsockDev::new()));
    with_transport(c.kind, 19, 8, Run { c, dev, st })?
}

fn op() -> impl Strategy<Value = VOp> {
    prop_oneof![
        3 => (0u8..3).prop_map(VOp::Listen),
        1 => (0u8..3).prop_map(VOp::Unlisten),
        4 => (0u8..3, 0u8..3).prop_map(|(a, b)| VOp::Connect(a, b)),
        4 => (0u8..3, 0u8..3, any::<u16>()).prop_map(|(a, b, l)| VOp::Send(a, b, l)),
        5 => (0u8..3, 0u8..3, any::<u16>()).prop_map(|(a, b, l)| VOp::Recv(a, b, l)),
        1 => (0u8..3, 0u8..3).prop_map(|(a, b)| VOp::Shutdown(a, b)),
        1 => (0u8..3, 0u8..3).prop_map(|(a, b)| VOp::ForceClose(a, b)),
        1 => (0u8..3, 0u8..3).prop_map(|(a, b)| VOp::UpdateCredit(a, b)),
        14 => Just(VOp::Poll),
        16 => (0u8..3, 0u8..3, prop_oneof![4 => Just(1u16), 3 => Just(2u16), 1 => Just(3u16), 2 => Just(4u16), 8 => Just(5u16), 1 => Just(6u16), 1 => Just(7u16), 1 => Just(0u16), 1 => 8u16..20], any::<u16>(), prop::bool::weighted(0.05))
            .prop_map(|(peer, port, op, len, bad_cid)| VOp::Peer { peer, port, op, len, bad_cid }),
        1 => drv::serve_strategy().prop_map(VOp::Policy),
    ]
}

pub fn strategy() -> impl Strategy<Value = VCase> {
    (drv::tk_strategy(), drv::feature_strategy(&[]), drv::serve_strategy(), prop::collection::vec(op(), 0..80), prop::bool::weighted(0.25)).prop_map(|(kind, offered, policy, ops, big)| VCase { kind, offered, policy, ops, big })
}

pub fn replay(_e: &str, case: &serde_json::Value) -> Result<(), String> {
    check(&serde_json::from_value(case.clone()).map_err(|e| e.to_string())?, &mut Stats::default())
}

pub fn run(ctx: &Ctx) -> Report {
    let (stats, failure) = run_proptest(ctx, "vsock-table", 181, ctx.n(100_000, 10_000_000), strategy, |c: &VCase, st| check(c, st));
    Report {
        stats,
        failure,
        info: PartInfo {
            level: "exploration",
            rule: "proptest histories over 3 peers x 3 local ports: listen, unlisten, connect, send, recv, shutdown, force_close, update_credit, poll, and peer packets REQUEST, RESPONSE, RST, SHUTDOWN, RW (payload tagged with the connection id), CREDIT_UPDATE, CREDIT_REQUEST, op 0, op >= 8, control packets carrying data, wrong destination CID, packets for unknown connections; all transports and device policies. A reference model of the connection table is driven in lock-step: every poll result, every transmitted packet (op, addressing, flags, buf_alloc, fwd_cnt, payload) and every recv result is compared; after every operation the device must hold all 8 receive buffers. Non-trivial = >=2 simultaneous connections plus a packet for an unknown connection. distinct = (transport, op kinds, packet ops).",
            assumptions: vec![
                "the fate of a connection that receives a second REQUEST is unspecified by the property: the model follows the driver's observable answer (nothing, RST = dropped, RESPONSE = accepted again) for that connection only; all other connections stay under the strict lock-step comparison".into(),
                "results of send/update_credit after the peer has shut down are not compared (unconstrained by the property)".into(),
            ],
            exhaustive: false,
            extra: json!({}),
        },
    }
}
