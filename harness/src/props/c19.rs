//! C19: event queues deliver each device event once, in order, and stay fully stocked.

use crate::dev::MTransport;
use crate::devq::{Handler, Queues, Serve, Shared, SimDev};
use crate::hal::LHal;
use crate::props::drv;
use crate::ring::Chain;
use crate::runner::{guard, run_proptest, Caught, Ctx, PartInfo, Report, Sig, Stats};
use crate::tkind::{with_transport, WithT, TK};
use crate::world::{self, with, World};
use proptest::prelude::*;
use serde::{Deserialize, Serialize};
use serde_json::json;
use virtio_drivers::device::input::VirtIOInput;
use virtio_drivers::device::sound::{NotificationType, VirtIOSound};
use virtio_drivers::queue::{OwningQueue, VirtQueue};
use virtio_drivers::transport::Transport;
use virtio_drivers::{Error, Result as VResult};

#[derive(Clone, Copy, Debug, Serialize, Deserialize, PartialEq)]
pub enum Target {
    /// OwningQueue<_, N, B> with (nsel, bsel)
    Owning(u8, u8),
    Input,
    Sound,
}

#[derive(Clone, Debug, Serialize, Deserialize, PartialEq)]
pub enum EOp {
    /// the device completes the pick-th posted buffer with a fraction of its size written
    Fire { pick: u16, len: u16 },
    /// a burst of `n` events, rotating through the posted buffers
    Burst { n: u8, rot: u16 },
    Poll,
    /// the handler passed to poll returns this (0 = Ok(Some), 1 = Ok(None), 2 = Err)
    PollWith(u8),
    Drain,
    Policy(Serve),
}

#[derive(Clone, Debug, Serialize, Deserialize)]
pub struct ECase {
    pub target: Target,
    pub kind: TK,
    pub offered: u64,
    pub policy: Serve,
    pub ops: Vec<EOp>,
    /// repeat (Burst, Drain) this many extra times: far more events than the queue size
    pub rounds: u16,
}

fn epat(n: u64, i: usize) -> u8 {
    (n as u8).wrapping_mul(83) ^ (i as u8).wrapping_mul(5) ^ ((n >> 8) as u8) ^ 0x11
}

pub struct EventDev {
    pub q: u16,
    pub posted: Vec<Chain>,
    pub fired: u64,
    /// completions in order: (head, bytes written, address of the buffer)
    pub log: Vec<(u16, Vec<u8>, u64)>,
    /// for the log entry of the same index: the length the device *reported* when it exceeds the
    /// buffer (a device overstating what it wrote), else 0
    pub claimed: Vec<u32>,
    /// every posting: (head, addr, len)
    pub postings: Vec<(u16, u64, u32)>,
    pub errors: Vec<String>,
    /// for sound: which event codes to use; for input: 8-byte events
    pub mode: Target,
    /// other queues: answer control requests with this status (sound)
    pub other_chains: u64,
    pub vaddr_of: std::collections::BTreeMap<u16, u64>,
}

impl EventDev {
    pub fn fire(&mut self, w: &mut World, qs: &mut Queues, pick: u16, len: u16) -> bool {
        if self.posted.is_empty() {
            return false;
        }
        let k = (pick as usize * self.posted.len()) >> 16;
        let c = self.posted.remove(k);
        let cap = c.writable_len();
        let n = match self.mode {
            Target::Owning(..) => (len as usize * (cap + 1)) >> 16,
            _ => cap.min(8),
        };
        self.fired += 1;
        let mut data: Vec<u8> = (0..n).map(|i| epat(self.fired, i)).collect();
        if let Target::Sound = self.mode {
            // a valid notification code most of the time
            let code: u32 = match len % 6 {
                0 => 0x1000,
                1 => 0x1001,
                2 => 0x1100,
                3 => 0x1101,
                4 => 0x0999,
                _ => 0x1102,
            };
            if data.len() >= 4 {
                data[..4].copy_from_slice(&code.to_le_bytes());
            }
        }
        // one completion in 64 on a plain stocked queue overstates its length: the buffer's size plus
        // one, a multiple of 65536 plus what was written, or all ones
        let claim = match self.mode {
            Target::Owning(..) if len % 64 == 63 => match (len >> 6) % 4 {
                0 => cap as u32 + 1,
                1 => 0x1_0000 + n as u32,
                2 => 0x3_0000 + n as u32,
                _ => u32::MAX,
            },
            _ => 0,
        };
        if claim as usize > cap {
            qs.complete_claim(w, self.q, &c, &data, claim);
        } else {
            qs.complete(w, self.q, &c, &data);
        }
        let va = self.vaddr_of.get(&c.head).copied().unwrap_or(0);
        self.log.push((c.head, data, va));
        self.claimed.push(if claim as usize > cap { claim } else { 0 });
        true
    }
}

impl Handler for EventDev {
    fn on_chain(&mut self, w: &mut World, qs: &mut Queues, q: u16, c: Chain) {
        if q == self.q {
            if c.readable_len() != 0 || c.elems.len() != 1 {
                self.errors.push(format!("event buffer must be one device-writable buffer: {:?}", c.elems));
                return;
            }
            // identify the buffer by the caller's address (the ledger hands out a fresh device
            // address for every share)
            let va = match w.hal.share_at(c.elems[0].addr).map(|r| r.kind) {
                Some(crate::hal::Kind::Share { vaddr, .. }) => vaddr as u64,
                _ => c.elems[0].addr,
            };
            self.postings.push((c.head, va, c.elems[0].len));
            self.vaddr_of.insert(c.head, va);
            self.posted.push(c);
        } else {
            self.other_chains += 1;
            qs.complete_len(w, q, &c, 0);
        }
    }
}

trait OQ {
    fn poll(&mut self, t: &mut MTransport, f: &mut dyn FnMut(&[u8]) -> VResult<Option<u32>>) -> VResult<Option<u32>>;
    fn should_notify(&self) -> bool;
}

impl<const N: usize, const B: usize> OQ for OwningQueue<LHal, N, B> {
    fn poll(&mut self, t: &mut MTransport, f: &mut dyn FnMut(&[u8]) -> VResult<Option<u32>>) -> VResult<Option<u32>> {
        OwningQueue::poll(self, t, |b| f(b))
    }
    fn should_notify(&self) -> bool {
        OwningQueue::should_notify(self)
    }
}

fn mk_oq(nsel: u8, bsel: u8, t: &mut MTransport, indirect: bool, ev: bool) -> VResult<(Box<dyn OQ>, usize, usize)> {
    macro_rules! mk {
        ($n:expr, $b:expr) => {{
            let q = VirtQueue::<LHal, $n>::new(t, 0, indirect, ev, false)?;
            let o = OwningQueue::<LHal, $n, $b>::new(q)?;
            (Box::new(o) as Box<dyn OQ>, $n, $b)
        }};
    }
    Ok(match (nsel % 4, bsel % 3) {
        (0, 0) => mk!(1, 8),
        (0, 1) => mk!(1, 64),
        (0, _) => mk!(1, 512),
        (1, 0) => mk!(2, 8),
        (1, 1) => mk!(2, 64),
        (1, _) => mk!(2, 512),
        (2, 0) => mk!(8, 8),
        (2, 1) => mk!(8, 64),
        (2, _) => mk!(8, 512),
        (_, 0) => mk!(32, 8),
        (_, 1) => mk!(32, 64),
        (_, _) => mk!(32, 512),
    })
}

/// What one poll delivered.
#[derive(Debug, PartialEq)]
enum Got {
    Nothing,
    Bytes(Vec<u8>),
    /// delivered, but the driver-level decoding refused it (sound: unknown code)
    Refused(Vec<u8>),
    Failed(String),
    /// the handler was not called and the poll returned an error
    PollErr,
}

trait Poller {
    /// Poll once. `mode`: 0 = normal; for OwningQueue 1 = handler returns Ok(None), 2 = Err.
    fn poll(&mut self, mode: u8) -> Result<Got, String>;
    fn finish(self: Box<Self>);
}

struct OwningPoller {
    q: Option<Box<dyn OQ>>,
    t: Option<MTransport>,
}

impl Poller for OwningPoller {
    fn poll(&mut self, mode: u8) -> Result<Got, String> {
        let mut seen: Option<Vec<u8>> = None;
        let t = self.t.as_mut().unwrap();
        let q = self.q.as_mut().unwrap();
        let r = guard(|| {
            q.poll(t, &mut |b: &[u8]| {
                seen = Some(b.to_vec());
                match mode {
                    1 => Ok(None),
                    2 => Err(Error::InvalidParam),
                    _ => Ok(Some(b.len() as u32)),
                }
            })
        });
        let r = match r {
            Caught::Ok(r) => r,
            Caught::Panic(p) => return Err(p.render()),
            Caught::Escape(e) => return Err(format!("{:?}", e)),
        };
        match (seen, r, mode) {
            (None, Ok(None), _) => Ok(Got::Nothing),
            (None, Err(_), _) => Ok(Got::PollErr),
            (Some(b), Ok(Some(n)), 0) if n as usize == b.len() => Ok(Got::Bytes(b)),
            (Some(b), Ok(None), 1) => Ok(Got::Bytes(b)),
            (Some(b), Err(Error::InvalidParam), 2) => Ok(Got::Bytes(b)),
            (s, r, m) => Ok(Got::Failed(format!("handler saw {:?}, poll returned {:?} (handler mode {})", s.map(|b| b.len()), r, m))),
        }
    }
    fn finish(mut self: Box<Self>) {
        let q = self.q.take();
        let t = self.t.take();
        let _ = guard(move || {
            let mut t = t;
            if let Some(t) = t.as_mut() {
                t.queue_unset(0);
            }
            drop(q);
            drop(t);
        });
    }
}

struct InputPoller<T: Transport>(Option<VirtIOInput<LHal, T>>);
impl<T: Transport> Poller for InputPoller<T> {
    fn poll(&mut self, _mode: u8) -> Result<Got, String> {
        let d = self.0.as_mut().unwrap();
        match guard(|| d.pop_pending_event()) {
            Caught::Ok(None) => Ok(Got::Nothing),
            Caught::Ok(Some(e)) => {
                let mut b = Vec::new();
                b.extend_from_slice(&e.event_type.to_le_bytes());
                b.extend_from_slice(&e.code.to_le_bytes());
                b.extend_from_slice(&e.value.to_le_bytes());
                Ok(Got::Bytes(b))
            }
            Caught::Panic(p) => Err(p.render()),
            Caught::Escape(e) => Err(format!("{:?}", e)),
        }
    }
    fn finish(mut self: Box<Self>) {
        let d = self.0.take();
        let _ = guard(move || drop(d));
    }
}

struct SoundPoller<T: Transport>(Option<VirtIOSound<LHal, T>>);
impl<T: Transport> Poller for SoundPoller<T> {
    fn poll(&mut self, _mode: u8) -> Result<Got, String> {
        let d = self.0.as_mut().unwrap();
        match guard(|| d.latest_notification()) {
            Caught::Ok(Ok(None)) => Ok(Got::Nothing),
            Caught::Ok(Ok(Some(n))) => {
                let code: u32 = match n.notification_type() {
                    NotificationType::JackConnected => 0x1000,
                    NotificationType::JackDisconnected => 0x1001,
                    NotificationType::PcmPeriodElapsed => 0x1100,
                    NotificationType::PcmXrun => 0x1101,
                };
                let mut b = code.to_le_bytes().to_vec();
                b.extend_from_slice(&n.data().to_le_bytes());
                Ok(Got::Bytes(b))
            }
            Caught::Ok(Err(Error::IoError)) => Ok(Got::Refused(vec![])),
            Caught::Ok(Err(e)) => Ok(Got::Failed(format!("latest_notification failed with {:?}", e))),
            Caught::Panic(p) => Err(p.render()),
            Caught::Escape(e) => Err(format!("{:?}", e)),
        }
    }
    fn finish(mut self: Box<Self>) {
        let d = self.0.take();
        let _ = guard(move || drop(d));
    }
}

struct Mk {
    target: Target,
}
impl WithT for Mk {
    type Out = Result<Box<dyn Poller>, String>;
    fn call<T: Transport + 'static>(self, t: T) -> Self::Out {
        match self.target {
            Target::Input => match guard(|| VirtIOInput::<LHal, T>::new(t)) {
                Caught::Ok(Ok(d)) => Ok(Box::new(InputPoller(Some(d)))),
                Caught::Ok(Err(e)) => Err(format!("VirtIOInput::new failed: {:?}", e)),
                Caught::Panic(p) => Err(p.render()),
                Caught::Escape(e) => Err(format!("{:?}", e)),
            },
            Target::Sound => match guard(|| VirtIOSound::<LHal, T>::new(t)) {
                Caught::Ok(Ok(d)) => Ok(Box::new(SoundPoller(Some(d)))),
                Caught::Ok(Err(e)) => Err(format!("VirtIOSound::new failed: {:?}", e)),
                Caught::Panic(p) => Err(p.render()),
                Caught::Escape(e) => Err(format!("{:?}", e)),
            },
            Target::Owning(..) => unreachable!(),
        }
    }
}

pub fn check(c: &ECase, st: &mut Stats) -> Result<(), String> {
    let (evq, cfg, dtype, nq): (u16, Vec<u8>, u32, u16) = match c.target {
        Target::Owning(..) => (0, vec![], 0, 1),
        Target::Input => (0, vec![0u8; 136], 18, 2),
        Target::Sound => (1, vec![0u8; 12], 25, 4),
    };
    let kind = if matches!(c.target, Target::Owning(..)) { TK::Model } else { c.kind };
    drv::setup_world(kind, c.offered, cfg.clone(), 256);
    let dev = Shared::install(SimDev::new(
        nq,
        c.policy,
        EventDev { q: evq, posted: vec![], fired: 0, log: vec![], claimed: vec![], postings: vec![], errors: vec![], mode: c.target, other_chains: 0, vaddr_of: Default::default() },
    ));
    let (mut poller, n, bsize): (Box<dyn Poller>, usize, usize) = match c.target {
        Target::Owning(nsel, bsel) => {
            with(|w| {
                w.dev.status = 0xf;
                w.dev.accepted = c.offered & (drv::F_INDIRECT | drv::F_EVENT_IDX);
            });
            let mut t = MTransport::new();
            let indirect = c.offered & drv::F_INDIRECT != 0;
            let ev = c.offered & drv::F_EVENT_IDX != 0;
            let (q, n, b) = match guard(|| mk_oq(nsel, bsel, &mut t, indirect, ev)) {
                Caught::Ok(Ok(x)) => x,
                Caught::Ok(Err(e)) => return Err(format!("OwningQueue construction failed: {:?}", e)),
                Caught::Panic(p) => return Err(p.render()),
                Caught::Escape(e) => return Err(format!("{:?}", e)),
            };
            // "The caller is responsible for notifying the device if should_notify returns true."
            if q.should_notify() {
                t.notify(0);
            }
            (Box::new(OwningPoller { q: Some(q), t: Some(t) }), n, b)
        }
        Target::Input => (with_transport(kind, dtype, cfg.len(), Mk { target: c.target })??, 32, 8),
        Target::Sound => (with_transport(kind, dtype, cfg.len(), Mk { target: c.target })??, 32, 8),
    };
    let settle = |dev: &Shared<EventDev>| {
        for _ in 0..6 {
            dev.turn_spin();
        }
    };
    let check_dev = |dev: &Shared<EventDev>| -> Result<(), String> {
        if let Some(e) = dev.with(|d| d.h.errors.first().cloned()) {
            return Err(e);
        }
        if let Some(f) = world::with(|w| w.faults.iter().find(|f| f.prop != "notify_early").cloned()) {
            return Err(format!("[{}] {}", f.prop, f.msg));
        }
        Ok(())
    };
    settle(&dev);
    check_dev(&dev)?;
    let posted0 = dev.with(|d| d.h.posted.len());
    if posted0 != n {
        poller.finish();
        return Err(format!("after construction {} event buffers are posted, expected {}", posted0, n));
    }
    let addr_of: std::collections::BTreeMap<u16, (u64, u32)> = dev.with(|d| d.h.postings.iter().map(|p| (p.0, (p.1, p.2))).collect());
    let mut next = 0usize; // next completion the driver should deliver
    let mut ooo = false;
    let mut sig = Sig::new();
    sig.add(c.kind as u64).add(c.offered & 0x3_3000_0000).add(n as u64).add(bsize as u64);
    let mut total_events = 0u64;
    let do_poll = |poller: &mut Box<dyn Poller>, mode: u8, next: &mut usize, what: &str| -> Result<bool, String> {
        let pending = dev.with(|d| d.h.log.len()) - *next;
        let postings_before = dev.with(|d| d.h.postings.len());
        let got = poller.poll(mode).map_err(|m| format!("{}: {}", what, m))?;
        settle(&dev);
        check_dev(&dev).map_err(|m| format!("{}: {}", what, m))?;
        if pending == 0 {
            if got != Got::Nothing {
                return Err(format!("{}: delivered {:?} although no event is pending", what, got));
            }
            return Ok(false);
        }
        let (head, bytes, addr) = dev.with(|d| d.h.log[*next].clone());
        let claimed = dev.with(|d| d.h.claimed.get(*next).copied().unwrap_or(0));
        match (&got, c.target) {
            // The device reported more bytes than the buffer holds. Nothing can be delivered that is
            // both "exactly the bytes the device wrote" and "not more than the buffer holds": an
            // error, no delivery, or the whole buffer (clamped) are accepted; a shorter delivery
            // presents a length the device never reported. The buffer must come back either way.
            (Got::PollErr | Got::Nothing, _) if claimed != 0 => {}
            (Got::Bytes(b), Target::Owning(_, bsel)) if claimed != 0 && b.len() == (match bsel { 0 => 8, 1 => 64, _ => 512 }) && b[..bytes.len()] == bytes[..] => {}
            (g, _) if claimed != 0 => {
                return Err(format!("{}: the device reported {} bytes for buffer {} of {} bytes ({} really written); the poll delivered {:?}", what, claimed, head, addr_of.get(&head).map(|x| x.1).unwrap_or(0), bytes.len(), match g { Got::Bytes(b) => format!("{} bytes as a valid event", b.len()), o => format!("{:?}", o) }))
            }
            (Got::Bytes(b), _) if *b == bytes => {}
            (Got::Bytes(b), Target::Sound) if bytes.len() == 8 && b[..] == bytes[..] => {}
            (Got::Refused(_), Target::Sound) => {
                let code = u32::from_le_bytes(bytes[..4].try_into().unwrap());
                if [0x1000, 0x1001, 0x1100, 0x1101].contains(&code) {
                    return Err(format!("{}: notification with valid code {:#x} was refused", what, code));
                }
            }
            (g, _) => return Err(format!("{}: delivered {:?}, but the device's next completion (buffer {}) carries {} bytes {:x?}", what, g, head, bytes.len(), &bytes[..bytes.len().min(8)])),
        }
        *next += 1;
        // re-posted immediately, under the same token and the same address
        let new_posts: Vec<(u16, u64, u32)> = dev.with(|d| d.h.postings[postings_before..].to_vec());
        if new_posts.len() != 1 || new_posts[0].0 != head || new_posts[0].1 != addr || Some(&(addr, new_posts[0].2)) != addr_of.get(&head) {
            // in the ring but never announced to a notification-driven device?
            let unannounced = new_posts.is_empty() && dev.with(|d| world::with(|w| d.qs.pending(w, d.h.q) > 0 && !matches!(d.qs.policy_for(d.h.q), Serve::Poll)));
            return Err(format!(
                "{}: after delivering buffer {} (address {:#x}) the device saw these new postings: {:x?}; expected exactly that buffer again{}",
                what,
                head,
                addr,
                new_posts,
                if unannounced { " -- the buffer is back in the available ring, but the device did not see it (was it notified?)" } else { "" }
            ));
        }
        let posted = dev.with(|d| d.h.posted.len());
        let pending_now = dev.with(|d| d.h.log.len()) - *next;
        if posted + pending_now != n {
            return Err(format!("{}: {} buffers posted + {} completed and not yet polled != {}", what, posted, pending_now, n));
        }
        Ok(true)
    };
    let res = (|| -> Result<(), String> {
        let mut ops: Vec<EOp> = c.ops.clone();
        for r in 0..c.rounds {
            ops.push(EOp::Burst { n: (r % 37) as u8 + 1, rot: r.wrapping_mul(7919) });
            ops.push(EOp::Drain);
        }
        for (i, op) in ops.iter().enumerate() {
            let what = format!("op #{} {:?}", i, op);
            match op {
                EOp::Policy(p) => dev.with(|d| world::with(|w| d.set_policy(w, *p))),
                EOp::Fire { pick, len } => {
                    let k_is_front = dev.with(|d| (*pick as usize * d.h.posted.len().max(1)) >> 16 == 0);
                    let did = dev.with(|d| world::with(|w| {
                        let d = &mut *d;
                        d.h.fire(w, &mut d.qs, *pick, *len)
                    }));
                    if did {
                        total_events += 1;
                        if !k_is_front {
                            ooo = true;
                        }
                        sig.add(1);
                    }
                }
                EOp::Burst { n: cnt, rot } => {
                    for j in 0..*cnt {
                        let pick = rot.wrapping_add((j as u16).wrapping_mul(9973));
                        let did = dev.with(|d| world::with(|w| {
                            let d = &mut *d;
                            d.h.fire(w, &mut d.qs, pick, pick.wrapping_mul(31))
                        }));
                        if did {
                            total_events += 1;
                            if pick >> 8 != 0 {
                                ooo = true;
                            }
                        }
                    }
                    sig.add(2).add(*cnt as u64);
                }
                EOp::Poll => {
                    do_poll(&mut poller, 0, &mut next, &what)?;
                    sig.add(3);
                }
                EOp::PollWith(m) => {
                    do_poll(&mut poller, m % 3, &mut next, &what)?;
                    sig.add(4).add(*m as u64 % 3);
                }
                EOp::Drain => {
                    let mut guard_n = 0;
                    while do_poll(&mut poller, 0, &mut next, &what)? {
                        guard_n += 1;
                        if guard_n > 100_000 {
                            return Err("drain does not terminate".into());
                        }
                    }
                    let posted = dev.with(|d| d.h.posted.len());
                    if posted != n {
                        return Err(format!("{}: after draining {} buffers are posted, expected {}", what, posted, n));
                    }
                }
            }
        }
        // final drain
        while do_poll(&mut poller, 0, &mut next, "final drain")? {}
        let posted = dev.with(|d| d.h.posted.len());
        if posted != n {
            return Err(format!("after the final drain {} buffers are posted, expected {}", posted, n));
        }
        Ok(())
    })();
    poller.finish();
    res?;
    check_dev(&dev)?;
    st.class_n("events", total_events);
    if total_events > n as u64 && ooo {
        st.nontrivial(sig.add(total_events.min(1000)).get(), || json!({"target": c.target, "kind": c.kind, "policy": c.policy, "rounds": c.rounds, "ops": c.ops.iter().take(20).collect::<Vec<_>>()}));
    }
    Ok(())
}

fn op() -> impl Strategy<Value = EOp> {
    prop_oneof![
        6 => (any::<u16>(), any::<u16>()).prop_map(|(pick, len)| EOp::Fire { pick, len }),
        2 => (0u8..40, any::<u16>()).prop_map(|(n, rot)| EOp::Burst { n, rot }),
        6 => Just(EOp::Poll),
        2 => (0u8..3).prop_map(EOp::PollWith),
        1 => Just(EOp::Drain),
        1 => drv::serve_strategy().prop_map(EOp::Policy),
    ]
}

pub fn strategy() -> impl Strategy<Value = ECase> {
    (
        prop_oneof![4 => (0u8..4, 0u8..3).prop_map(|(a, b)| Target::Owning(a, b)), 2 => Just(Target::Input), 2 => Just(Target::Sound)],
        drv::tk_strategy(),
        drv::feature_strategy(&[]),
        drv::serve_strategy(),
        prop::collection::vec(op(), 0..60),
        prop_oneof![3 => Just(0u16), 2 => 1u16..30, 1 => 30u16..300],
    )
        .prop_map(|(target, kind, offered, policy, ops, rounds)| ECase { target, kind, offered, policy, ops, rounds })
}

pub fn replay(e: &str, case: &serde_json::Value) -> Result<(), String> {
    if e == "socket-rx" {
        return sock_rx(&serde_json::from_value(case.clone()).map_err(|e| e.to_string())?, &mut Stats::default());
    }
    check(&serde_json::from_value(case.clone()).map_err(|e| e.to_string())?, &mut Stats::default())
}

// ---------------------------------------------------------------------------------------------
// socket receive: the third kind of stocked queue the property names. Every data packet the
// device completes on the receive queue of VirtIOSocket<_, _, RX> is handed to the poll handler
// once, with exactly its body, for every body length the receive buffer can hold.

#[derive(Clone, Debug, Serialize, Deserialize)]
pub struct SockRx {
    pub kind: TK,
    /// 0 => 64-byte, 1 => 512-byte, 2 => 4096-byte receive buffers
    pub rxsel: u8,
    pub policy: Serve,
    /// body length selectors (mapped onto 0..=RX-44 with the boundaries over-represented)
    pub lens: Vec<u16>,
}

struct SockRun<'a> {
    c: &'a SockRx,
    dev: Shared<crate::devs_vsock::VsockDev>,
}

impl WithT for SockRun<'_> {
    type Out = Result<u64, String>;
    fn call<T: Transport + 'static>(self, t: T) -> Self::Out {
        match self.c.rxsel % 3 {
            0 => self.body::<T, 64>(t),
            1 => self.body::<T, 512>(t),
            _ => self.body::<T, 4096>(t),
        }
    }
}

impl SockRun<'_> {
    fn body<T: Transport + 'static, const RX: usize>(self, t: T) -> Result<u64, String> {
        use crate::devs_vsock::Pkt;
        use virtio_drivers::device::socket::{VirtIOSocket, VsockEventType};
        let dev = self.dev;
        let mut sock = match guard(|| VirtIOSocket::<LHal, T, RX>::new(t)) {
            Caught::Ok(Ok(s)) => s,
            other => return Err(format!("VirtIOSocket::new failed: {}", matches!(other, Caught::Ok(_)))),
        };
        let settle = |dev: &Shared<crate::devs_vsock::VsockDev>| {
            for _ in 0..6 {
                dev.turn_spin();
            }
        };
        settle(&dev);
        let stocked = dev.with(|d| d.h.rx_posted.len());
        if stocked == 0 {
            return Err("no receive buffer was posted after construction".into());
        }
        let max_body = RX - 44;
        let bounds = [0usize, 1, 2, 467, 468, 469, 470, max_body.saturating_sub(1), max_body, max_body / 2];
        let mut delivered = 0u64;
        for (i, sel) in self.c.lens.iter().enumerate() {
            let len = if *sel % 3 == 0 { bounds[(*sel as usize / 3) % bounds.len()].min(max_body) } else { *sel as usize % (max_body + 1) };
            let payload: Vec<u8> = (0..len).map(|k| (k as u8).wrapping_mul(29) ^ (i as u8).wrapping_mul(7) ^ 0x51).collect();
            let pkt = Pkt { src_cid: 2, dst_cid: 0x42, src_port: 1000 + i as u32, dst_port: 80, len: len as u32, ty: 1, op: 5, flags: 0, buf_alloc: 1 << 20, fwd_cnt: 0, payload: vec![], wire_len: len };
            let ok = dev.with(|d| world::with(|w| {
                let d = &mut *d;
                d.h.inject(w, &mut d.qs, &pkt, &payload)
            }));
            if !ok {
                return Err(format!("packet #{}: no receive buffer is posted ({} were stocked)", i, stocked));
            }
            let mut seen: Option<(usize, Vec<u8>, u32)> = None;
            let r = match guard(|| {
                sock.poll(|ev, body| {
                    let l = match ev.event_type {
                        VsockEventType::Received { length } => length,
                        _ => usize::MAX,
                    };
                    seen = Some((l, body.to_vec(), ev.source.port));
                    Ok(Some(ev))
                })
            }) {
                Caught::Ok(r) => r,
                Caught::Panic(p) => return Err(format!("packet #{} ({} bytes): poll: {}", i, len, p.render())),
                Caught::Escape(e) => return Err(format!("packet #{}: {:?}", i, e)),
            };
            if !matches!(r, Ok(Some(_))) {
                return Err(format!("packet #{}: a data packet with a {}-byte body (receive buffers of {} bytes) was not delivered: poll returned {:?}", i, len, RX, r));
            }
            match seen {
                Some((l, b, port)) if l == len && b == payload && port == 1000 + i as u32 => {}
                other => return Err(format!("packet #{}: delivered {:?}, the device wrote a {}-byte body", i, other.map(|x| (x.0, x.1.len(), x.2)), len)),
            }
            delivered += 1;
            settle(&dev);
            let now = dev.with(|d| d.h.rx_posted.len());
            if now != stocked {
                return Err(format!("packet #{}: {} receive buffers are posted after the poll, {} were stocked", i, now, stocked));
            }
            if let Some(e) = dev.with(|d| d.h.errors.first().cloned()) {
                return Err(format!("packet #{}: reference peer: {}", i, e));
            }
        }
        let _ = guard(move || drop(sock));
        Ok(delivered)
    }
}

pub fn sock_rx(c: &SockRx, st: &mut Stats) -> Result<(), String> {
    let mut cfg = vec![0u8; 8];
    cfg[..8].copy_from_slice(&0x42u64.to_le_bytes());
    drv::setup_world(c.kind, 1 << 32, cfg, 64);
    let dev = Shared::install(SimDev::new(3, c.policy, crate::devs_vsock::VsockDev::new()));
    let n = with_transport(c.kind, 19, 8, SockRun { c, dev })??;
    if let Some((tag, m)) = drv::fault_text() {
        return Err(format!("[{}] {}", tag, m));
    }
    st.class_n("socket_packets_delivered", n);
    let mut s = Sig::new();
    s.add(0x50c).add(c.kind as u64).add(c.rxsel as u64 % 3);
    for l in &c.lens {
        s.add(*l as u64);
    }
    if c.lens.len() > 8 {
        st.nontrivial(s.get(), || json!(c));
    }
    Ok(())
}

fn sock_strategy() -> impl Strategy<Value = SockRx> {
    (drv::tk_strategy(), 0u8..3, drv::serve_strategy(), prop::collection::vec(any::<u16>(), 1..40)).prop_map(|(kind, rxsel, policy, lens)| SockRx { kind, rxsel, policy, lens })
}

pub fn run(ctx: &Ctx) -> Report {
    // deterministic long runs: more than 65536 events on a stocked queue, so that the free-running
    // 16-bit ring indices wrap while all buffers are posted (bursts of 1..37 events, then a drain)
    let mut items = Vec::new();
    let long_targets: &[Target] = if ctx.quick() { &[Target::Owning(2, 0), Target::Input, Target::Sound] } else { &[Target::Owning(0, 0), Target::Owning(1, 1), Target::Owning(2, 0), Target::Owning(3, 2), Target::Input, Target::Sound] };
    for (i, t) in long_targets.iter().enumerate() {
        for ev in [0u64, 1 << 29] {
            items.push(ECase { target: *t, kind: if i % 2 == 0 { crate::tkind::TK::Model } else { crate::tkind::TK::MmioModern }, offered: 1 << 32 | ev, policy: if ev == 0 { Serve::OnNotify } else { Serve::Poll }, ops: vec![], rounds: 3700 });
        }
    }
    let (mut stats, mut failure) = crate::runner::run_items(ctx, "events", items, |c: &ECase, st| {
        let r = check(c, st);
        if r.is_ok() {
            st.class("long_run_more_than_65536_events");
        }
        r
    });
    if failure.is_none() {
        let (st, f) = run_proptest(ctx, "events", 191, ctx.n(40_000, 2_000_000), strategy, |c: &ECase, st| check(c, st));
        stats.merge(st);
        failure = f;
    }
    if failure.is_none() {
        // every boundary length for each buffer size, then generated sequences
        let items: Vec<SockRx> = (0..3u8).flat_map(|rxsel| [Serve::OnNotify, Serve::Poll].into_iter().map(move |policy| SockRx { kind: TK::Model, rxsel, policy, lens: (0..30).map(|k| k * 3).collect() })).collect();
        let (st, f) = crate::runner::run_items(ctx, "socket-rx", items, |c: &SockRx, st| sock_rx(c, st));
        stats.merge(st);
        failure = f;
    }
    if failure.is_none() {
        let (st, f) = run_proptest(ctx, "socket-rx", 192, ctx.n(6_000, 400_000), sock_strategy, |c: &SockRx, st| sock_rx(c, st));
        stats.merge(st);
        failure = f;
    }
    Report {
        stats,
        failure,
        info: PartInfo {
            level: "exploration",
            rule: "proptest histories on OwningQueue<_,N,B> (N in {1,2,8,32}, B in {8,64,512}, handler returning Ok(Some)/Ok(None)/Err), VirtIOInput::pop_pending_event and VirtIOSound::latest_notification (all transports): the device completes any posted buffer (any order), bursts of 0..40 between polls, written length 0..B, followed by up to 300 burst/drain rounds (far more events than the queue size); plus deterministic runs of 3700 burst/drain rounds (> 65536 events, so the ring indices wrap on a fully stocked queue) per target. Socket receive: VirtIOSocket<_,_,RX> (RX 64/512/4096) polled after the reference peer completes a data packet with a body of every boundary length and generated lengths 0..=RX-44: the handler sees exactly that body once and all receive buffers are posted again. Oracle: deliveries = the device's completions in used-ring order, once each, exactly the written bytes; after each delivery the device sees exactly one new posting, with the same token and the same device address; posted + pending = N after every poll and N when drained. Non-trivial = more events than the queue size with an out-of-order pick; distinct = (target, transport, features, op kinds, event count).",
            assumptions: vec!["a notification sent before DRIVER_OK is C08's concern and is tolerated here (the device scans its rings when DRIVER_OK is set)".into()],
            exhaustive: false,
            extra: json!({}),
        },
    }
}
