//! C20: command/response drivers (GPU, sound, entropy, clock, 9P) encode requests per the
//! specification, check every response, keep attached memory alive, deliver PCM frames once.

use crate::devq::{Handler, Serve, Shared, SimDev};
use crate::devs_cmd::*;
use crate::hal::LHal;
use crate::props::drv;
use crate::runner::{guard, run_proptest, Caught, Ctx, PartInfo, Report, Sig, Stats};
use crate::tkind::{with_transport, WithT, TK};
use crate::world::{self, Escape};
use proptest::prelude::*;
use serde::{Deserialize, Serialize};
use serde_json::json;
use virtio_drivers::device::gpu::VirtIOGpu;
use virtio_drivers::device::rng::VirtIORng;
use virtio_drivers::device::rtc::{ClockType, SmearingVariant, VirtIORtc};
use virtio_drivers::device::sound::{PcmFeatures, PcmFormat, PcmRate, VirtIOSound};
use virtio_drivers::device::virtio_9p::VirtIO9p;
use virtio_drivers::transport::Transport;
use virtio_drivers::Error;

#[derive(Clone, Debug, Serialize, Deserialize, PartialEq)]
pub enum GOp {
    Resolution,
    SetupFb,
    ChangeRes(u16, u16),
    Flush,
    SetupCursor { x: u32, y: u32, hx: u32, hy: u32, bad_len: bool },
    MoveCursor(u32, u32),
    GetEdid,
    EdidPreferred,
    EdidSupported,
    /// the n-th control command from now is answered with this response type
    Inject(u8, u32),
}

#[derive(Clone, Debug, Serialize, Deserialize, PartialEq)]
pub enum SOp {
    SetParams { stream: u8, periods: u8, period: u16, channels: u8, format: u8, rate: u8 },
    Prepare(u8),
    Start(u8),
    Stop(u8),
    Release(u8),
    Xfer { stream: u8, len: u16, lag: u8 },
    XferNb { stream: u8 },
    XferOk { pick: u16 },
    JackRemap(u8, u32, u32),
    Query(u8),
    Inject(u8, u32),
}

#[derive(Clone, Debug, Serialize, Deserialize, PartialEq)]
pub enum ROp {
    Entropy { len: u16, fill: u16 },
}

#[derive(Clone, Debug, Serialize, Deserialize, PartialEq)]
pub enum TOp {
    NumClocks(u8),
    Cap(u16, u8),
    Read(u16, u8),
}

#[derive(Clone, Debug, Serialize, Deserialize, PartialEq)]
pub enum POp {
    Request { req_len: u16, resp_len: u16, reply_len: u16, bad_size: Option<u32> },
}

#[derive(Clone, Debug, Serialize, Deserialize, PartialEq)]
pub enum Body {
    Gpu { w: u16, h: u16, edid: Vec<u8>, edid_size: u32, ops: Vec<GOp> },
    Sound { streams: u8, jacks: u8, chmaps: u8, ops: Vec<SOp> },
    Rng { ops: Vec<ROp> },
    Rtc { clocks: Vec<(u8, u8, u8)>, ops: Vec<TOp> },
    P9 { tag: String, ops: Vec<POp> },
}

#[derive(Clone, Debug, Serialize, Deserialize)]
pub struct CCase {
    pub kind: TK,
    pub offered: u64,
    pub policy: Serve,
    pub body: Body,
}

macro_rules! g {
    ($what:expr, $e:expr) => {
        match guard(|| $e) {
            Caught::Ok(r) => r,
            Caught::Panic(p) => return Err(format!("{}: {}", $what, p.render())),
            Caught::Escape(Escape::LostWakeup(m)) => return Err(format!("{}: lost wake-up: {}", $what, m)),
            Caught::Escape(Escape::Starved(m)) => return Err(format!("{}: blocking call never returns: {}", $what, m)),
            Caught::Escape(e) => return Err(format!("{}: inconclusive {:?}", $what, e)),
        }
    };
}

fn dev_errors<H: Handler + 'static>(dev: &Shared<H>, get: impl Fn(&H) -> Option<String>) -> Result<(), String> {
    if let Some(e) = dev.with(|d| get(&d.h)) {
        return Err(format!("reference device: {}", e));
    }
    if let Some((tag, m)) = drv::fault_text() {
        return Err(format!("[{}] {}", tag, m));
    }
    Ok(())
}

// ---------------------------------------------------------------------------------------------
// independent EDID decoder (E-EDID base block layout)

fn edid_preferred(data: &[u8], size: u32) -> Option<(u32, u32)> {
    if size < 128 {
        return None;
    }
    let d = &data[54..72];
    let h = d[2] as u32 | ((d[4] as u32 >> 4) << 8);
    let v = d[5] as u32 | ((d[7] as u32 >> 4) << 8);
    if h == 0 || v == 0 {
        None
    } else {
        Some((h, v))
    }
}

fn edid_standard(data: &[u8], size: u32) -> Vec<(u32, u32)> {
    let mut out = Vec::new();
    if size < 128 {
        return out;
    }
    for i in 0..8 {
        let (b0, b1) = (data[38 + 2 * i], data[39 + 2 * i]);
        if b0 == 1 && b1 == 1 {
            continue;
        }
        let h = (b0 as u32 + 31) * 8;
        let v = match b1 >> 6 {
            0 => h * 10 / 16,
            1 => h * 3 / 4,
            2 => h * 4 / 5,
            _ => h * 9 / 16,
        };
        out.push((h, v));
    }
    out
}

// ---------------------------------------------------------------------------------------------
// GPU

// Symbolic resource ids used in expectations. Which ids the driver gives its resources is its own
// choice (non-zero, distinct among live resources): the model binds the real id when the resource
// is created and demands that same id in every later command on it.
const FB: u32 = 0xffff_fff1;
const CUR: u32 = 0xffff_fff2;

fn gpu_id_mut(c: &mut GpuCmd) -> Option<&mut u32> {
    match c {
        GpuCmd::Create2d { id, .. }
        | GpuCmd::Unref { id }
        | GpuCmd::SetScanout { id, .. }
        | GpuCmd::Flush { id, .. }
        | GpuCmd::Transfer { id, .. }
        | GpuCmd::Attach { id, .. }
        | GpuCmd::Detach { id }
        | GpuCmd::UpdateCursor { id, .. }
        | GpuCmd::MoveCursor { id, .. } => Some(id),
        _ => None,
    }
}

struct GpuRun<'a> {
    c: &'a CCase,
    dev: Shared<GpuDev>,
    st: &'a mut Stats,
}

impl WithT for GpuRun<'_> {
    type Out = Result<(), String>;
    fn call<T: Transport + 'static>(self, t: T) -> Self::Out {
        let GpuRun { c, dev, st } = self;
        let Body::Gpu { w: dw, h: dh, edid, edid_size, ops } = &c.body else { unreachable!() };
        let mut gpu = match g!("VirtIOGpu::new", VirtIOGpu::<LHal, T>::new(t)) {
            Ok(x) => x,
            Err(e) => return Err(format!("VirtIOGpu::new failed: {:?}", e)),
        };
        let accepted = world::with(|w| w.dev.accepted);
        let has_edid = accepted & 2 != 0;
        let chk = |dev: &Shared<GpuDev>| dev_errors(dev, |h| h.errors.first().cloned());
        let mut have_fb: Option<(u32, u32)> = None;
        let mut cursor_set = false;
        let (mut fb_id, mut cur_id): (Option<u32>, Option<u32>) = (None, None);
        let mut clean = true; // no device error so far
        let mut sig = Sig::new();
        sig.add(c.kind as u64).add(accepted);
        let (mut res_change_after_fb, mut error_mid) = (false, false);
        for (i, op) in ops.iter().enumerate() {
            let what = format!("op #{} {:?}", i, op);
            world::with(|w| w.spins = 0);
            let log0 = dev.with(|d| d.h.log.len());
            let ans0 = dev.with(|d| d.h.answers.len());
            let alloc0 = world::with(|w| w.hal.log.len());
            let errs0 = dev.with(|d| d.h.device_errors);
            let inj0 = dev.with(|d| d.h.injected);
            let mut expect: Option<Vec<GpuCmd>> = None;
            let result_err: Option<bool>; // Some(true) = call returned Err
            match op {
                GOp::Inject(n, t) => {
                    dev.with(|d| {
                        let at = d.h.cmd_no + *n as u64 % 8;
                        d.h.inject.insert(at, *t);
                    });
                    continue;
                }
                GOp::Resolution => {
                    let r = g!(what, gpu.resolution());
                    expect = Some(vec![GpuCmd::GetDisplayInfo]);
                    result_err = Some(r.is_err());
                    if let Ok(v) = r {
                        if v != (*dw as u32, *dh as u32) {
                            return Err(format!("{}: returned {:?}, device reports {}x{}", what, v, dw, dh));
                        }
                    }
                }
                GOp::SetupFb | GOp::ChangeRes(..) => {
                    let (rw, rh) = match op {
                        GOp::ChangeRes(a, b) => ((*a as u32).max(1), (*b as u32).max(1)),
                        _ => (*dw as u32, *dh as u32),
                    };
                    let r = if matches!(op, GOp::SetupFb) {
                        g!(what, gpu.setup_framebuffer().map(|b| b.len()))
                    } else {
                        g!(what, gpu.change_resolution(rw, rh).map(|b| b.len()))
                    };
                    let mut e = Vec::new();
                    if matches!(op, GOp::SetupFb) {
                        e.push(GpuCmd::GetDisplayInfo);
                    }
                    if have_fb.is_some() {
                        e.push(GpuCmd::SetScanout { rect: [0; 4], scanout: 0, id: 0 });
                        e.push(GpuCmd::Detach { id: FB });
                        e.push(GpuCmd::Unref { id: FB });
                        res_change_after_fb = true;
                    }
                    e.push(GpuCmd::Create2d { id: FB, format: 1, w: rw, h: rh });
                    e.push(GpuCmd::Attach { id: FB, entries: vec![] }); // address checked below
                    e.push(GpuCmd::SetScanout { rect: [0, 0, rw, rh], scanout: 0, id: FB });
                    expect = Some(e);
                    result_err = Some(r.is_err());
                    match r {
                        Ok(len) => {
                            if len < (rw * rh * 4) as usize {
                                return Err(format!("{}: framebuffer of {} bytes for {}x{}", what, len, rw, rh));
                            }
                            have_fb = Some((rw, rh));
                        }
                        Err(_) => have_fb = None,
                    }
                }
                GOp::Flush => {
                    let r = g!(what, gpu.flush());
                    if clean && have_fb.is_none() {
                        if r.is_ok() || dev.with(|d| d.h.log.len()) != log0 {
                            return Err(format!("{}: flush before a framebuffer exists returned {:?} / sent commands", what, r));
                        }
                        continue;
                    }
                    if let Some((rw, rh)) = have_fb {
                        expect = Some(vec![GpuCmd::Transfer { rect: [0, 0, rw, rh], offset: 0, id: FB }, GpuCmd::Flush { rect: [0, 0, rw, rh], id: FB }]);
                    }
                    result_err = Some(r.is_err());
                }
                GOp::SetupCursor { x, y, hx, hy, bad_len } => {
                    if cursor_set && clean {
                        continue; // a second setup is a device error by construction (resource exists)
                    }
                    let img = vec![0x5au8; if *bad_len { 100 } else { 64 * 64 * 4 }];
                    let r = g!(what, gpu.setup_cursor(&img, *x, *y, *hx, *hy));
                    if *bad_len {
                        if r != Err(Error::InvalidParam) || dev.with(|d| d.h.log.len()) != log0 {
                            return Err(format!("{}: wrong image size must be refused locally, got {:?}", what, r));
                        }
                        continue;
                    }
                    expect = Some(vec![
                        GpuCmd::Create2d { id: CUR, format: 1, w: 64, h: 64 },
                        GpuCmd::Attach { id: CUR, entries: vec![] },
                        GpuCmd::Transfer { rect: [0, 0, 64, 64], offset: 0, id: CUR },
                        GpuCmd::UpdateCursor { scanout: 0, x: *x, y: *y, id: CUR, hot_x: *hx, hot_y: *hy },
                    ]);
                    result_err = Some(r.is_err());
                    if r.is_ok() {
                        cursor_set = true;
                    }
                }
                GOp::MoveCursor(x, y) => {
                    let r = g!(what, gpu.move_cursor(*x, *y));
                    expect = Some(vec![GpuCmd::MoveCursor { scanout: 0, x: *x, y: *y, id: CUR, hot_x: 0, hot_y: 0 }]);
                    result_err = Some(r.is_err());
                }
                GOp::GetEdid | GOp::EdidPreferred | GOp::EdidSupported => {
                    let r: Result<Option<Vec<(u32, u32)>>, Error> = match op {
                        GOp::GetEdid => g!(what, gpu.get_edid(0).map(|_| None)),
                        GOp::EdidPreferred => g!(what, gpu.edid_preferred_resolution().map(|x| Some(vec![x]))),
                        _ => g!(what, gpu.edid_supported_resolutions().map(Some)),
                    };
                    if !has_edid {
                        if r != Err(Error::Unsupported) || dev.with(|d| d.h.log.len()) != log0 {
                            return Err(format!("{}: EDID feature not negotiated, got {:?}", what, r));
                        }
                        continue;
                    }
                    expect = Some(vec![GpuCmd::GetEdid { scanout: 0 }]);
                    let answered_ok = dev.with(|d| d.h.answers.get(ans0).copied()) == Some(0x1104);
                    if answered_ok {
                        match op {
                            GOp::EdidPreferred => {
                                let want = edid_preferred(edid, *edid_size);
                                match (&r, want) {
                                    (Ok(Some(v)), Some(wv)) if v[0] == wv => {}
                                    (Err(_), None) => {}
                                    _ => return Err(format!("{}: returned {:?}, the EDID's first detailed timing gives {:?}", what, r, want)),
                                }
                                result_err = None;
                            }
                            GOp::EdidSupported => {
                                let mut want = edid_standard(edid, *edid_size);
                                match &r {
                                    Ok(Some(v)) => {
                                        let mut a = v.clone();
                                        a.sort();
                                        want.sort();
                                        if a != want {
                                            return Err(format!("{}: returned {:?}, the EDID's standard timings are {:?}", what, v, want));
                                        }
                                        if v.windows(2).any(|p| (p[0].0 as u64 * p[0].1 as u64) < (p[1].0 as u64 * p[1].1 as u64)) {
                                            return Err(format!("{}: list not sorted by non-increasing pixel count: {:?}", what, v));
                                        }
                                    }
                                    other => return Err(format!("{}: returned {:?}", what, other)),
                                }
                                result_err = Some(false);
                            }
                            _ => result_err = Some(r.is_err()),
                        }
                    } else {
                        result_err = Some(r.is_err());
                    }
                }
            }
            let log: Vec<GpuCmd> = dev.with(|d| d.h.log[log0..].to_vec());
            let answers: Vec<u32> = dev.with(|d| d.h.answers[ans0..].to_vec());
            let new_errs = dev.with(|d| d.h.device_errors) - errs0;
            {
                // "in the absence of device errors": once the device has answered anything but the
                // expected success type, backing-lifetime complaints no longer count
                // (an error the device raised by itself because the driver's commands were out of
                // order is the driver's doing and is reported)
                let dirty = !clean || dev.with(|d| d.h.injected) != inj0;
                let wrong_success = answers.iter().zip(log.iter().filter(|c| !matches!(c, GpuCmd::UpdateCursor { .. } | GpuCmd::MoveCursor { .. }))).any(|(a, c)| {
                    *a != match c {
                        GpuCmd::GetDisplayInfo => 0x1101,
                        GpuCmd::GetEdid { .. } => 0x1104,
                        _ => 0x1100,
                    }
                });
                let _ = wrong_success;
                if dirty {
                    world::with(|w| w.faults.retain(|f| f.prop != "attached"));
                    // ordering complaints of the reference device are meaningless once driver and
                    // device disagree about which resources exist
                    dev.with(|d| d.h.errors.clear());
                }
            }
            chk(&dev)?;
            // any non-success (or wrong-success) answer must surface as Err
            let expected_types: Vec<u32> = log
                .iter()
                .filter(|c| !matches!(c, GpuCmd::UpdateCursor { .. } | GpuCmd::MoveCursor { .. }))
                .map(|c| match c {
                    GpuCmd::GetDisplayInfo => 0x1101,
                    GpuCmd::GetEdid { .. } => 0x1104,
                    _ => 0x1100,
                })
                .collect();
            let all_expected = answers.iter().zip(expected_types.iter()).all(|(a, e)| a == e) && answers.len() == expected_types.len();
            if let Some(was_err) = result_err {
                if !all_expected && !was_err {
                    return Err(format!("{}: the device answered {:x?} to {:?} (expected success types {:x?}) but the call returned Ok", what, answers, log, expected_types));
                }
                if all_expected && was_err && clean {
                    return Err(format!("{}: every response was the expected success type ({:x?}) but the call returned an error", what, answers));
                }
            }
            if !all_expected || new_errs > 0 {
                if clean {
                    error_mid = true;
                }
                clean = false;
            }
            if clean {
                if let Some(mut e) = expect {
                    // fill in the attach address from the DMA allocation made by this call
                    let allocs: Vec<(u64, usize)> = world::with(|w| {
                        w.hal.log[alloc0..]
                            .iter()
                            .filter_map(|ev| if let crate::hal::HalEv::Alloc(i) = ev { Some((w.hal.regions[*i].paddr, w.hal.regions[*i].len)) } else { None })
                            .collect()
                    });
                    for x in e.iter_mut() {
                        if let GpuCmd::Attach { id, entries } = x {
                            let want_len = if *id == CUR { 64 * 64 * 4 } else { have_fb.map(|(a, b)| a * b * 4).unwrap_or(0) };
                            if let Some((p, l)) = allocs.last() {
                                if (*l as u64) < want_len as u64 {
                                    return Err(format!("{}: DMA region of {} bytes allocated for a backing of {} bytes", what, l, want_len));
                                }
                                *entries = vec![(*p, want_len)];
                            }
                        }
                    }
                    // bind / resolve the symbolic resource ids
                    let (mut new_fb, mut new_cur) = (None, None);
                    for (k, x) in e.iter().enumerate() {
                        if let (GpuCmd::Create2d { id: sym, .. }, Some(GpuCmd::Create2d { id: got, .. })) = (x, log.get(k)) {
                            if *sym == FB {
                                new_fb = Some(*got);
                            } else if *sym == CUR {
                                new_cur = Some(*got);
                            }
                        }
                    }
                    if new_fb == Some(0) || new_cur == Some(0) {
                        return Err(format!("{}: resource id 0 (\"no resource\") given to a new resource: {:x?}", what, log));
                    }
                    if (new_fb.is_some() && new_fb == cur_id) || (new_cur.is_some() && new_cur == fb_id) {
                        return Err(format!("{}: a new resource was given the id of another live resource: {:x?}", what, log));
                    }
                    let mut created = false;
                    for (k, x) in e.iter_mut().enumerate() {
                        if matches!(x, GpuCmd::Create2d { .. }) {
                            created = true;
                        }
                        let seen = log.get(k).cloned().and_then(|mut l| gpu_id_mut(&mut l).map(|i| *i));
                        if let Some(id) = gpu_id_mut(x) {
                            if *id == FB {
                                if let Some(v) = if created { new_fb } else { fb_id } {
                                    *id = v;
                                }
                            } else if *id == CUR {
                                // a cursor command before any cursor resource exists names whatever
                                // id the driver reserves for it
                                if let Some(v) = if created { new_cur } else { cur_id.or(seen) } {
                                    *id = v;
                                }
                            }
                        }
                    }
                    if log != e {
                        return Err(format!("{}: device saw {:x?}, specification order/encoding is {:x?} (resource ids {:x}/{:x} are symbolic: framebuffer/cursor, not yet bound)", what, log, e, FB, CUR));
                    }
                    if new_fb.is_some() {
                        fb_id = new_fb;
                    }
                    if new_cur.is_some() {
                        cur_id = new_cur;
                    }
                }
            }
            sig.add(log.len() as u64).add(all_expected as u64).add(log.first().map(|c| match c { GpuCmd::GetDisplayInfo => 1, GpuCmd::Create2d { .. } => 2, GpuCmd::SetScanout { .. } => 3, GpuCmd::Transfer { .. } => 4, GpuCmd::GetEdid { .. } => 5, GpuCmd::MoveCursor { .. } => 6, _ => 7 }).unwrap_or(0));
        }
        g!("drop", drop(gpu));
        if clean {
            if let Some((tag, m)) = drv::fault_text() {
                return Err(format!("drop: [{}] {}", tag, m));
            }
        }
        let live = world::with(|w| w.hal.live_dma_count());
        if live != 0 {
            return Err(format!("after drop: {} DMA regions still live", live));
        }
        if res_change_after_fb || error_mid {
            st.nontrivial(sig.get(), || json!({"kind": c.kind, "gpu_ops": ops.iter().take(25).collect::<Vec<_>>()}));
        }
        if res_change_after_fb {
            st.class("gpu_resolution_change_after_framebuffer");
        }
        if error_mid {
            st.class("gpu_error_response_mid_sequence");
        }
        Ok(())
    }
}

// ---------------------------------------------------------------------------------------------
// sound

struct SndRun<'a> {
    c: &'a CCase,
    dev: Shared<SoundDev>,
    st: &'a mut Stats,
}

fn fmt_of(v: u8) -> PcmFormat {
    match v % 6 {
        0 => PcmFormat::U8,
        1 => PcmFormat::S16,
        2 => PcmFormat::S24,
        3 => PcmFormat::S32,
        4 => PcmFormat::FLOAT,
        _ => PcmFormat::ImaAdpcm,
    }
}
fn rate_of(v: u8) -> PcmRate {
    match v % 4 {
        0 => PcmRate::Rate8000,
        1 => PcmRate::Rate44100,
        2 => PcmRate::Rate48000,
        _ => PcmRate::Rate384000,
    }
}

impl WithT for SndRun<'_> {
    type Out = Result<(), String>;
    fn call<T: Transport + 'static>(self, t: T) -> Self::Out {
        let SndRun { c, dev, st } = self;
        let Body::Sound { streams, jacks, chmaps, ops } = &c.body else { unreachable!() };
        let mut snd = match g!("VirtIOSound::new", VirtIOSound::<LHal, T>::new(t)) {
            Ok(x) => x,
            Err(e) => return Err(format!("VirtIOSound::new failed: {:?}", e)),
        };
        if (snd.jacks(), snd.streams(), snd.chmaps()) != (*jacks as u32, *streams as u32, *chmaps as u32) {
            return Err("jacks()/streams()/chmaps() differ from the device configuration".into());
        }
        let accepted = world::with(|w| w.dev.accepted);
        let indirect = accepted & drv::F_INDIRECT != 0;
        let chk = |dev: &Shared<SoundDev>| dev_errors(dev, |h| h.errors.first().cloned());
        let ns = *streams as u32;
        let mut params: Vec<Option<u32>> = vec![None; ns as usize]; // period per stream
        let mut set_up_done = false;
        let clean = true;
        let mut nb: Vec<(u16, u32, Vec<u8>)> = Vec::new();
        let mut sig = Sig::new();
        sig.add(c.kind as u64).add(accepted).add(ns as u64);
        let (mut max_nb, mut error_mid) = (0usize, false);
        let mut frame_seed = 0u8;
        for (i, op) in ops.iter().enumerate() {
            let what = format!("op #{} {:?}", i, op);
            world::with(|w| w.spins = 0);
            let ctl0 = dev.with(|d| d.h.ctl_log.len());
            // The driver lazily queries the device (jack, pcm, chmap info) before its first real
            // operation, and repeats that until the pcm query succeeds. Returns the index of the
            // first control request after those queries and whether the set-up failed.
            let scan_setup = |n_before: usize, dev: &Shared<SoundDev>, set_up_done: &mut bool| -> Result<(usize, bool), String> {
                if *set_up_done {
                    return Ok((n_before, false));
                }
                let (l, a): (Vec<SndReq>, Vec<u32>) = dev.with(|d| (d.h.ctl_log[n_before..].to_vec(), d.h.ctl_answers[n_before..].to_vec()));
                if l.is_empty() {
                    return Ok((n_before, false));
                }
                // Which information queries the set-up makes, and in which order, is the
                // implementation's choice (the property fixes what is returned to the caller, which
                // the Query operation checks): take the leading run of information queries, demand
                // that each is a well-formed query for all items of its category, and read the
                // outcome off the answer to the stream query.
                let k = l.iter().take_while(|r| matches!(r, SndReq::JackInfo { .. } | SndReq::PcmInfo { .. } | SndReq::ChmapInfo { .. })).count();
                let mut pcm_at = None;
                for (i, r) in l[..k].iter().enumerate() {
                    let ok = match r {
                        SndReq::JackInfo { start, count, size } => (*start, *count, *size) == (0, *jacks as u32, 24),
                        SndReq::PcmInfo { start, count, size } => {
                            pcm_at = Some(i);
                            (*start, *count, *size) == (0, ns, 32)
                        }
                        SndReq::ChmapInfo { start, count, size } => (*start, *count, *size) == (0, *chmaps as u32, 24),
                        _ => unreachable!(),
                    };
                    if !ok {
                        return Err(format!("lazy set-up queries: device saw {:?} with {} jacks, {} streams, {} channel maps configured (item sizes 24/32/24)", &l[..k], jacks, ns, chmaps));
                    }
                }
                if let Some(p) = pcm_at {
                    if a[p] != 0x8000 {
                        // pcm info refused: set-up aborted, the operation must fail
                        return Ok((n_before + k, true));
                    }
                    *set_up_done = true;
                }
                Ok((n_before + k, false))
            };
            match op {
                SOp::Inject(n, s) => {
                    dev.with(|d| {
                        let at = d.h.ctl_no + *n as u64 % 6;
                        d.h.inject.insert(at, *s);
                    });
                    continue;
                }
                SOp::SetParams { stream, periods, period, channels, format, rate } => {
                    if ns == 0 {
                        continue;
                    }
                    let s = *stream as u32 % ns;
                    let period_b = (*period as u32 % 512) + 1;
                    let buffer_b = period_b * ((*periods as u32 % 8) + 1);
                    let inj_before = dev.with(|d| d.h.inject.len());
                    let r = g!(what, snd.pcm_set_params(s, buffer_b, period_b, PcmFeatures::empty(), *channels, fmt_of(*format), rate_of(*rate)));
                    chk(&dev)?;
                    let injected = dev.with(|d| d.h.inject.len()) != inj_before;
                    let (at, setup_failed) = scan_setup(ctl0, &dev, &mut set_up_done).map_err(|m| format!("{}: {}", what, m))?;
                    let l: Vec<SndReq> = dev.with(|d| d.h.ctl_log[at..].to_vec());
                    let ans: Vec<u32> = dev.with(|d| d.h.ctl_answers[at..].to_vec());
                    if setup_failed {
                        if r.is_ok() || !l.is_empty() {
                            return Err(format!("{}: the stream query was refused but the call returned {:?} / continued with {:?}", what, r, l));
                        }
                    } else {
                        let want = vec![SndReq::SetParams {
                            stream: s,
                            buffer_bytes: buffer_b,
                            period_bytes: period_b,
                            features: 0,
                            channels: *channels,
                            format: fmt_of(*format) as u8,
                            rate: rate_of(*rate) as u8,
                        }];
                        if l != want {
                            return Err(format!("{}: device saw {:?}, expected {:?}", what, l, want));
                        }
                        if (ans[0] == 0x8000) != r.is_ok() {
                            return Err(format!("{}: device answered {:#x} but the call returned {:?}", what, ans[0], r));
                        }
                    }
                    if injected {
                        error_mid = true;
                    }
                    if r.is_ok() {
                        params[s as usize] = Some(period_b);
                    }
                    sig.add(1);
                }
                SOp::Prepare(s) | SOp::Start(s) | SOp::Stop(s) | SOp::Release(s) => {
                    let sid = *s as u32 % (ns + 2);
                    let inj_before = dev.with(|d| d.h.inject.len());
                    let r = match op {
                        SOp::Prepare(_) => g!(what, snd.pcm_prepare(sid)),
                        SOp::Start(_) => g!(what, snd.pcm_start(sid)),
                        SOp::Stop(_) => g!(what, snd.pcm_stop(sid)),
                        _ => g!(what, snd.pcm_release(sid)),
                    };
                    chk(&dev)?;
                    let injected = dev.with(|d| d.h.inject.len()) != inj_before;
                    let (at, setup_failed) = scan_setup(ctl0, &dev, &mut set_up_done).map_err(|m| format!("{}: {}", what, m))?;
                    let l: Vec<SndReq> = dev.with(|d| d.h.ctl_log[at..].to_vec());
                    let ans: Vec<u32> = dev.with(|d| d.h.ctl_answers[at..].to_vec());
                    if setup_failed {
                        if r.is_ok() || !l.is_empty() {
                            return Err(format!("{}: the stream query was refused but the call returned {:?} / continued with {:?}", what, r, l));
                        }
                    } else {
                        let want = vec![match op {
                            SOp::Prepare(_) => SndReq::Prepare(sid),
                            SOp::Start(_) => SndReq::Start(sid),
                            SOp::Stop(_) => SndReq::Stop(sid),
                            _ => SndReq::Release(sid),
                        }];
                        if l != want {
                            return Err(format!("{}: device saw {:?}, expected {:?}", what, l, want));
                        }
                        // any status other than OK (e.g. BAD_MSG for unknown streams) must surface as an error
                        if (ans[0] == 0x8000) != r.is_ok() {
                            return Err(format!("{}: stream {} of {}: device answered {:#x} but the call returned {:?}", what, sid, ns, ans[0], r));
                        }
                    }
                    if injected {
                        error_mid = true;
                    }
                    sig.add(2);
                }
                SOp::JackRemap(j, a, q) => {
                    let nj = *jacks as u32;
                    // an existing jack most of the time (even jacks of the reference device advertise REMAP)
                    let jid = if nj > 0 && *j < 200 { *j as u32 % nj } else { *j as u32 };
                    let inj_before = dev.with(|d| d.h.inject.len());
                    let r = g!(what, snd.jack_remap(jid, *a, *q));
                    chk(&dev)?;
                    let injected = dev.with(|d| d.h.inject.len()) != inj_before;
                    let (at, setup_failed) = scan_setup(ctl0, &dev, &mut set_up_done).map_err(|m| format!("{}: {}", what, m))?;
                    let l: Vec<SndReq> = dev.with(|d| d.h.ctl_log[at..].to_vec());
                    let ans: Vec<u32> = dev.with(|d| d.h.ctl_answers[at..].to_vec());
                    // what the driver can know about the jacks: the answer to its last jack query
                    let jacks_known = dev.with(|d| d.h.ctl_log[..at].iter().zip(d.h.ctl_answers.iter()).filter(|(r, _)| matches!(r, SndReq::JackInfo { .. })).last().map(|(_, a)| *a == 0x8000).unwrap_or(false));
                    if setup_failed {
                        if r.is_ok() || !l.is_empty() {
                            return Err(format!("{}: the stream query was refused but the call returned {:?} / continued with {:?}", what, r, l));
                        }
                    } else if jid >= nj || (jacks_known && jid % 2 == 1) {
                        // no such jack, or a jack that does not advertise VIRTIO_SND_JACK_F_REMAP
                        if r.is_ok() {
                            return Err(format!("{}: returned Ok although jack {} of {} {}", what, jid, nj, if jid >= nj { "does not exist" } else { "does not support remapping" }));
                        }
                    } else if jacks_known {
                        let want = vec![SndReq::JackRemap { jack: jid, association: *a, sequence: *q }];
                        if l != want {
                            return Err(format!("{}: jack {} advertises REMAP: device saw {:?}, expected {:?} (call returned {:?})", what, jid, l, want, r));
                        }
                        if (ans[0] == 0x8000) != r.is_ok() {
                            return Err(format!("{}: device answered {:#x} but the call returned {:?}", what, ans[0], r));
                        }
                        st.class("sound_jack_remap_emitted");
                    }
                    if injected {
                        error_mid = true;
                    }
                    sig.add(9);
                }
                SOp::Query(k) => {
                    if ns == 0 {
                        continue;
                    }
                    let s = *k as u32 % ns;
                    let inj_before = dev.with(|d| d.h.inject.len());
                    let r = g!(what, snd.rates_supported(s).and_then(|r| snd.formats_supported(s).map(|f| (r, f))).and_then(|x| snd.channel_range_supported(s).map(|c| (x.0, x.1, c))));
                    chk(&dev)?;
                    let _ = inj_before;
                    let (_, setup_failed) = scan_setup(ctl0, &dev, &mut set_up_done).map_err(|m| format!("{}: {}", what, m))?;
                    if setup_failed {
                        if r.is_ok() {
                            return Err(format!("{}: the stream query was refused but the call returned Ok", what));
                        }
                    } else {
                        let (er, ef, ecmin, ecmax) = dev.with(|d| {
                            let st = &d.h.streams[s as usize];
                            (st.rates, st.formats, st.ch_min, st.ch_max)
                        });
                        match r {
                            Ok((rates, formats, ch)) if rates.bits() == er && formats.bits() == ef && *ch.start() == ecmin && *ch.end() == ecmax => {}
                            other => return Err(format!("{}: returned {:?}, device reported rates {:#x} formats {:#x} channels {}..={}", what, other.map(|x| (x.0.bits(), x.1.bits(), x.2)), er, ef, ecmin, ecmax)),
                        }
                    }
                }
                SOp::Xfer { stream, len, lag } => {
                    if ns == 0 || !nb.is_empty() {
                        continue;
                    }
                    let s = *stream as u32 % ns;
                    let inj_before = dev.with(|d| d.h.inject.len());
                    let period = params[s as usize];
                    let flen = match period {
                        // one value in eight: a whole number of periods (0..=40, so exactly the queue
                        // size and its neighbours occur), otherwise any length up to 40 periods
                        Some(p) if *len % 8 == 7 => p as usize * ((*len as usize / 8) % 41),
                        Some(p) => (*len as usize) % (p as usize * 40 + 1),
                        None => (*len as usize) % 100,
                    };
                    frame_seed = frame_seed.wrapping_add(41);
                    let frames: Vec<u8> = (0..flen).map(|k| (k as u8).wrapping_mul(7) ^ frame_seed).collect();
                    dev.with(|d| {
                        // up to 11 held before the device completes on arrival; a slow device
                        // (lag >= 128) holds up to 40 and completes only every 1..4 turns, so the
                        // queue really fills up
                        d.h.lag = if *lag >= 128 { 12 + *lag as usize % 29 } else { *lag as usize % 12 };
                        d.h.patience = if *lag >= 128 { 1 + (*lag as u32 / 16) % 4 } else { 0 };
                        d.h.patience_left = d.h.patience;
                        d.h.hold_all = false;
                        d.h.max_outstanding = 0;
                    });
                    let tx0 = dev.with(|d| d.h.tx_log.len());
                    let r = g!(what, snd.pcm_xfer(s, &frames));
                    dev.with(|d| {
                        d.h.patience = 0;
                        d.h.patience_left = 0;
                    });
                    chk(&dev)?;
                    let _ = inj_before;
                    let (_, setup_failed) = scan_setup(ctl0, &dev, &mut set_up_done).map_err(|m| format!("{}: {}", what, m))?;
                    if setup_failed {
                        if r.is_ok() {
                            return Err(format!("{}: the stream query was refused but the call returned Ok", what));
                        }
                        continue;
                    }
                    let msgs: Vec<(u32, Vec<u8>)> = dev.with(|d| d.h.tx_log[tx0..].to_vec());
                    match period {
                        None => {
                            if clean && (r.is_ok() || !msgs.is_empty()) {
                                return Err(format!("{}: transfer before PCM_SET_PARAMS must be refused locally; got {:?} and {} messages", what, r, msgs.len()));
                            }
                        }
                        Some(p) => {
                            if r.is_err() {
                                return Err(format!("{}: failed with {:?} although every transfer status was OK", what, r));
                            }
                            let cat: Vec<u8> = msgs.iter().flat_map(|m| m.1.iter().copied()).collect();
                            if cat != frames {
                                return Err(format!("{}: device received {} bytes in {} messages, caller supplied {} bytes (contents equal: {})", what, cat.len(), msgs.len(), frames.len(), cat == frames));
                            }
                            if msgs.iter().any(|m| m.0 != s || m.1.len() > p as usize || m.1.is_empty()) {
                                return Err(format!("{}: message sizes {:?} / stream tags {:?} with period {}", what, msgs.iter().map(|m| m.1.len()).collect::<Vec<_>>(), msgs.iter().map(|m| m.0).collect::<Vec<_>>(), p));
                            }
                            let cap = if indirect { 32 } else { 10 };
                            let mo = dev.with(|d| d.h.max_outstanding);
                            if mo > cap {
                                return Err(format!("{}: {} transfers outstanding at once, queue capacity allows {}", what, mo, cap));
                            }
                            if dev.with(|d| d.h.tx_held.len()) != 0 {
                                return Err(format!("{}: returned while the device still holds transfers", what));
                            }
                        }
                    }
                    sig.add(3).add((flen.min(5)) as u64);
                }
                SOp::XferNb { stream } => {
                    if ns == 0 {
                        continue;
                    }
                    let s = *stream as u32 % ns;
                    let Some(p) = params[s as usize] else { continue };
                    frame_seed = frame_seed.wrapping_add(43);
                    let frames: Vec<u8> = (0..p as usize).map(|k| (k as u8).wrapping_mul(5) ^ frame_seed).collect();
                    dev.with(|d| d.h.hold_all = true);
                    let per = if indirect { 1 } else { 2 };
                    let full = (nb.len() + 1) * per > 32;
                    let tx0 = dev.with(|d| d.h.tx_log.len());
                    let r = g!(what, snd.pcm_xfer_nb(s, &frames));
                    match r {
                        Ok(tok) => {
                            if full {
                                return Err(format!("{}: accepted with {} transfers outstanding", what, nb.len()));
                            }
                            for _ in 0..6 {
                                dev.turn_spin();
                            }
                            chk(&dev)?;
                            let msgs: Vec<(u32, Vec<u8>)> = dev.with(|d| d.h.tx_log[tx0..].to_vec());
                            if msgs.len() != 1 || msgs[0].0 != s || msgs[0].1 != frames {
                                return Err(format!("{}: device saw {} messages (stream {:?}); expected one message with the caller's {} bytes", what, msgs.len(), msgs.first().map(|m| m.0), frames.len()));
                            }
                            nb.push((tok, s, frames));
                            max_nb = max_nb.max(nb.len());
                        }
                        Err(Error::QueueFull) if full => {}
                        Err(e) => return Err(format!("{}: failed with {:?}", what, e)),
                    }
                    sig.add(4).add(nb.len() as u64);
                }
                SOp::XferOk { pick } => {
                    if nb.is_empty() {
                        continue;
                    }
                    let n = dev.with(|d| d.h.tx_held.len());
                    if n == 0 {
                        continue;
                    }
                    let k = (*pick as usize * n) >> 16;
                    let done = dev.with(|d| world::with(|w| {
                        let d = &mut *d;
                        d.h.complete_nth(w, &mut d.qs, k)
                    }));
                    let Some((s, payload, head)) = done else { continue };
                    let Some(pos) = nb.iter().position(|x| x.0 == head) else { return Err(format!("{}: device completed chain {} which is not an outstanding token", what, head)) };
                    let (tok, ns_, fr) = nb.remove(pos);
                    if ns_ != s || fr != payload {
                        return Err(format!("{}: token {} does not belong to the completed transfer", what, tok));
                    }
                    // the caller may first acknowledge a transfer that is not the next completion:
                    // that fails and changes nothing
                    if *pick & 1 == 1 {
                        if let Some(other) = nb.get((*pick as usize >> 1) % nb.len().max(1)).map(|x| x.0) {
                            let r2 = g!(what, snd.pcm_xfer_ok(other));
                            if r2.is_ok() {
                                return Err(format!("{}: pcm_xfer_ok({}) succeeded although the next completion belongs to token {}", what, other, tok));
                            }
                            chk(&dev)?;
                        }
                    }
                    let r = g!(what, snd.pcm_xfer_ok(tok));
                    if r.is_err() {
                        return Err(format!("{}: pcm_xfer_ok({}) returned {:?}", what, tok, r));
                    }
                    if nb.is_empty() {
                        dev.with(|d| d.h.hold_all = false);
                    }
                    sig.add(5).add(k as u64);
                }
            }
            chk(&dev)?;
        }
        // complete what is still outstanding so that the driver's buffers may be released
        while !nb.is_empty() {
            let done = dev.with(|d| world::with(|w| {
                let d = &mut *d;
                d.h.complete_nth(w, &mut d.qs, 0)
            }));
            let Some((_, _, head)) = done else { break };
            let pos = nb.iter().position(|x| x.0 == head).ok_or("drain: unknown token")?;
            let (tok, _, _) = nb.remove(pos);
            let _ = g!("drain", snd.pcm_xfer_ok(tok));
        }
        g!("drop", drop(snd));
        chk(&dev)?;
        if max_nb >= 3 {
            st.class("sound_three_transfers_outstanding");
        }
        if error_mid {
            st.class("sound_error_response_mid_sequence");
        }
        if max_nb >= 3 || error_mid {
            st.nontrivial(sig.get(), || json!({"kind": c.kind, "sound_ops": ops.iter().take(25).collect::<Vec<_>>()}));
        }
        Ok(())
    }
}

// ---------------------------------------------------------------------------------------------
// entropy / clock / 9p

struct RngRun<'a> {
    c: &'a CCase,
    dev: Shared<RngDev>,
    st: &'a mut Stats,
}
impl WithT for RngRun<'_> {
    type Out = Result<(), String>;
    fn call<T: Transport + 'static>(self, t: T) -> Self::Out {
        let Body::Rng { ops } = &self.c.body else { unreachable!() };
        let dev = self.dev;
        let mut rng = match g!("VirtIORng::new", VirtIORng::<LHal, T>::new(t)) {
            Ok(x) => x,
            Err(e) => return Err(format!("VirtIORng::new failed: {:?}", e)),
        };
        let mut sig = Sig::new();
        sig.add(self.c.kind as u64);
        for (i, ROp::Entropy { len, fill }) in ops.iter().enumerate() {
            let what = format!("op #{} Entropy({}, {})", i, len, fill);
            let n = (*len as usize % 5000) + 1;
            let mut buf = vec![0xEEu8; n];
            dev.with(|d| d.h.fill.push_back(*fill));
            world::with(|w| w.spins = 0);
            let r = g!(what, rng.request_entropy(&mut buf));
            dev_errors(&dev, |h| h.errors.first().cloned())?;
            let (cap, wrote) = dev.with(|d| d.h.served.last().copied()).ok_or("device saw no request")?;
            let count = dev.with(|d| d.h.count);
            if cap != n {
                return Err(format!("{}: device saw a {}-byte buffer", what, cap));
            }
            match r {
                Ok(k) if k == wrote && (0..k).all(|j| buf[j] == rng_byte(count, j)) && buf[k..].iter().all(|&b| b == 0xEE) => {}
                other => return Err(format!("{}: returned {:?}, the device wrote {} bytes", what, other, wrote)),
            }
            sig.add(n as u64 & 7).add((wrote == n) as u64);
        }
        g!("drop", drop(rng));
        if ops.len() >= 2 {
            self.st.nontrivial(sig.get(), || json!({"kind": self.c.kind, "rng_ops": ops.iter().take(20).collect::<Vec<_>>()}));
        }
        Ok(())
    }
}

struct RtcRun<'a> {
    c: &'a CCase,
    dev: Shared<RtcDev>,
    st: &'a mut Stats,
}
impl WithT for RtcRun<'_> {
    type Out = Result<(), String>;
    fn call<T: Transport + 'static>(self, t: T) -> Self::Out {
        let Body::Rtc { clocks, ops } = &self.c.body else { unreachable!() };
        let dev = self.dev;
        let mut rtc = match g!("VirtIORtc::new", VirtIORtc::<LHal, T>::new(t)) {
            Ok(x) => x,
            Err(e) => return Err(format!("VirtIORtc::new failed: {:?}", e)),
        };
        let mut sig = Sig::new();
        sig.add(self.c.kind as u64);
        let mut had_err = false;
        let status_of = |s: u8| -> u8 { [0, 0, 0, 2, 3, 4, 5, 9][s as usize % 8] };
        let expect_err = |st: u8, r: &Result<(), Error>| -> bool {
            match st {
                0 => r.is_ok(),
                2 => *r == Err(Error::Unsupported),
                3 | 4 => *r == Err(Error::InvalidParam),
                5 => *r == Err(Error::IoError),
                _ => r.is_err(),
            }
        };
        for (i, op) in ops.iter().enumerate() {
            let what = format!("op #{} {:?}", i, op);
            world::with(|w| w.spins = 0);
            let seen0 = dev.with(|d| d.h.seen.len());
            let (st_sel, want_req) = match op {
                TOp::NumClocks(s) => (*s, RtcReq::Cfg),
                TOp::Cap(cl, s) => (*s, RtcReq::Cap(*cl)),
                TOp::Read(cl, s) => (*s, RtcReq::Read(*cl)),
            };
            let mut st = status_of(st_sel);
            dev.with(|d| d.h.status.push_back(st));
            let nclk = clocks.len() as u16;
            match op {
                TOp::NumClocks(_) => {
                    let r = g!(what, rtc.num_clocks());
                    if !expect_err(st, &r.map(|_| ())) || (st == 0 && r != Ok(nclk)) {
                        return Err(format!("{}: returned {:?}; device status {}, num_clocks {}", what, r, st, nclk));
                    }
                }
                TOp::Cap(cl, _) => {
                    if st == 0 && *cl >= nclk {
                        st = 3;
                    }
                    let r = g!(what, rtc.clock_cap(*cl));
                    if st != 0 {
                        if !expect_err(st, &r.map(|_| ())) {
                            return Err(format!("{}: returned {:?}; device status {}", what, r, st));
                        }
                    } else {
                        let (t, s, f) = clocks[*cl as usize];
                        let kind = match t {
                            0 => Some(ClockType::Utc),
                            1 => Some(ClockType::Tai),
                            2 => Some(ClockType::Monotonic),
                            3 => Some(ClockType::UtcSmeared),
                            4 => Some(ClockType::UtcMaybeSmeared),
                            _ => None,
                        };
                        let smear = if t == 3 {
                            match s {
                                0 => Some(None),
                                1 => Some(Some(SmearingVariant::NoonLinear)),
                                2 => Some(Some(SmearingVariant::UtcSls)),
                                _ => None,
                            }
                        } else {
                            Some(None)
                        };
                        match (kind, smear, r) {
                            (Some(k), Some(sm), Ok(c)) if c.kind == k && c.leap_second_smearing == sm && c.alarm_capability == (f & 1 != 0) => {}
                            (None, _, Err(_)) | (_, None, Err(_)) => {}
                            (k, sm, r) => return Err(format!("{}: returned {:?}; device reported type {} ({:?}) smearing {} ({:?}) flags {:#x}", what, r, t, k, s, sm, f)),
                        }
                    }
                }
                TOp::Read(cl, _) => {
                    if st == 0 && *cl >= nclk {
                        st = 3;
                    }
                    let r = g!(what, rtc.read(*cl));
                    let reads = dev.with(|d| d.h.reads);
                    if !expect_err(st, &r.map(|_| ())) || (st == 0 && r != Ok(rtc_reading(*cl, reads))) {
                        return Err(format!("{}: returned {:x?}; device status {}, reading {:#x}", what, r, st, rtc_reading(*cl, reads)));
                    }
                }
            }
            if st != 0 {
                had_err = true;
            }
            dev_errors(&dev, |h| h.errors.first().cloned())?;
            let seen: Vec<RtcReq> = dev.with(|d| d.h.seen[seen0..].to_vec());
            if seen != vec![want_req.clone()] {
                return Err(format!("{}: device saw {:?}, expected [{:?}]", what, seen, want_req));
            }
            sig.add(st as u64).add(match op {
                TOp::NumClocks(_) => 1,
                TOp::Cap(..) => 2,
                TOp::Read(..) => 3,
            });
        }
        g!("drop", drop(rtc));
        if had_err && ops.len() >= 2 {
            self.st.nontrivial(sig.get(), || json!({"kind": self.c.kind, "rtc_ops": ops.iter().take(20).collect::<Vec<_>>()}));
        }
        Ok(())
    }
}

struct P9Run<'a> {
    c: &'a CCase,
    dev: Shared<P9Dev>,
    st: &'a mut Stats,
}
impl WithT for P9Run<'_> {
    type Out = Result<(), String>;
    fn call<T: Transport + 'static>(self, t: T) -> Self::Out {
        let Body::P9 { tag, ops } = &self.c.body else { unreachable!() };
        let dev = self.dev;
        let mut p9 = match g!("VirtIO9p::new", VirtIO9p::<LHal, T>::new(t)) {
            Ok(x) => x,
            Err(e) => return Err(format!("VirtIO9p::new failed: {:?}", e)),
        };
        if p9.mount_tag() != tag {
            return Err(format!("mount_tag() = {:?}, device configuration holds {:?}", p9.mount_tag(), tag));
        }
        let mut sig = Sig::new();
        sig.add(self.c.kind as u64);
        let mut had_err = false;
        for (i, POp::Request { req_len, resp_len, reply_len, bad_size }) in ops.iter().enumerate() {
            let what = format!("op #{} 9p request({}, {}, {}, {:?})", i, req_len, resp_len, reply_len, bad_size);
            let rl = *req_len as usize % 300;
            let pl = *resp_len as usize % 300;
            let req: Vec<u8> = (0..rl).map(|k| (k as u8) ^ 0x33).collect();
            let mut resp = vec![0xEEu8; pl];
            world::with(|w| w.spins = 0);
            let seen0 = dev.with(|d| d.h.seen.len());
            if rl > 0 && pl >= 7 {
                dev.with(|d| d.h.plan.push_back((*reply_len, *bad_size)));
            }
            let r = g!(what, p9.request(&req, &mut resp));
            dev_errors(&dev, |h| h.errors.first().cloned())?;
            let seen: Vec<Vec<u8>> = dev.with(|d| d.h.seen[seen0..].to_vec());
            if rl == 0 || pl < 7 {
                if r != Err(Error::InvalidParam) || !seen.is_empty() {
                    return Err(format!("{}: must be refused locally, got {:?} and {} requests sent", what, r, seen.len()));
                }
                continue;
            }
            if seen != vec![req.clone()] {
                return Err(format!("{}: device saw {} requests; payload equal: {}", what, seen.len(), seen.first().map(|s| *s == req).unwrap_or(false)));
            }
            let reply = dev.with(|d| d.h.replies.last().cloned()).unwrap();
            let size_field = u32::from_le_bytes(reply[..4].try_into().unwrap());
            if size_field as usize == reply.len() {
                if r != Ok(reply.len() as u32) || resp[..reply.len()] != reply[..] {
                    return Err(format!("{}: returned {:?}; the device wrote a {}-byte reply", what, r, reply.len()));
                }
            } else {
                had_err = true;
                if r.is_ok() {
                    return Err(format!("{}: reply size field {} differs from the used length {} but the call returned {:?}", what, size_field, reply.len(), r));
                }
            }
            sig.add(rl as u64 & 3).add((size_field as usize == reply.len()) as u64);
        }
        g!("drop", drop(p9));
        if had_err || ops.len() >= 3 {
            self.st.nontrivial(sig.get(), || json!({"kind": self.c.kind, "tag": tag, "p9_ops": ops.iter().take(20).collect::<Vec<_>>()}));
        }
        Ok(())
    }
}

// ---------------------------------------------------------------------------------------------

pub fn check(c: &CCase, st: &mut Stats) -> Result<(), String> {
    match &c.body {
        Body::Gpu { w, h, edid, edid_size, .. } => {
            let mut cfg = vec![0u8; 16];
            cfg[8] = 1;
            drv::setup_world(c.kind, c.offered, cfg, 64);
            let mut d = GpuDev::new(*w as u32, *h as u32);
            d.edid = edid.clone();
            d.edid.resize(1024, 0);
            d.edid_size = *edid_size;
            let dev = Shared::install(SimDev::new(2, c.policy, d));
            with_transport(c.kind, 16, 16, GpuRun { c, dev, st })?
        }
        Body::Sound { streams, jacks, chmaps, .. } => {
            let mut cfg = Vec::new();
            cfg.extend_from_slice(&(*jacks as u32).to_le_bytes());
            cfg.extend_from_slice(&(*streams as u32).to_le_bytes());
            cfg.extend_from_slice(&(*chmaps as u32).to_le_bytes());
            drv::setup_world(c.kind, c.offered, cfg, 64);
            let ss: Vec<SndStream> = (0..*streams)
                .map(|i| SndStream { features: i as u32 & 3, formats: 0x1fe0 ^ (i as u64) << 3, rates: 0xc6 | (i as u64) << 9, direction: i & 1, ch_min: 1, ch_max: 2 + i, params_set: false, period: 0 })
                .collect();
            let js = (0..*jacks).map(|i| (i as u32 + 7, (i as u32 + 1) & 1, 0x1234 + i as u32, 0x55u32, i & 1)).collect();
            let cs = (0..*chmaps).map(|i| (i as u32 + 3, i & 1, 2u8, [3u8; 18])).collect();
            let dev = Shared::install(SimDev::new(4, c.policy, SoundDev::new(ss, js, cs)));
            let r = with_transport(c.kind, 25, 12, SndRun { c, dev: dev.clone(), st: &mut *st })?;
            match r {
                // a panic after the device has refused a request is a clean panic, which this
                // property does not constrain (C07 does)
                Err(m) if m.contains("panic at") && dev.with(|d| d.h.ctl_answers.iter().any(|a| *a != 0x8000)) => {
                    st.class("sound_panic_after_device_error_not_judged");
                    Ok(())
                }
                other => other,
            }
        }
        Body::Rng { .. } => {
            drv::setup_world(c.kind, c.offered, vec![], 64);
            let dev = Shared::install(SimDev::new(1, c.policy, RngDev { fill: Default::default(), served: vec![], errors: vec![], count: 0 }));
            with_transport(c.kind, 4, 0, RngRun { c, dev, st })?
        }
        Body::Rtc { clocks, .. } => {
            drv::setup_world(c.kind, c.offered, vec![], 64);
            let dev = Shared::install(SimDev::new(
                2,
                c.policy,
                RtcDev { num_clocks: clocks.len() as u16, caps: clocks.clone(), seen: vec![], status: Default::default(), errors: vec![], reads: 0 },
            ));
            with_transport(c.kind, 17, 0, RtcRun { c, dev, st })?
        }
        Body::P9 { tag, .. } => {
            let mut cfg = Vec::new();
            cfg.extend_from_slice(&(tag.len() as u16).to_le_bytes());
            cfg.extend_from_slice(tag.as_bytes());
            cfg.resize(cfg.len().max(4).div_ceil(4) * 4, 0);
            let l = cfg.len();
            drv::setup_world(c.kind, c.offered, cfg, 64);
            let dev = Shared::install(SimDev::new(1, c.policy, P9Dev { seen: vec![], plan: Default::default(), errors: vec![], replies: vec![] }));
            with_transport(c.kind, 9, l, P9Run { c, dev, st })?
        }
    }
}

fn gop() -> impl Strategy<Value = GOp> {
    prop_oneof![
        2 => Just(GOp::Resolution),
        3 => Just(GOp::SetupFb),
        4 => (prop_oneof![1u16..64, 1u16..600], prop_oneof![1u16..64, 1u16..400]).prop_map(|(a, b)| GOp::ChangeRes(a, b)),
        4 => Just(GOp::Flush),
        2 => (any::<u32>(), any::<u32>(), any::<u32>(), any::<u32>(), prop::bool::weighted(0.15)).prop_map(|(x, y, hx, hy, bad_len)| GOp::SetupCursor { x, y, hx, hy, bad_len }),
        2 => (any::<u32>(), any::<u32>()).prop_map(|(x, y)| GOp::MoveCursor(x, y)),
        1 => Just(GOp::GetEdid),
        2 => Just(GOp::EdidPreferred),
        2 => Just(GOp::EdidSupported),
        2 => (0u8..8, prop_oneof![Just(0x1200u32), Just(0x1201), Just(0x1203), Just(0x1100), Just(0x1101), Just(0x1104), Just(0u32), any::<u32>()]).prop_map(|(n, t)| GOp::Inject(n, t)),
    ]
}

fn sop() -> impl Strategy<Value = SOp> {
    prop_oneof![
        5 => (any::<u8>(), any::<u8>(), any::<u16>(), 1u8..9, any::<u8>(), any::<u8>()).prop_map(|(stream, periods, period, channels, format, rate)| SOp::SetParams { stream, periods, period, channels, format, rate }),
        1 => any::<u8>().prop_map(SOp::Prepare),
        1 => any::<u8>().prop_map(SOp::Start),
        1 => any::<u8>().prop_map(SOp::Stop),
        1 => any::<u8>().prop_map(SOp::Release),
        5 => (any::<u8>(), any::<u16>(), any::<u8>()).prop_map(|(stream, len, lag)| SOp::Xfer { stream, len, lag }),
        6 => any::<u8>().prop_map(|stream| SOp::XferNb { stream }),
        5 => any::<u16>().prop_map(|pick| SOp::XferOk { pick }),
        2 => (any::<u8>(), any::<u32>(), any::<u32>()).prop_map(|(a, b, c)| SOp::JackRemap(a, b, c)),
        1 => any::<u8>().prop_map(SOp::Query),
        1 => (0u8..6, prop_oneof![Just(0x8001u32), Just(0x8002), Just(0x8003), Just(0u32), any::<u32>()]).prop_map(|(n, s)| SOp::Inject(n, s)),
    ]
}

fn edid_strategy() -> impl Strategy<Value = (Vec<u8>, u32)> {
    (
        prop::collection::vec(any::<u8>(), 128),
        prop::collection::vec(prop_oneof![Just((1u8, 1u8)), (any::<u8>(), any::<u8>())], 8),
        prop_oneof![4 => Just(128u32), 2 => Just(256u32), 1 => Just(1024u32), 1 => 0u32..128, 1 => any::<u32>()],
        prop::bool::weighted(0.2),
    )
        .prop_map(|(mut base, st, size, zero_dtd)| {
            for (i, (a, b)) in st.iter().enumerate() {
                base[38 + 2 * i] = *a;
                base[39 + 2 * i] = *b;
            }
            if zero_dtd {
                base[56] = 0;
                base[58] &= 0x0f;
            }
            (base, size)
        })
}

pub fn strategy() -> impl Strategy<Value = CCase> {
    let body = prop_oneof![
        4 => (1u16..300, 1u16..200, edid_strategy(), prop::collection::vec(gop(), 0..30)).prop_map(|(w, h, (edid, edid_size), ops)| Body::Gpu { w, h, edid, edid_size, ops }),
        4 => (0u8..4, 0u8..3, 0u8..3, prop::collection::vec(sop(), 0..40)).prop_map(|(streams, jacks, chmaps, ops)| Body::Sound { streams, jacks, chmaps, ops }),
        1 => prop::collection::vec((any::<u16>(), prop_oneof![Just(0xffffu16), any::<u16>()]).prop_map(|(len, fill)| ROp::Entropy { len, fill }), 0..12).prop_map(|ops| Body::Rng { ops }),
        2 => (
            prop::collection::vec((prop_oneof![0u8..5, any::<u8>()], prop_oneof![0u8..3, any::<u8>()], any::<u8>()), 0..4),
            prop::collection::vec(prop_oneof![any::<u8>().prop_map(TOp::NumClocks), (0u16..5, any::<u8>()).prop_map(|(c, s)| TOp::Cap(c, s)), (prop_oneof![0u16..5, any::<u16>()], any::<u8>()).prop_map(|(c, s)| TOp::Read(c, s))], 0..16)
        )
            .prop_map(|(clocks, ops)| Body::Rtc { clocks, ops }),
        2 => ("[a-z0-9_]{1,20}", prop::collection::vec((any::<u16>(), any::<u16>(), any::<u16>(), prop::option::weighted(0.2, any::<u32>())).prop_map(|(req_len, resp_len, reply_len, bad_size)| POp::Request { req_len, resp_len, reply_len, bad_size }), 0..12))
            .prop_map(|(tag, ops)| Body::P9 { tag, ops }),
    ];
    (drv::tk_strategy(), drv::feature_strategy(&[2]), drv::serve_strategy(), body).prop_map(|(kind, offered, policy, body)| CCase { kind, offered, policy, body })
}

pub fn replay(e: &str, case: &serde_json::Value) -> Result<(), String> {
    if e == "mount-tag" {
        return crate::props::c13::replay(e, case);
    }
    check(&serde_json::from_value(case.clone()).map_err(|e| e.to_string())?, &mut Stats::default())
}

pub fn run(ctx: &Ctx) -> Report {
    // the 9P mount tag equals a tag the device exposed, whenever the device changes it while the
    // driver is reading length and bytes (update schedules shared with C13)
    let (mut stats, mut failure) = crate::runner::run_items(ctx, "mount-tag", crate::props::c13::torn_items(crate::props::c13::Drv::P9, ctx.quick()), |it, st| {
        let r = crate::props::c13::run_item(it, st);
        if r.is_ok() {
            st.class("mount_tag_read_under_config_updates");
        }
        r
    });
    if failure.is_none() {
        let (st, f) = run_proptest(ctx, "cmd", 201, ctx.n(120_000, 9_000_000), strategy, |c: &CCase, st| check(c, st));
        stats.merge(st);
        failure = f;
    }
    Report {
        stats,
        failure,
        info: PartInfo {
            level: "exploration",
            rule: "proptest histories of the public operations of VirtIOGpu (resolution, setup_framebuffer, change_resolution, flush, setup_cursor, move_cursor, EDID queries), VirtIOSound (set_params, prepare/start/stop/release, blocking pcm_xfer with generated device lag, pcm_xfer_nb/pcm_xfer_ok with device-chosen completion order, queries, jack_remap), VirtIORng, VirtIORtc and VirtIO9p with arbitrary parameters, injected error/unknown/wrong-success responses at generated positions, arbitrary EDID blobs and sizes, on all transports and device policies. The 9P mount tag is also read while the device changes its configuration before every single access and every pair of accesses of the constructor. Reference devices decode every chain against independently written specification structures (command code, every parameter at its offset, zero padding), enforce ordering (create->attach->set_scanout, transfer->flush, set_params before transfer), compare returned values with what the device reported (EDID via an independent decoder, compared as multiset plus non-increasing order), check PCM payload concatenation/chunk size/stream tag/outstanding bound, and the ledger reports a DMA region released while still attached as backing. Non-trivial = history with a resolution change after a framebuffer exists, >=3 PCM transfers outstanding, or an error response mid-sequence (GPU/sound); >=2 requests incl. an error (rtc/9p/rng). distinct = (transport, features, op kinds/outcomes).",
            assumptions: vec![
                "sequence and lifetime oracles apply while no device error has occurred in the history (as the property states); after one, only 'non-success response => Err' is checked".into(),
                "stream ids passed to pcm_set_params/pcm_xfer are valid (out-of-range ids index a Vec and panic, which C20 does not constrain); prepare/start/stop/release also get invalid ids".into(),
                "resolutions are kept below 600x400 (the crate computes width*height*4 in u32)".into(),
            ],
            exhaustive: false,
            extra: json!({}),
        },
    }
}
