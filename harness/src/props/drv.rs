//! Helpers shared by the driver-level checks.

use crate::devq::Serve;
use crate::tkind::TK;
use crate::world::{self, with};
use proptest::prelude::*;

pub const F_VERSION_1: u64 = 1 << 32;
pub const F_INDIRECT: u64 = 1 << 28;
pub const F_EVENT_IDX: u64 = 1 << 29;
pub const F_ACCESS_PLATFORM: u64 = 1 << 33;

thread_local! {
    /// C08 only: a legacy-interface device that nevertheless offers bits in the upper feature word
    /// (the legacy register layouts have the selector registers, so such a device can exist).
    pub static LEGACY_RAW_OFFER: std::cell::Cell<bool> = const { std::cell::Cell::new(false) };
    /// C08 only: the device does not keep FEATURES_OK set (it refuses the feature subset).
    pub static REFUSE_FEATURES_OK: std::cell::Cell<bool> = const { std::cell::Cell::new(false) };
}

/// Fresh world prepared for a driver on transport `kind`.
pub fn setup_world(kind: TK, offered: u64, config: Vec<u8>, max_queue: u32) {
    world::reset();
    with(|w| {
        // a legacy device does not offer VERSION_1
        w.dev.offered = if kind.legacy() && !LEGACY_RAW_OFFER.with(|c| c.get()) { offered & !F_VERSION_1 & 0xffff_ffff } else { offered };
        w.dev.config = config;
        w.dev.default_max = max_queue;
        w.dev.gen = 3;
        w.dev.log_events = true;
        w.dev.no_latch_features_ok = REFUSE_FEATURES_OK.with(|c| c.get());
        if matches!(kind, TK::MmioLegacy) {
            // the legacy page frame number is 32 bits wide
            w.hal.next_dma = 0x0000_0000_8000_0000;
        }
        w.spin_limit = 200_000;
        // driver-level checks: a posted device-writable buffer reads as garbage until it is popped
        w.hal.poison_posted = true;
    });
}

pub fn tk_strategy() -> impl Strategy<Value = TK> {
    prop_oneof![4 => Just(TK::Model), 1 => Just(TK::ModelLegacy), 1 => Just(TK::MmioLegacy), 2 => Just(TK::MmioModern), 2 => Just(TK::Pci)]
}

pub fn serve_strategy() -> impl Strategy<Value = Serve> {
    prop_oneof![4 => Just(Serve::OnNotify), 2 => Just(Serve::Poll), 2 => (0u8..4).prop_map(Serve::Late)]
}

/// Common feature bits in every combination, plus device-specific optional bits.
pub fn feature_strategy(optional: &'static [u64]) -> impl Strategy<Value = u64> {
    (any::<u16>(), any::<u64>(), prop::bool::weighted(0.15)).prop_map(move |(sel, noise, add_noise)| {
        let mut f = 0u64;
        let common = [F_INDIRECT, F_EVENT_IDX, F_VERSION_1, F_ACCESS_PLATFORM];
        for (i, b) in common.iter().chain(optional.iter()).enumerate() {
            if sel >> i & 1 != 0 {
                f |= b;
            }
        }
        // mostly modern devices
        if sel >> 15 & 1 != 0 {
            f |= F_VERSION_1;
        }
        if add_noise {
            // unsupported bits a device may also offer; never ring-format-changing ones combined
            // with a driver that would have to understand them (the driver must simply not accept)
            f |= noise & !(0xffu64 << 24) & !(0x3fu64 << 32) | (noise & (1 << 35 | 1 << 36 | 1 << 37));
        }
        f
    })
}

/// Map substrate fault tags to a readable class.
pub fn fault_text() -> Option<(String, String)> {
    world::first_fault().map(|f| (f.prop.to_string(), f.msg))
}


/// A buffer that is still shared with the live device must not lie in a stack frame that has
/// already returned: `marker` is the address of a local variable of the (still live) caller, the
/// callee frames were below it. Returns a description of the first such buffer.
pub fn posted_in_dead_stack(marker: usize) -> Option<String> {
    let lo = marker.saturating_sub(64 << 20);
    with(|w| {
        let live = w.dev.driver_ok() && w.dev.q.values().any(|q| q.ready);
        if !live {
            return None;
        }
        w.hal.live_by_vaddr.range(lo..marker).next().map(|(&va, &i)| {
            format!(
                "a buffer in a stack frame that has returned is still posted to the live device: {:#x}+{} (device address {:#x}); the device may write into it later",
                va, w.hal.regions[i].len, w.hal.regions[i].paddr
            )
        })
    })
}
