//! Per-property checks.

#[cfg(not(feature = "fuzz-min"))]
pub mod c01_04;
#[cfg(not(feature = "fuzz-min"))]
pub mod c05;
#[cfg(not(feature = "fuzz-min"))]
pub mod c06;
pub mod c07;
#[cfg(not(feature = "fuzz-min"))]
pub mod c08;
#[cfg(not(feature = "fuzz-min"))]
pub mod c09;
#[cfg(not(feature = "fuzz-min"))]
pub mod c10;
#[cfg(not(feature = "fuzz-min"))]
pub mod c11;
#[cfg(not(feature = "fuzz-min"))]
pub mod c12;
#[cfg(not(feature = "fuzz-min"))]
pub mod c13;
#[cfg(not(feature = "fuzz-min"))]
pub mod c14;
#[cfg(not(feature = "fuzz-min"))]
pub mod c15;
#[cfg(not(feature = "fuzz-min"))]
pub mod c16;
#[cfg(not(feature = "fuzz-min"))]
pub mod c17;
#[cfg(not(feature = "fuzz-min"))]
pub mod c18;
#[cfg(not(feature = "fuzz-min"))]
pub mod c19;
#[cfg(not(feature = "fuzz-min"))]
pub mod c20;
pub mod drv;
#[cfg(not(feature = "fuzz-min"))]
pub mod qh;

#[cfg(not(feature = "fuzz-min"))]
use crate::runner::{Ctx, Report};
#[cfg(not(feature = "fuzz-min"))]
use serde_json::Value;

#[cfg(not(feature = "fuzz-min"))]
pub fn run(ctx: &Ctx) -> Option<Report> {
    Some(match ctx.id.as_str() {
        "C01" | "C02" | "C03" | "C04" => c01_04::run(ctx),
        "C05" => c05::run(ctx),
        "C06" => c06::run(ctx),
        "C07" => c07::run(ctx),
        "C08" => c08::run(ctx),
        "C09" => c09::run(ctx),
        "C10" => c10::run(ctx),
        "C11" => c11::run(ctx),
        "C12" => c12::run(ctx),
        "C13" => c13::run(ctx),
        "C14" => c14::run(ctx),
        "C15" => c15::run(ctx),
        "C16" => c16::run(ctx),
        "C17" => c17::run(ctx),
        "C18" => c18::run(ctx),
        "C19" => c19::run(ctx),
        "C20" => c20::run(ctx),
        _ => return None,
    })
}

#[cfg(not(feature = "fuzz-min"))]
pub fn replay(id: &str, engine: &str, case: &Value) -> Result<(), String> {
    match id {
        "C01" | "C02" | "C03" | "C04" => c01_04::replay(id, engine, case),
        "C05" => c05::replay(engine, case),
        "C06" => c06::replay(case),
        "C07" => c07::replay(engine, case),
        "C08" => c08::replay(engine, case),
        "C09" => c09::replay(engine, case),
        "C10" => c10::replay(engine, case),
        "C11" => c11::replay(engine, case),
        "C12" => c12::replay(engine, case),
        "C13" => c13::replay(engine, case),
        "C14" => c14::replay(engine, case),
        "C15" => c15::replay(engine, case),
        "C16" => c16::replay(engine, case),
        "C17" => c17::replay(engine, case),
        "C18" => c18::replay(engine, case),
        "C19" => c19::replay(engine, case),
        "C20" => c20::replay(engine, case),
        _ => Err(format!("unknown property {}", id)),
    }
}
