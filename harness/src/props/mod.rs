//! Per-property checks.

pub mod c01_04;
pub mod c05;
pub mod c06;
pub mod c08;
pub mod c09;
pub mod c10;
pub mod c11;
pub mod c12;
pub mod c13;
pub mod c14;
pub mod c15;
pub mod c16;
pub mod c17;
pub mod c18;
pub mod c19;
pub mod c20;
pub mod drv;
pub mod qh;

use crate::runner::{Ctx, Report};
use serde_json::Value;

pub fn run(ctx: &Ctx) -> Option<Report> {
    Some(match ctx.id.as_str() {
        "C01" | "C02" | "C03" | "C04" => c01_04::run(ctx),
        "C05" => c05::run(ctx),
        "C06" => c06::run(ctx),
        "C08" => c08::run(ctx),
        "C09" => c09::run(ctx),
        "C10" => c10::run(ctx),
        "C11" => c11::run(ctx),
        "C12" => c12::run(ctx),
        "C13" => c13::run(ctx),
        "C14" => c14::run(ctx),
        "C15" => c15::run(ctx),
        "C16" => c16::run(ctx),
        "C17" => c17::run(ctx),
        "C18" => c18::run(ctx),
        "C19" => c19::run(ctx),
        "C20" => c20::run(ctx),
        _ => return None,
    })
}

pub fn replay(id: &str, engine: &str, case: &Value) -> Result<(), String> {
    match id {
        "C01" | "C02" | "C03" | "C04" => c01_04::replay(id, case),
        "C05" => c05::replay(engine, case),
        "C06" => c06::replay(case),
        "C08" => c08::replay(engine, case),
        "C09" => c09::replay(engine, case),
        "C10" => c10::replay(engine, case),
        "C11" => c11::replay(engine, case),
        "C12" => c12::replay(engine, case),
        "C13" => c13::replay(engine, case),
        "C14" => c14::replay(engine, case),
        "C15" => c15::replay(engine, case),
        "C16" => c16::replay(engine, case),
        "C17" => c17::replay(engine, case),
        "C18" => c18::replay(engine, case),
        "C19" => c19::replay(engine, case),
        "C20" => c20::replay(engine, case),
        _ => Err(format!("unknown property {}", id)),
    }
}
