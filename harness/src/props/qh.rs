//! Queue-history engine: drives a raw `VirtQueue<LHal, N>` on the model transport against the
//! reference split-virtqueue device. Serves C01, C02, C03, C04 (and the flag/used_event part of C05).

use crate::dev::MTransport;
use crate::dynq::{new_queue, DynQueue};
use crate::hal::{Dir, HalEv, Kind};
use crate::ring::{Chain, RefQueue};
use crate::runner::{guard, Caught, Sig, Stats};
use crate::world::{self, with, DeviceModel, Escape, HookAction, World};
use proptest::prelude::*;
use serde::{Deserialize, Serialize};
use serde_json::json;
use std::cell::RefCell;
use std::collections::{BTreeMap, VecDeque};
use std::rc::Rc;
use virtio_drivers::verif_hooks::Point;
use virtio_drivers::Error;

#[derive(Clone, Debug, Serialize, Deserialize, PartialEq, Eq)]
pub struct QCfg {
    pub log2: u8,
    pub indirect: bool,
    pub event_idx: bool,
    pub ap: bool,
    pub legacy: bool,
    /// k > 0: the platform maps the k-th shared buffer at device address 0
    #[serde(default)]
    pub zero_share: u8,
}

#[derive(Clone, Debug, Serialize, Deserialize, PartialEq, Eq)]
pub enum PopWhich {
    Front,
    Other(u16),
    Stale(u16),
}

#[derive(Clone, Debug, Serialize, Deserialize, PartialEq, Eq)]
pub enum Op {
    Add { ins: Vec<u32>, outs: Vec<u32> },
    /// Submit a chain of (free capacity + extra) one-byte buffers, `wr` of them device-writable.
    AddFill { extra: i8, wr: u16 },
    /// Submit a chain whose buffer count sits on a boundary: see `boundary_count`.
    AddBoundary(u8),
    /// `add_notify_wait_pop` while the completion that reaches the front of the used ring first
    /// belongs to *another* outstanding chain (already pending, or completed by the device during
    /// the wait): the helper must report a wrong token and change nothing else. (The ordinary case,
    /// the own chain completing first, is C05's co-simulation.)
    Blocking { ins: Vec<u32>, outs: Vec<u32>, pick: u16 },
    /// Submit `nb` (2..) one-byte buffers while the heap cannot supply the indirect table (the
    /// allocation of exactly 16*nb bytes, 16-aligned, fails once).
    AddNoHeap(u8),
    Fetch,
    Complete { pick: u16, written: u16 },
    CompleteAll { rot: u16 },
    Pop(PopWhich),
    PopAll,
    Peek,
    CanPop,
    AvailDesc,
    ShouldNotify,
    SetDevNotify(bool),
    DevFlags(u16),
    DevAvailEvent(u16),
    /// the device asks to be notified at (current available index + offset)
    DevAvailEventRel(i8),
}

#[derive(Clone, Debug, Serialize, Deserialize, PartialEq, Eq)]
pub struct Long {
    pub rounds: u32,
    pub batch: u8,
    pub bufs: u8,
    pub rot: u8,
    /// `peek_used` is called exactly once, while the first completion is pending, and never again:
    /// the rest of the run only pops (implementations may cache what a peek read)
    #[serde(default)]
    pub peek_once: bool,
}

#[derive(Clone, Debug, Serialize, Deserialize, PartialEq, Eq)]
pub struct QCase {
    pub cfg: QCfg,
    pub ops: Vec<Op>,
    pub long: Option<Long>,
    /// last step: submit one buffer of 2^32 + 512 bytes (1: device-readable, 2: device-writable),
    /// whose length no descriptor can express
    #[serde(default)]
    pub huge: u8,
}

/// A violation tagged with the property whose oracle found it.
#[derive(Debug, Clone)]
pub struct Viol {
    pub prop: &'static str,
    pub msg: String,
}

fn v(prop: &'static str, msg: impl Into<String>) -> Viol {
    Viol { prop, msg: msg.into() }
}

type R<T = ()> = Result<T, Viol>;

struct Sub {
    #[allow(dead_code)]
    token: u16,
    ins: Vec<Box<[u8]>>,
    outs: Vec<Box<[u8]>>,
    ins_copy: Vec<Vec<u8>>,
    sentinel: u8,
    ndesc: usize,
    chain: Chain,
    share_idx: Vec<usize>,
    order: u64,
    written: Option<Vec<u8>>,
}

impl Sub {
    fn in_slices<'a>(&self) -> Vec<&'a [u8]> {
        self.ins.iter().map(|b| unsafe { std::slice::from_raw_parts(b.as_ptr(), b.len()) }).collect()
    }
    fn out_slices<'a>(&mut self) -> Vec<&'a mut [u8]> {
        self.outs
            .iter_mut()
            .map(|b| unsafe { std::slice::from_raw_parts_mut(b.as_mut_ptr(), b.len()) })
            .collect()
    }
}

/// State shared with the store-point hook (C02).
pub struct Shadow {
    pub rq: RefQueue,
    pub n: usize,
    pub observe_full: bool,
    /// Published, not yet completed entries: (avail index, token, chain, fetched).
    pub published: VecDeque<(u16, u16, Chain, bool)>,
    pub last_idx: u16,
    pub prev: Vec<u8>,
    pub points: u64,
    pub points_in_call: u32,
    pub viol: Option<Viol>,
    pub enabled: bool,
    pub idx_moves_in_call: u32,
    /// while a blocking helper runs: (head to complete at the first spin, device's used index, done, spins after done)
    pub spin_plan: Option<(u16, u16, bool, u32)>,
    pub idle_spins: u32,
}

struct QhModel(Rc<RefCell<Shadow>>);

impl Shadow {
    fn snapshot(&self, w: &World) -> Result<Vec<u8>, String> {
        let n = self.n as u64;
        let mut s = w.hal.peek(self.rq.desc, (16 * n) as usize)?;
        let a = w.hal.peek(self.rq.avail, (6 + 2 * n) as usize)?;
        s.extend_from_slice(&a);
        Ok(s)
    }

    fn observe(&mut self, w: &mut World, p: Point) {
        if !self.enabled || self.viol.is_some() {
            return;
        }
        self.points += 1;
        self.points_in_call += 1;
        let h = &w.hal;
        let idx = match self.rq.avail_idx(h) {
            Ok(i) => i,
            Err(m) => {
                self.viol = Some(v("C02", m));
                return;
            }
        };
        let delta = idx.wrapping_sub(self.last_idx);
        if delta > 1 {
            self.viol = Some(v(
                "C02",
                format!("at {:?}: available index went from {} to {} (must move by 0 or +1)", p, self.last_idx, idx),
            ));
            return;
        }
        if self.observe_full {
            let snap = match self.snapshot(w) {
                Ok(s) => s,
                Err(m) => {
                    self.viol = Some(v("C02", m));
                    return;
                }
            };
            if delta == 1 {
                // everything except the index itself must be unchanged in this interval
                let off = 16 * self.n + 2;
                let same = snap.len() == self.prev.len()
                    && snap[..off] == self.prev[..off]
                    && snap[off + 2..] == self.prev[off + 2..];
                if !same {
                    let first = snap.iter().zip(self.prev.iter()).position(|(a, b)| a != b).unwrap_or(0);
                    self.viol = Some(v(
                        "C02",
                        format!(
                            "at {:?}: available index {}->{} changed in the same interval as other queue memory (first differing byte at offset {}; descriptor table is 0..{}, avail ring follows)",
                            p, self.last_idx, idx, first, 16 * self.n
                        ),
                    ));
                    return;
                }
            }
            self.prev = snap;
        }
        if delta == 1 {
            self.idx_moves_in_call += 1;
            // the newly covered entry must be complete right now
            let slot_tok = match self.rq.avail_slot(h, self.last_idx as u32) {
                Ok(t) => t,
                Err(m) => {
                    self.viol = Some(v("C02", m));
                    return;
                }
            };
            match self.rq.read_chain(h, slot_tok) {
                Ok(c) => self.published.push_back((self.last_idx, slot_tok, c, false)),
                Err(m) => {
                    self.viol = Some(v(
                        "C02",
                        format!("at {:?}: available index {} covers an incomplete entry (head {}): {}", p, idx, slot_tok, m),
                    ));
                    return;
                }
            }
            self.last_idx = idx;
        }
        // every published, not completed entry must still be intact
        for (ai, tok, chain, fetched) in self.published.iter() {
            if !*fetched {
                match self.rq.avail_slot(h, *ai as u32) {
                    Ok(t) if t == *tok => {}
                    Ok(t) => {
                        self.viol = Some(v(
                            "C02",
                            format!("at {:?}: ring slot of unfetched entry {} changed from {} to {}", p, ai, tok, t),
                        ));
                        return;
                    }
                    Err(m) => {
                        self.viol = Some(v("C02", m));
                        return;
                    }
                }
            }
            match self.rq.read_chain(h, *tok) {
                Ok(c) if &c == chain => {}
                Ok(c) => {
                    self.viol = Some(v(
                        "C02",
                        format!("at {:?}: outstanding chain {} changed while the device may read it: {:?} -> {:?}", p, tok, chain, c),
                    ));
                    return;
                }
                Err(m) => {
                    self.viol = Some(v(
                        "C02",
                        format!("at {:?}: outstanding chain {} became invalid while the device may read it: {}", p, tok, m),
                    ));
                    return;
                }
            }
        }
    }
}

impl DeviceModel for QhModel {
    fn on_point(&mut self, w: &mut World, p: Point) -> HookAction {
        if !matches!(p, Point::Spin(_)) {
            self.0.borrow_mut().observe(w, p);
            return HookAction::Continue;
        }
        // the driver waits for the device: carry out the planned completion, once
        let mut sh = self.0.borrow_mut();
        match sh.spin_plan {
            Some((head, used_idx, false, _)) => {
                let mut r = sh.rq.clone();
                r.used_idx = used_idx;
                let _ = r.push_used(&w.hal, head as u32, 0);
                sh.spin_plan = Some((head, used_idx, true, 0));
                HookAction::Continue
            }
            Some((head, used_idx, true, k)) => {
                if k > 8 {
                    return HookAction::Unwind(Escape::Starved("add_notify_wait_pop keeps waiting although a completion is in the used ring".into()));
                }
                sh.spin_plan = Some((head, used_idx, true, k + 1));
                HookAction::Continue
            }
            None => {
                sh.idle_spins += 1;
                if sh.idle_spins > 8 {
                    return HookAction::Unwind(Escape::Starved("the driver waits although nothing is planned to complete".into()));
                }
                HookAction::Continue
            }
        }
    }
}

pub struct Flags {
    pub ooo_complete: bool,
    pub wrong_token: bool,
    pub not_ready: bool,
    pub refused: bool,
    pub indirect_chain: bool,
    pub big_chain: bool,
    pub ooo_pop: bool,
    pub c01_nontrivial: u32,
    pub c02_nontrivial: u32,
    pub wrapped: bool,
    pub pipelined_rounds: u32,
    pub peek_once_runs: u32,
    pub max_out: usize,
    pub c05_checks: u32,
    pub c05_event_windows: u32,
    pub followed_capacity_deviation: bool,
    pub heap_failures: u32,
    pub huge_buffer: bool,
    pub blocking_with_other_first: u32,
}

pub struct Eng {
    q: Option<Box<dyn DynQueue>>,
    t: Option<MTransport>,
    rq: RefQueue,
    n: usize,
    cfg: QCfg,
    subs: BTreeMap<u16, Sub>,
    avail_fifo: VecDeque<u16>,
    dev_out: Vec<u16>,
    used_fifo: VecDeque<(u16, u32)>,
    held: usize,
    /// long runs with `peek_once`: no further `peek_used` calls
    no_peek: bool,
    ring_model: Vec<u16>,
    avail_idx: u16,
    last_sn_idx: u16,
    follow_capacity: bool,
    no_heap: bool,
    desc_owner: Vec<Option<u16>>,
    adds: u64,
    pops: u64,
    dev_flags: u16,
    shadow: Rc<RefCell<Shadow>>,
    pub flags: Flags,
    pub c01_sigs: Vec<u64>,
    pub c02_sigs: Vec<u64>,
    pub trace_sig: Sig,
    pub small_check: bool,
    /// the device overwrites descriptor table and available ring after every fetch (C07)
    pub scribbling: Option<u8>,
    scribbles: u64,
}

fn pat(seed: u64, i: usize) -> u8 {
    let x = seed.wrapping_mul(0x9e3779b97f4a7c15).wrapping_add((i as u64).wrapping_mul(0x100000001b3));
    ((x >> 29) as u8) | 1
}

impl Eng {
    pub fn new(cfg: &QCfg, observe: bool, follow_capacity: bool) -> R<Eng> {
        world::reset();
        let n = 1usize << cfg.log2;
        with(|w| {
            w.dev.legacy = cfg.legacy;
            w.dev.default_max = 65536;
            w.dev.status = 0xf; // raw queue use: pretend initialised
            w.spin_limit = 10_000;
            w.dev.log_events = false;
            if cfg.legacy {
                w.hal.next_dma = 0x0000_0000_4000_0000;
            }
            if cfg.zero_share > 0 {
                w.hal.zero_share_at = Some(cfg.zero_share as u64);
            }
            // the platform tells mappings with and without ACCESS_PLATFORM apart
            w.hal.dev_ap = Some(cfg.ap);
        });
        let mut t = MTransport::new();
        let q = match guard(|| new_queue(cfg.log2, &mut t, 0, cfg.indirect, cfg.event_idx, cfg.ap)) {
            Caught::Ok(Ok(q)) => q,
            Caught::Ok(Err(e)) => return Err(v("C06", format!("queue creation failed: {:?}", e))),
            Caught::Panic(p) => return Err(v("C06", format!("queue creation: {}", p.render()))),
            Caught::Escape(e) => return Err(v("C06", format!("{:?}", e))),
        };
        let qs = with(|w| w.dev.queue(0).clone());
        if qs.size as usize != n || !qs.ready {
            return Err(v("C06", format!("queue_set not called as expected: {:?}", qs)));
        }
        let rq = RefQueue::new(n as u32, qs.desc, qs.avail, qs.used, cfg.indirect, cfg.event_idx);
        let shadow = Rc::new(RefCell::new(Shadow {
            rq: rq.clone(),
            n,
            observe_full: observe && n <= 256,
            published: VecDeque::new(),
            last_idx: 0,
            prev: Vec::new(),
            points: 0,
            points_in_call: 0,
            viol: None,
            enabled: observe,
            idx_moves_in_call: 0,
            spin_plan: None,
            idle_spins: 0,
        }));
        if observe {
            let snap = with(|w| shadow.borrow().snapshot(w)).map_err(|m| v("C04", m))?;
            shadow.borrow_mut().prev = snap;
        }
        // (store points are only examined when `enabled`; spins are always served)
        world::set_model(Box::new(QhModel(shadow.clone())));
        let ring_model = vec![0u16; n];
        Ok(Eng {
            q: Some(q),
            t: Some(t),
            rq,
            n,
            cfg: cfg.clone(),
            subs: BTreeMap::new(),
            avail_fifo: VecDeque::new(),
            dev_out: Vec::new(),
            used_fifo: VecDeque::new(),
            held: 0,
            no_peek: false,
            ring_model,
            avail_idx: 0,
            desc_owner: vec![None; n],
            adds: 0,
            pops: 0,
            last_sn_idx: 0,
            follow_capacity,
            no_heap: false,
            dev_flags: 0,
            shadow,
            flags: Flags {
                ooo_complete: false,
                wrong_token: false,
                not_ready: false,
                refused: false,
                indirect_chain: false,
                big_chain: false,
                ooo_pop: false,
                c01_nontrivial: 0,
                c02_nontrivial: 0,
                wrapped: false,
                pipelined_rounds: 0,
                peek_once_runs: 0,
                c05_event_windows: 0,
                followed_capacity_deviation: false,
                heap_failures: 0,
                huge_buffer: false,
                blocking_with_other_first: 0,
                max_out: 0,
                c05_checks: 0,
            },
            c01_sigs: Vec::new(),
            c02_sigs: Vec::new(),
            trace_sig: Sig::new(),
            small_check: n <= 4096,
            scribbling: crate::devq::SCRIBBLE_ALL.with(|s| s.get()),
            scribbles: 0,
        })
    }

    fn q(&mut self) -> &mut dyn DynQueue {
        self.q.as_mut().unwrap().as_mut()
    }

    fn substrate_faults(&self) -> R {
        if let Some(f) = world::first_fault() {
            let prop = match f.prop {
                "share" | "unshare" => "C04",
                "dealloc" => "C06",
                _ => "C04",
            };
            return Err(v(prop, f.msg));
        }
        if let Some(vi) = self.shadow.borrow_mut().viol.take() {
            return Err(vi);
        }
        Ok(())
    }

    fn mem_snapshot(&self) -> Vec<u8> {
        with(|w| {
            let n = self.n as u64;
            let mut s = w.hal.peek(self.rq.desc, (16 * n) as usize).unwrap_or_default();
            s.extend(w.hal.peek(self.rq.avail, (6 + 2 * n) as usize).unwrap_or_default());
            s
        })
    }

    fn expected_avail_desc(&self) -> usize {
        if self.cfg.indirect {
            if self.held == self.n {
                0
            } else {
                self.n
            }
        } else {
            self.n.saturating_sub(self.held)
        }
    }

    fn check_answers(&mut self) -> R {
        let ad = self.q().available_desc();
        if ad != self.expected_avail_desc() {
            return Err(v(
                "C03",
                format!(
                    "available_desc() = {} but {} descriptors of {} are held by outstanding chains (expected {})",
                    ad,
                    self.held,
                    self.n,
                    self.expected_avail_desc()
                ),
            ));
        }
        let cp = self.q().can_pop();
        if cp != !self.used_fifo.is_empty() {
            return Err(v("C03", format!("can_pop() = {} but {} completions are pending", cp, self.used_fifo.len())));
        }
        if self.no_peek {
            return Ok(());
        }
        let pk = self.q().peek_used();
        let exp = self.used_fifo.front().map(|x| x.0);
        if pk != exp {
            return Err(v("C03", format!("peek_used() = {:?}, expected {:?}", pk, exp)));
        }
        Ok(())
    }

    /// Submit a chain with the given buffer lengths. Returns whether it was accepted.
    pub fn add(&mut self, in_lens: &[u32], out_lens: &[u32]) -> R<bool> {
        self.add_mode(in_lens, out_lens, None)
    }

    /// `blocking`: None = plain `add`; Some(plan) = through `add_notify_wait_pop`, with `plan` the
    /// outstanding chain the device completes during the wait (None: a completion is pending already).
    pub fn add_mode(&mut self, in_lens: &[u32], out_lens: &[u32], blocking: Option<Option<u16>>) -> R<bool> {
        self.adds += 1;
        let order = self.adds;
        let sentinel = 0x40 | (order as u8 & 0x3f);
        let mut ins: Vec<Box<[u8]>> = Vec::with_capacity(in_lens.len());
        for (bi, &l) in in_lens.iter().enumerate() {
            let l = l.max(1) as usize;
            let mut b = vec![0u8; l].into_boxed_slice();
            for (i, x) in b.iter_mut().enumerate() {
                *x = pat(order.wrapping_mul(131).wrapping_add(bi as u64), i);
            }
            ins.push(b);
        }
        let mut outs: Vec<Box<[u8]>> = Vec::with_capacity(out_lens.len());
        for &l in out_lens {
            outs.push(vec![sentinel; l.max(1) as usize].into_boxed_slice());
        }
        let nb = ins.len() + outs.len();
        // Whether a multi-buffer submission on an indirect-enabled queue uses an indirect table is
        // the implementation's choice (the property only forbids tables on queues without the
        // feature); capacity is sufficient as soon as the cheapest legal form fits.
        let min_need = if self.cfg.indirect && nb > 1 { 1 } else { nb };
        let expect: Result<(), Error> = if nb == 0 {
            Err(Error::InvalidParam)
        } else if self.held + min_need > self.n || nb > self.n {
            Err(Error::QueueFull)
        } else {
            Ok(())
        };
        let pre = if expect.is_err() && self.small_check { Some(self.mem_snapshot()) } else { None };
        let log0 = with(|w| w.hal.log.len());
        {
            let mut sh = self.shadow.borrow_mut();
            sh.points_in_call = 0;
            sh.idx_moves_in_call = 0;
        }
        let in_sl: Vec<&[u8]> = ins.iter().map(|b| unsafe { std::slice::from_raw_parts(b.as_ptr(), b.len()) }).collect();
        let mut out_sl: Vec<&mut [u8]> =
            outs.iter_mut().map(|b| unsafe { std::slice::from_raw_parts_mut(b.as_mut_ptr(), b.len()) }).collect();
        let q = self.q.as_mut().unwrap();
        let res = match blocking {
            None => match guard(|| unsafe { q.add(&in_sl, &mut out_sl) }) {
                Caught::Ok(r) => r,
                Caught::Panic(p) => {
                    if self.no_heap {
                        // heap exhaustion was injected: a panic is a legitimate way to report it
                        return Err(v("HEAP", p.render()));
                    }
                    return Err(v("C03", format!("add({} in, {} out) with {} descriptors held: {}", ins.len(), outs.len(), self.held, p.render())))
                }
                Caught::Escape(e) => return Err(v("C03", format!("{:?}", e))),
            },
            Some(plan) => {
                let front_before = self.used_fifo.front().map(|x| x.0).or(plan);
                {
                    let mut sh = self.shadow.borrow_mut();
                    sh.spin_plan = plan.map(|h| (h, self.rq.used_idx, false, 0));
                    sh.idle_spins = 0;
                }
                with(|w| w.spins = 0);
                let t = self.t.as_mut().unwrap();
                let r = {
                    let in2: Vec<&[u8]> = ins.iter().map(|b| unsafe { std::slice::from_raw_parts(b.as_ptr(), b.len()) }).collect();
                    let mut out2: Vec<&mut [u8]> = outs.iter_mut().map(|b| unsafe { std::slice::from_raw_parts_mut(b.as_mut_ptr(), b.len()) }).collect();
                    guard(|| q.add_notify_wait_pop(&in2, &mut out2, t))
                };
                let completed = {
                    let mut sh = self.shadow.borrow_mut();
                    let done = matches!(sh.spin_plan, Some((_, _, true, _)));
                    sh.spin_plan = None;
                    done
                };
                if completed {
                    // the device completed `plan` (0 bytes written) during the wait
                    let x = plan.unwrap();
                    self.rq.used_idx = self.rq.used_idx.wrapping_add(1);
                    if let Some(k) = self.dev_out.iter().position(|t| *t == x) {
                        self.dev_out.remove(k);
                    }
                    if let Some(sub) = self.subs.get_mut(&x) {
                        sub.written = Some(vec![]);
                    }
                    self.used_fifo.push_back((x, 0));
                    let mut sh = self.shadow.borrow_mut();
                    if let Some(p) = sh.published.iter().position(|e| e.1 == x) {
                        sh.published.remove(p);
                    }
                }
                self.flags.blocking_with_other_first += 1;
                match r {
                    Caught::Ok(Err(e)) if expect.is_err() => Err(e),
                    Caught::Ok(Err(Error::WrongToken)) => {
                        // the submission itself went through: its token is in the ring slot
                        let slot = with(|w| self.rq.avail_slot(&w.hal, self.avail_idx as u32)).map_err(|m| v("C04", m))?;
                        Ok(slot)
                    }
                    Caught::Ok(other) => {
                        return Err(v(
                            "C03",
                            format!(
                                "add_notify_wait_pop({} in, {} out) returned {:?} although the completion at the front of the used ring belongs to another chain (token {:?}); expected Err(WrongToken) and no other change",
                                ins.len(),
                                outs.len(),
                                other,
                                front_before
                            ),
                        ))
                    }
                    Caught::Panic(p) => return Err(v("C03", format!("add_notify_wait_pop with another chain's completion first: {}", p.render()))),
                    Caught::Escape(e) => return Err(v("C03", format!("add_notify_wait_pop with another chain's completion first: {:?}", e))),
                }
            }
        };
        drop(in_sl);
        drop(out_sl);
        // the device may look at queue memory right now, between two driver calls
        if self.shadow.borrow().enabled {
            let sh = self.shadow.clone();
            with(|w| sh.borrow_mut().observe(w, Point::Spin(virtio_drivers::verif_hooks::SpinSite::QueueAddNotifyWaitPop)));
        }
        self.trace_sig.add(1).add(nb as u64).add(res.is_ok() as u64);
        let hal_events: Vec<HalEv> = with(|w| w.hal.log[log0..].to_vec());
        match (&res, &expect) {
            (Ok(_), Ok(())) => {}
            (Err(e), Err(x)) if e == x => {
                self.flags.refused = true;
                if !hal_events.is_empty() {
                    return Err(v("C04", format!("refused submission ({:?}) made platform calls: {:?}", e, hal_events)));
                }
                if let Some(pre) = pre {
                    if pre != self.mem_snapshot() {
                        return Err(v("C03", format!("refused submission ({:?}) changed device-visible queue memory", e)));
                    }
                }
                self.substrate_faults()?;
                self.check_answers()?;
                return Ok(false);
            }
            _ if self.follow_capacity => {
                // Not the C03 run: whether the submission should have been refused is C03's
                // business. Follow what the implementation did, so that this property's own
                // oracles still judge the submission it accepted.
                self.flags.followed_capacity_deviation = true;
                if res.is_err() {
                    return Ok(false);
                }
            }
            _ => {
                return Err(v(
                    "C03",
                    format!(
                        "add({} in, {} out) with {} of {} descriptors held returned {:?}, expected {:?}",
                        ins.len(),
                        outs.len(),
                        self.held,
                        self.n,
                        res,
                        expect
                    ),
                ))
            }
        }
        let token = res.unwrap();
        self.substrate_faults()?;
        // ---- C04: exactly one share per buffer (+1 for the indirect table)
        let mut share_idx = Vec::new();
        let mut by_vaddr: BTreeMap<usize, (u64, usize, Dir, bool)> = BTreeMap::new();
        for e in &hal_events {
            match e {
                HalEv::Share(i) => {
                    share_idx.push(*i);
                    let r = with(|w| w.hal.regions[*i].clone());
                    if let Kind::Share { vaddr, .. } = r.kind {
                        if by_vaddr.insert(vaddr, (r.paddr, r.len, r.dir, r.ap)).is_some() {
                            return Err(v("C04", format!("buffer at {:#x} shared twice in one submission", vaddr)));
                        }
                    }
                }
                other => return Err(v("C04", format!("unexpected platform call during add: {:?}", other))),
            }
        }
        let mut want: Vec<(u64, u32, bool)> = Vec::new();
        for (b, wr) in ins.iter().map(|b| (b, false)).chain(outs.iter().map(|b| (b, true))) {
            let va = b.as_ptr() as usize;
            let Some(&(paddr, len, dir, ap)) = by_vaddr.get(&va) else {
                return Err(v("C04", format!("caller buffer {:#x}+{} was not passed to share", va, b.len())));
            };
            let want_dir = if wr { Dir::FromDev } else { Dir::ToDev };
            if len != b.len() || dir != want_dir || ap != self.cfg.ap {
                return Err(v(
                    "C04",
                    format!(
                        "buffer {:#x}+{} ({}) shared as len {} dir {:?} ap {} (queue ap {})",
                        va,
                        b.len(),
                        if wr { "device-writable" } else { "device-readable" },
                        len,
                        dir,
                        ap,
                        self.cfg.ap
                    ),
                ));
            }
            want.push((paddr, b.len() as u32, wr));
        }
        // ---- C01: ring slot / index
        let (idx_now, ring_now) = with(|w| {
            let idx = self.rq.avail_idx(&w.hal);
            let ring = w.hal.peek(self.rq.avail + 4, 2 * self.n);
            (idx, ring)
        });
        let idx_now = idx_now.map_err(|m| v("C04", m))?;
        if idx_now != self.avail_idx.wrapping_add(1) {
            return Err(v("C01", format!("available index is {} after a submission at index {}", idx_now, self.avail_idx)));
        }
        let slot = self.avail_idx as usize % self.n;
        self.ring_model[slot] = token;
        let ring_now = ring_now.map_err(|m| v("C04", m))?;
        let ring_now: Vec<u16> = ring_now.chunks(2).map(|c| u16::from_le_bytes([c[0], c[1]])).collect();
        if self.scribbling.is_some() {
            // only the new slot is meaningful while the device scribbles over the ring
            if ring_now[slot] != token {
                return Err(v("C01", format!("ring slot {} holds {} after submitting token {}", slot, ring_now[slot], token)));
            }
        } else if ring_now != self.ring_model {
            let bad = ring_now.iter().zip(self.ring_model.iter()).position(|(a, b)| a != b).unwrap();
            return Err(v(
                "C01",
                format!(
                    "after submission at available index {} (slot {}, token {}): ring slot {} holds {} but should hold {}",
                    self.avail_idx, slot, token, bad, ring_now[bad], self.ring_model[bad]
                ),
            ));
        }
        // ---- C01: chain as the device reaches it
        let chain = with(|w| self.rq.read_chain(&w.hal, token)).map_err(|m| v("C01", format!("chain at head {}: {}", token, m)))?;
        let got: Vec<(u64, u32, bool)> = chain.elems.iter().map(|e| (e.addr, e.len, e.write)).collect();
        if got != want {
            return Err(v(
                "C01",
                format!("chain at head {} describes {:x?} but the caller supplied (device address, len, writable) {:x?}", token, got, want),
            ));
        }
        let uses_indirect = chain.indirect.is_some();
        if uses_indirect && !self.cfg.indirect {
            return Err(v("C01", format!("chain of {} buffers uses an indirect table although indirect descriptors are not enabled for the queue", nb)));
        }
        let need = if uses_indirect { 1 } else { nb };
        // ---- C04: exactly one share per buffer (+1 for the indirect table, when one is used)
        let exp_shares = nb + usize::from(uses_indirect);
        if share_idx.len() != exp_shares {
            return Err(v(
                "C04",
                format!("add of {} buffers (indirect table: {}) made {} share calls, expected {}", nb, uses_indirect, share_idx.len(), exp_shares),
            ));
        }
        if let Some((ta, tl)) = chain.indirect {
            let ok = with(|w| w.hal.share_at(ta).map(|r| (r.len, r.dir)));
            match ok {
                Some((l, Dir::ToDev)) if l == tl as usize && l == 16 * nb => {}
                other => {
                    return Err(v(
                        "C01",
                        format!("indirect table at {:#x} len {} for {} buffers is not a device-readable share of exactly that size: {:?}", ta, tl, nb, other),
                    ))
                }
            }
            self.flags.indirect_chain = true;
        }
        if chain.desc_ids.len() != need {
            return Err(v("C01", format!("chain occupies {} descriptors, expected {}", chain.desc_ids.len(), need)));
        }
        for &d in &chain.desc_ids {
            if let Some(o) = self.desc_owner[d as usize] {
                return Err(v("C01", format!("descriptor {} of new chain {} already belongs to outstanding chain {}", d, token, o)));
            }
        }
        for &d in &chain.desc_ids {
            self.desc_owner[d as usize] = Some(token);
        }
        if self.subs.contains_key(&token) {
            return Err(v("C01", format!("token {} returned while a chain with that token is outstanding", token)));
        }
        // statistics
        if !self.subs.is_empty() && self.pops > 0 {
            self.flags.c01_nontrivial += 1;
            let mut s = Sig::new();
            s.add(self.cfg.log2 as u64).add(self.cfg.indirect as u64).add(self.cfg.event_idx as u64).add(self.cfg.legacy as u64);
            s.add(ins.len() as u64).add(outs.len() as u64);
            for &d in &chain.desc_ids {
                s.add(d as u64);
            }
            self.c01_sigs.push(s.get());
        }
        {
            let sh = self.shadow.borrow();
            if sh.enabled && (nb >= 3 || uses_indirect) && sh.points_in_call >= 3 && !self.subs.is_empty() {
                self.flags.c02_nontrivial += 1;
                let mut s = Sig::new();
                s.add(self.cfg.log2 as u64).add(self.cfg.indirect as u64).add(self.cfg.event_idx as u64).add(self.cfg.legacy as u64);
                s.add(nb as u64).add(sh.points_in_call as u64).add(self.subs.len() as u64);
                for &d in &chain.desc_ids {
                    s.add(d as u64);
                }
                self.c02_sigs.push(s.get());
            }
            if sh.enabled && sh.idx_moves_in_call != 1 {
                return Err(v("C02", format!("available index was observed to move {} times during one submission", sh.idx_moves_in_call)));
            }
        }
        if nb >= 3 {
            self.flags.big_chain = true;
        }
        if self.avail_idx == 0xffff {
            self.flags.wrapped = true;
        }
        self.avail_idx = self.avail_idx.wrapping_add(1);
        self.held += need;
        self.avail_fifo.push_back(token);
        let ins_copy = ins.iter().map(|b| b.to_vec()).collect();
        self.subs.insert(token, Sub { token, ins, outs, ins_copy, sentinel, ndesc: need, chain, share_idx, order, written: None });
        self.flags.max_out = self.flags.max_out.max(self.subs.len());
        self.check_answers()?;
        Ok(true)
    }

    /// A multi-buffer submission while the allocation of the indirect table fails. Allowed
    /// outcomes: a panic or an error that leaves queue memory, descriptor accounting and the
    /// platform ledger untouched -- or a submission that is correct by every other oracle.
    pub fn add_no_heap(&mut self, nb: usize) -> R {
        if !self.cfg.indirect || nb < 2 || nb > self.n {
            return Ok(());
        }
        let before = self.mem_snapshot();
        let log0 = with(|w| w.hal.log.len());
        let adds0 = self.adds;
        crate::allocguard::fail_next(16 * nb, 16);
        self.no_heap = true;
        let r = self.add(&vec![1u32; nb - 1], &[1]);
        self.no_heap = false;
        let unused = crate::allocguard::fail_clear();
        match r {
            Ok(_) => {
                if !unused {
                    self.flags.heap_failures += 1;
                }
                Ok(())
            }
            Err(vi) if vi.prop == "HEAP" => {
                let _ = adds0;
                // the allocation failure surfaced as a panic inside add(): nothing may have changed
                self.flags.heap_failures += 1;
                if self.mem_snapshot() != before {
                    return Err(v("C02", "add() panicked on heap exhaustion after changing device-visible queue memory".to_string()));
                }
                let ev: Vec<HalEv> = with(|w| w.hal.log[log0..].to_vec());
                if !ev.is_empty() {
                    return Err(v("C04", format!("add() panicked on heap exhaustion after platform calls {:?}", ev)));
                }
                let _ = world::take_faults();
                Ok(())
            }
            Err(vi) => Err(vi),
        }
    }

    /// One buffer of 2^32 + 512 bytes: a descriptor's 32-bit length cannot describe it, so the
    /// only correct outcomes are an error or a panic; a successful submission necessarily
    /// publishes a chain that does not give the caller's buffer length.
    pub fn add_huge(&mut self, writable: bool) -> R {
        const LEN: usize = (1usize << 32) + 512;
        with(|w| w.hal.bounce = false);
        let layout = std::alloc::Layout::from_size_align(LEN, 16).unwrap(); // calloc path: pages are never touched
        // lazily zeroed: never touched
        let p = unsafe { std::alloc::alloc_zeroed(layout) };
        if p.is_null() {
            return Ok(());
        }
        let r = {
            let q = self.q.as_mut().unwrap();
            let sl: &mut [u8] = unsafe { std::slice::from_raw_parts_mut(p, LEN) };
            guard(|| unsafe {
                if writable {
                    q.add(&[], &mut [sl])
                } else {
                    q.add(&[&*sl], &mut [])
                }
            })
        };
        let out = match r {
            Caught::Ok(Ok(token)) => {
                let seen = with(|w| self.rq.read_chain(&w.hal, token)).map(|c| c.elems.iter().map(|e| e.len as u64).collect::<Vec<_>>());
                Err(v("C01", format!("a buffer of {} bytes was accepted; the published chain gives lengths {:?}", LEN, seen)))
            }
            _ => Ok(()),
        };
        // quiesce before the memory goes away
        let q = self.q.take();
        let t = self.t.take();
        let _ = guard(move || {
            let mut t = t;
            if let Some(t) = t.as_mut() {
                use virtio_drivers::transport::Transport;
                t.queue_unset(0);
            }
            drop(q);
            drop(t);
        });
        unsafe { std::alloc::dealloc(p, layout) };
        let _ = world::take_faults();
        self.flags.huge_buffer = true;
        out
    }

    /// Device fetches everything available.
    pub fn fetch(&mut self) -> R {
        loop {
            let c = with(|w| self.rq.fetch(&w.hal)).map_err(|m| v("C01", format!("device fetch: {}", m)))?;
            let Some(c) = c else { break };
            let Some(exp) = self.avail_fifo.pop_front() else {
                return Err(v("C01", format!("device found an available entry (head {}) that was never submitted", c.head)));
            };
            if c.head != exp {
                return Err(v("C01", format!("device fetched head {} but the next submitted token is {}", c.head, exp)));
            }
            let sub = self.subs.get(&exp).unwrap();
            if c != sub.chain {
                return Err(v("C01", format!("chain {} changed between submission and fetch: {:?} -> {:?}", exp, sub.chain, c)));
            }
            // C04: readable buffers reach the device byte-identical
            let data = with(|w| self.rq.read_chain_data(&w.hal, &c)).map_err(|m| v("C04", m))?;
            let want: Vec<u8> = sub.ins_copy.iter().flatten().copied().collect();
            if data != want {
                return Err(v("C04", format!("device-readable bytes of chain {} differ from the caller's buffers", exp)));
            }
            self.dev_out.push(exp);
            let mut sh = self.shadow.borrow_mut();
            if sh.enabled {
                for e in sh.published.iter_mut() {
                    if e.1 == exp && !e.3 {
                        e.3 = true;
                        break;
                    }
                }
            }
        }
        if let Some(seed) = self.scribbling {
            self.scribbles += 1;
            let k = self.scribbles as u8;
            let n = self.n;
            let garbage: Vec<u8> = (0..16 * n).map(|i| (i as u8).wrapping_mul(seed | 1).wrapping_add(k) ^ 0x3c).collect();
            with(|w| {
                let _ = w.hal.poke(self.rq.desc, &garbage);
                let _ = w.hal.poke(self.rq.avail, &garbage[..2]);
                let _ = w.hal.poke(self.rq.avail + 4, &garbage[..2 * n]);
                self.rq.scribble_avail_idx(&w.hal);
            });
            for (i, x) in self.ring_model.iter_mut().enumerate() {
                *x = u16::from_le_bytes([garbage[2 * i], garbage[2 * i + 1]]);
            }
        }
        Ok(())
    }

    /// Device completes the k-th outstanding chain writing a fraction of its capacity.
    pub fn complete(&mut self, pick: u16, written: u16) -> R {
        if self.dev_out.is_empty() {
            return Ok(());
        }
        let k = (pick as usize * self.dev_out.len()) >> 16;
        if k != 0 {
            self.flags.ooo_complete = true;
        }
        let token = self.dev_out.remove(k);
        let sub = self.subs.get_mut(&token).unwrap();
        let cap = sub.chain.writable_len();
        let wl = (written as usize * (cap + 1)) >> 16;
        let data: Vec<u8> = (0..wl).map(|i| pat(sub.order.wrapping_mul(977).wrapping_add(5), i) ^ 0x80).collect();
        let chain = sub.chain.clone();
        sub.written = Some(data.clone());
        with(|w| {
            self.rq.write_chain(&w.hal, &chain, &data)?;
            self.rq.push_used(&w.hal, token as u32, wl as u32)
        })
        .map_err(|m| v("C04", format!("device completing chain {}: {}", token, m)))?;
        self.used_fifo.push_back((token, wl as u32));
        {
            let mut sh = self.shadow.borrow_mut();
            if sh.enabled {
                if let Some(p) = sh.published.iter().position(|e| e.1 == token) {
                    sh.published.remove(p);
                }
            }
        }
        self.trace_sig.add(2).add(k as u64);
        Ok(())
    }

    fn outs_content_is(&self, sub: &Sub, written: &[u8]) -> bool {
        let mut off = 0;
        for b in &sub.outs {
            for &x in b.iter() {
                let want = if off < written.len() { written[off] } else { sub.sentinel };
                if x != want {
                    return false;
                }
                off += 1;
            }
        }
        true
    }

    pub fn pop(&mut self, which: &PopWhich) -> R {
        // choose the token to present
        enum Tok {
            Real(u16),
            Stale(u16),
        }
        let front = self.used_fifo.front().copied();
        let tok = match which {
            PopWhich::Front => match front {
                Some((t, _)) => Tok::Real(t),
                None => match self.subs.keys().next() {
                    Some(&t) => Tok::Real(t),
                    None => Tok::Stale(0),
                },
            },
            PopWhich::Other(k) => {
                let others: Vec<u16> = self.subs.keys().copied().filter(|t| Some(*t) != front.map(|f| f.0)).collect();
                if others.is_empty() {
                    let free: Vec<u16> = (0..self.n as u16).filter(|t| !self.subs.contains_key(t)).collect();
                    if free.is_empty() {
                        return Ok(());
                    }
                    Tok::Stale(free[(*k as usize * free.len()) >> 16])
                } else {
                    Tok::Real(others[(*k as usize * others.len()) >> 16])
                }
            }
            PopWhich::Stale(k) => {
                let free: Vec<u16> = (0..self.n as u16).filter(|t| !self.subs.contains_key(t)).collect();
                if free.is_empty() {
                    match front {
                        Some((t, _)) => Tok::Real(t),
                        None => return Ok(()),
                    }
                } else {
                    Tok::Stale(free[(*k as usize * free.len()) >> 16])
                }
            }
        };
        let token = match tok {
            Tok::Real(t) | Tok::Stale(t) => t,
        };
        let expect: Result<u32, Error> = match front {
            None => Err(Error::NotReady),
            Some((t, l)) if t == token => Ok(l),
            Some(_) => Err(Error::WrongToken),
        };
        let pre = if expect.is_err() && self.small_check { Some(self.mem_snapshot()) } else { None };
        let log0 = with(|w| w.hal.log.len());
        let mut dummy_in = [0u8; 1];
        let mut dummy_out = [0u8; 1];
        if let (Tok::Real(t), true) = (&tok, expect.is_ok()) {
            // before the pop the caller's buffers must still hold the sentinel
            let s2 = self.subs.get(t).unwrap();
            if !self.outs_content_is(s2, &[]) {
                return Err(v("C04", format!("caller's writable buffers of chain {} changed before its completion was consumed", t)));
            }
        }
        let (in_sl, mut out_sl): (Vec<&[u8]>, Vec<&mut [u8]>) = match tok {
            Tok::Real(t) => {
                let sub = self.subs.get_mut(&t).unwrap();
                (sub.in_slices(), sub.out_slices())
            }
            Tok::Stale(_) => {
                let a: &[u8] = unsafe { std::slice::from_raw_parts(dummy_in.as_mut_ptr(), 1) };
                let b: &mut [u8] = unsafe { std::slice::from_raw_parts_mut(dummy_out.as_mut_ptr(), 1) };
                (vec![a], vec![b])
            }
        };
        let q = self.q.as_mut().unwrap();
        let res = match guard(|| unsafe { q.pop_used(token, &in_sl, &mut out_sl) }) {
            Caught::Ok(r) => r,
            Caught::Panic(p) => return Err(v("C03", format!("pop_used(token {}) expected {:?}: {}", token, expect, p.render()))),
            Caught::Escape(e) => return Err(v("C03", format!("{:?}", e))),
        };
        self.trace_sig.add(3).add(match &res {
            Ok(_) => 0,
            Err(Error::NotReady) => 1,
            Err(Error::WrongToken) => 2,
            _ => 3,
        });
        if res != expect {
            return Err(v(
                "C03",
                format!(
                    "pop_used(token {}) returned {:?}, expected {:?} (used ring front {:?}, {} chains outstanding, {} pops so far)",
                    token,
                    res,
                    expect,
                    front,
                    self.subs.len(),
                    self.pops
                ),
            ));
        }
        let hal_events: Vec<HalEv> = with(|w| w.hal.log[log0..].to_vec());
        match res {
            Err(e) => {
                match e {
                    Error::NotReady => self.flags.not_ready = true,
                    Error::WrongToken => self.flags.wrong_token = true,
                    _ => {}
                }
                if !hal_events.is_empty() {
                    return Err(v("C04", format!("failed poll ({:?}) made platform calls: {:?}", e, hal_events)));
                }
                if let Some(pre) = pre {
                    if pre != self.mem_snapshot() {
                        return Err(v("C03", format!("failed poll ({:?}) changed device-visible queue memory", e)));
                    }
                }
                self.substrate_faults()?;
                self.check_answers()?;
            }
            Ok(len) => {
                self.substrate_faults()?;
                self.used_fifo.pop_front();
                let sub = self.subs.remove(&token).unwrap();
                let oldest = self.subs.values().map(|s| s.order).min();
                if oldest.map(|o| o < sub.order).unwrap_or(false) {
                    self.flags.ooo_pop = true;
                }
                // C04: exactly the matching unshares
                let mut un: Vec<usize> = Vec::new();
                for e in &hal_events {
                    match e {
                        HalEv::Unshare(i) => un.push(*i),
                        other => return Err(v("C04", format!("unexpected platform call during pop_used: {:?}", other))),
                    }
                }
                let mut a = un.clone();
                a.sort();
                let mut b = sub.share_idx.clone();
                b.sort();
                if a != b {
                    return Err(v("C04", format!("pop_used of chain {} unshared regions {:?}, but the submission shared {:?}", token, a, b)));
                }
                // C04: data appears exactly now
                let written = sub.written.clone().unwrap_or_default();
                if len as usize != written.len() {
                    return Err(v("C03", format!("pop_used returned length {} but the device recorded {}", len, written.len())));
                }
                if !self.outs_content_is(&sub, &written) {
                    return Err(v("C04", format!("after consuming completion {} the caller's writable buffers do not hold exactly the {} bytes the device wrote", token, written.len())));
                }
                for (b, c) in sub.ins.iter().zip(sub.ins_copy.iter()) {
                    if b.as_ref() != c.as_slice() {
                        return Err(v("C04", format!("device-readable buffer of chain {} was modified", token)));
                    }
                }
                for &d in &sub.chain.desc_ids {
                    self.desc_owner[d as usize] = None;
                }
                self.held -= sub.ndesc;
                self.pops += 1;
                // C05: used_event re-armed
                if self.cfg.event_idx {
                    self.flags.c05_checks += 1;
                    let ue = with(|w| self.rq.used_event(&w.hal)).map_err(|m| v("C04", m))?;
                    if ue != self.pops as u16 {
                        return Err(v("C05", format!("after {} consumed completions used_event is {} (a spec-following device would not interrupt for the next one)", self.pops, ue)));
                    }
                }
                self.check_answers()?;
            }
        }
        Ok(())
    }

    pub fn should_notify_check(&mut self) -> R {
        let sn = self.q().should_notify();
        if !self.cfg.event_idx {
            self.flags.c05_checks += 1;
            let want = self.dev_flags & 1 == 0;
            if sn != want {
                return Err(v("C05", format!("should_notify() = {} with device used.flags = {:#x} (event-index off)", sn, self.dev_flags)));
            }
        } else {
            // entries [old, new) were made available since the driver last asked; whatever
            // completions were consumed in between, the answer must be yes when the index the
            // device asked for lies among them
            let (old, new) = (self.last_sn_idx, self.avail_idx);
            let ev = with(|w| w.hal.peek(self.rq.used + 4 + 8 * self.n as u64, 2)).map_err(|m| v("C04", m))?;
            let ev = u16::from_le_bytes([ev[0], ev[1]]);
            if new != old {
                self.flags.c05_checks += 1;
                if crate::ring::need_event(ev, new, old) {
                    self.flags.c05_event_windows += 1;
                    if !sn {
                        return Err(v(
                            "C05",
                            format!(
                                "event-index: entries [{}, {}) were made available since the last check and the device asked to be notified at index {}, but should_notify() returned false ({} chains outstanding, {} completions consumed so far)",
                                old, new, ev, self.subs.len(), self.pops
                            ),
                        ));
                    }
                }
            }
            self.last_sn_idx = new;
        }
        Ok(())
    }

    pub fn set_dev_notify(&mut self, e: bool) -> R {
        self.q().set_dev_notify(e);
        if !self.cfg.event_idx {
            self.flags.c05_checks += 1;
            let f = with(|w| self.rq.avail_flags(&w.hal)).map_err(|m| v("C04", m))?;
            if f != (!e) as u16 {
                return Err(v("C05", format!("set_dev_notify({}) but the device reads avail.flags = {:#x}", e, f)));
            }
        }
        self.substrate_faults()
    }

    pub fn step(&mut self, op: &Op) -> R {
        match op {
            Op::Add { ins, outs } => {
                self.add(ins, outs)?;
            }
            Op::AddFill { extra, wr } => {
                let base = if self.cfg.indirect { self.n as i64 } else { self.n.saturating_sub(self.held) as i64 };
                let nb = (base + *extra as i64).max(0) as usize;
                if nb > 40000 {
                    return Ok(());
                }
                let nw = (*wr as usize * (nb + 1)) >> 16;
                let ins = vec![1u32; nb - nw];
                let outs = vec![1u32; nw];
                self.add(&ins, &outs)?;
            }
            Op::AddBoundary(sel) => {
                let nb = boundary_count(*sel, self.n, self.n.saturating_sub(self.held));
                let ins = vec![1u32; nb - nb / 3];
                let outs = vec![1u32; nb / 3];
                self.add(&ins, &outs)?;
            }
            Op::Blocking { ins, outs, pick } => {
                self.fetch()?;
                let plan = if !self.used_fifo.is_empty() {
                    None
                } else if !self.dev_out.is_empty() {
                    Some(self.dev_out[(*pick as usize * self.dev_out.len()) >> 16])
                } else {
                    return Ok(()); // the own chain would complete first: C05's co-simulation
                };
                self.add_mode(ins, outs, Some(plan))?;
            }
            Op::AddNoHeap(k) => self.add_no_heap(2 + (*k as usize % 6).min(self.n.saturating_sub(1)))?,
            Op::Fetch => self.fetch()?,
            Op::Complete { pick, written } => {
                self.fetch()?;
                self.complete(*pick, *written)?;
                self.check_answers()?;
            }
            Op::CompleteAll { rot } => {
                self.fetch()?;
                while !self.dev_out.is_empty() {
                    self.complete(*rot, 0x8000)?;
                }
                self.check_answers()?;
            }
            Op::Pop(wh) => self.pop(wh)?,
            Op::PopAll => {
                while !self.used_fifo.is_empty() {
                    self.pop(&PopWhich::Front)?;
                }
            }
            Op::Peek | Op::CanPop | Op::AvailDesc => self.check_answers()?,
            Op::ShouldNotify => self.should_notify_check()?,
            Op::SetDevNotify(e) => self.set_dev_notify(*e)?,
            Op::DevFlags(f) => {
                self.dev_flags = *f & 1;
                with(|w| self.rq.set_used_flags(&w.hal, self.dev_flags)).map_err(|m| v("C04", m))?;
            }
            Op::DevAvailEventRel(d) => {
                let e = self.avail_idx.wrapping_add(*d as i16 as u16);
                with(|w| self.rq.set_avail_event(&w.hal, e)).map_err(|m| v("C04", m))?;
            }
            Op::DevAvailEvent(e) => {
                with(|w| self.rq.set_avail_event(&w.hal, *e)).map_err(|m| v("C04", m))?;
            }
        }
        Ok(())
    }

    pub fn long_run(&mut self, l: &Long) -> R {
        for r in 0..l.rounds {
            let mut added = 0;
            for _ in 0..l.batch.max(1) {
                let nb = (l.bufs.max(1) as usize).min(self.n);
                let need = if self.cfg.indirect && nb > 1 { 1 } else { nb };
                if self.held + need > self.n {
                    break;
                }
                let nin = nb / 2;
                let ins = vec![3u32; nin];
                let outs = vec![5u32; nb - nin];
                if self.add(&ins, &outs)? {
                    added += 1;
                }
            }
            self.fetch()?;
            // The device completes most of what it holds, in a rotating order, but keeps up to
            // two chains in flight across rounds, so that the driver polls while the device's
            // used index trails the available index -- also across the 16-bit wrap.
            let keep = if self.dev_out.len() >= 2 { ((r as usize + l.rot as usize) % 3).min(self.dev_out.len() - 1) } else { 0 };
            let mut k = 0u16;
            while self.dev_out.len() > keep {
                k = k.wrapping_add((l.rot as u16).wrapping_mul(9973).wrapping_add(r as u16));
                self.complete(k, k)?;
                if l.peek_once && !self.no_peek {
                    // the one and only peek of this run, with a completion pending
                    self.check_answers()?;
                    self.no_peek = true;
                    self.flags.peek_once_runs += 1;
                }
                if (r as usize + self.dev_out.len()) % 5 == 0 {
                    // poll between two completions
                    self.pop(&PopWhich::Front)?;
                }
            }
            if keep > 0 {
                self.flags.pipelined_rounds += 1;
            }
            if r % 7 == 3 {
                self.pop(&PopWhich::Other(r as u16))?;
            }
            while !self.used_fifo.is_empty() {
                self.pop(&PopWhich::Front)?;
            }
            if r % 11 == 5 {
                self.pop(&PopWhich::Front)?; // nothing ready
            }
            if added == 0 && self.held == 0 {
                return Err(v("C03", "long run could not submit anything on an empty queue"));
            }
        }
        Ok(())
    }

    /// End-of-history checks: behavioural free count, drain, ledger balance, teardown.
    pub fn finish(&mut self) -> R {
        if self.n <= 1024 {
            let free_before = self.n.saturating_sub(self.held);
            let mut cnt = 0;
            loop {
                let was = self.held;
                if !self.add(&[1], &[])? {
                    break;
                }
                if self.held != was + 1 {
                    break;
                }
                cnt += 1;
                if cnt > self.n + 1 {
                    break;
                }
            }
            if cnt != free_before {
                return Err(v("C03", format!("{} single-buffer submissions were accepted, but {} descriptors were free", cnt, free_before)));
            }
        }
        self.fetch()?;
        while !self.dev_out.is_empty() {
            self.complete(0, 0xffff)?;
        }
        while !self.used_fifo.is_empty() {
            self.pop(&PopWhich::Front)?;
        }
        if !self.subs.is_empty() {
            return Err(v("C03", "model error: chains left after drain"));
        }
        let live = with(|w| w.hal.live_share_count());
        if live != 0 {
            return Err(v("C04", format!("{} buffers are still shared after every completion was consumed", live)));
        }
        // teardown
        let q = self.q.take();
        let t = self.t.take();
        match guard(move || {
            // quiesce first, as every driver's Drop does
            let mut t = t;
            if let Some(t) = t.as_mut() {
                use virtio_drivers::transport::Transport;
                t.queue_unset(0);
            }
            drop(q);
            drop(t);
        }) {
            Caught::Ok(()) => {}
            Caught::Panic(p) => return Err(v("C06", format!("dropping the queue: {}", p.render()))),
            Caught::Escape(e) => return Err(v("C06", format!("{:?}", e))),
        }
        self.substrate_faults()?;
        let live = with(|w| w.hal.live_dma_count());
        if live != 0 {
            return Err(v("C06", format!("{} DMA regions still allocated after the queue was dropped", live)));
        }
        Ok(())
    }

    /// After another property's oracle has stopped the model: let the device complete whatever it
    /// can still reach, present every token the caller holds, and drop the queue -- without any
    /// expectation. What remains judged are the model-free facts of the platform ledger (an
    /// unshare that matches no live share, a second unshare, wrong dealloc arguments).
    pub fn blind_epilogue(&mut self) -> R {
        self.shadow.borrow_mut().enabled = false;
        let mut seen: Vec<crate::world::Fault> = world::take_faults();
        let _ = self.fetch();
        let mut guard_n = 0;
        while !self.dev_out.is_empty() && guard_n < 70000 {
            guard_n += 1;
            if self.complete(0, 0).is_err() {
                break;
            }
        }
        seen.extend(world::take_faults());
        let order: Vec<u16> = self.used_fifo.iter().map(|x| x.0).chain(self.subs.keys().copied()).collect();
        for token in order {
            let popped = {
                let Some(sub) = self.subs.get_mut(&token) else { continue };
                let in_sl = sub.in_slices();
                let mut out_sl = sub.out_slices();
                let q = self.q.as_mut().unwrap();
                matches!(guard(|| unsafe { q.pop_used(token, &in_sl, &mut out_sl) }), Caught::Ok(Ok(_)))
            };
            if popped {
                self.subs.remove(&token);
            }
            let f = world::take_faults();
            let stop = !f.is_empty();
            seen.extend(f);
            if stop {
                break;
            }
        }
        let q = self.q.take();
        let t = self.t.take();
        let _ = guard(move || {
            let mut t = t;
            if let Some(t) = t.as_mut() {
                use virtio_drivers::transport::Transport;
                t.queue_unset(0);
            }
            drop(q);
            drop(t);
        });
        seen.extend(world::take_faults());
        for f in seen {
            match f.prop {
                "share" | "unshare" => return Err(v("C04", f.msg)),
                "dealloc" => return Err(v("C06", f.msg)),
                _ => {}
            }
        }
        Ok(())
    }

    pub fn points(&self) -> u64 {
        self.shadow.borrow().points
    }
}

impl Drop for Eng {
    fn drop(&mut self) {
        // Never run driver destructors outside a guard.
        let q = self.q.take();
        let t = self.t.take();
        let _ = guard(move || {
            drop(t);
            drop(q);
        });
    }
}

pub struct Outcome {
    pub viol: Option<Viol>,
}

/// Run one history with every oracle active. Statistics for `prop` are recorded.
pub fn run_case(c: &QCase, prop: &'static str, st: &mut Stats) -> Result<(), String> {
    let observe = prop == "C02";
    let mut eng: Option<Eng> = None;
    let res = (|| -> R<()> {
        eng = Some(Eng::new(&c.cfg, observe, prop != "C03")?);
        let e = eng.as_mut().unwrap();
        for op in &c.ops {
            e.step(op)?;
        }
        if let Some(l) = &c.long {
            e.long_run(l)?;
        }
        if c.huge != 0 {
            // (the submission may legitimately end in a panic half-way: nothing is judged afterwards)
            return e.add_huge(c.huge == 2);
        }
        e.finish()?;
        Ok(())
    })();
    let res: R<Eng> = match res {
        Ok(()) => Ok(eng.take().unwrap()),
        Err(vi) => Err(vi),
    };
    match res {
        Err(vi) => {
            if vi.prop == prop {
                return Err(format!("[{}] {}", vi.prop, vi.msg));
            }
            // Another property's oracle stopped the model. The platform ledger keeps judging
            // this property's model-free clauses while everything outstanding is wound down.
            if matches!(prop, "C04" | "C06") {
                if let Some(e) = eng.as_mut() {
                    if let Err(v2) = e.blind_epilogue() {
                        if v2.prop == prop {
                            return Err(format!("[{}] after the {} oracle stopped the model ({}), winding down: {}", v2.prop, vi.prop, vi.msg, v2.msg));
                        }
                    }
                }
            }
            // A violation that belongs to a different property's oracle: reported by that
            // property's own check, counted here.
            st.class(&format!("aborted_by_{}_oracle", vi.prop));
            Ok(())
        }
        Ok(e) => {
            let f = &e.flags;
            if f.ooo_complete {
                st.class("out_of_order_completion");
            }
            if f.wrong_token {
                st.class("wrong_token_poll");
            }
            if f.not_ready {
                st.class("not_ready_poll");
            }
            if f.refused {
                st.class("refused_submission");
            }
            if f.indirect_chain {
                st.class("indirect_chain");
            }
            if f.blocking_with_other_first > 0 {
                st.class_n("blocking_helper_with_another_completion_first", f.blocking_with_other_first as u64);
            }
            if f.huge_buffer {
                st.class("buffer_longer_than_u32");
            }
            if f.heap_failures > 0 {
                st.class_n("submissions_under_heap_exhaustion", f.heap_failures as u64);
            }
            if f.wrapped {
                st.class("index_wrap_crossed");
                if f.pipelined_rounds > 0 {
                    st.class("index_wrap_crossed_with_chains_in_flight");
                }
                if f.peek_once_runs > 0 {
                    st.class("index_wrap_crossed_after_a_single_peek");
                }
            }
            if c.cfg.legacy {
                st.class("legacy_layout");
            }
            if c.cfg.log2 >= 8 {
                st.class("queue_size_ge_256");
            }
            let mut cs = Sig::new();
            if c.cfg.zero_share > 0 {
                st.class("a_buffer_mapped_at_device_address_0");
            }
            cs.add(c.cfg.log2 as u64).add(c.cfg.indirect as u64).add(c.cfg.event_idx as u64).add(c.cfg.ap as u64).add(c.cfg.legacy as u64);
            cs.add(e.trace_sig.get());
            let sample = || json!({"cfg": c.cfg, "ops": c.ops.iter().take(40).collect::<Vec<_>>(), "n_ops": c.ops.len(), "long": c.long});
            match prop {
                "C01" => {
                    st.class_n("nontrivial_submissions", f.c01_nontrivial as u64);
                    // one case = one history; it is non-trivial when it contains at least one
                    // non-trivial submission, and distinct by the shapes of all of them
                    if !e.c01_sigs.is_empty() {
                        let mut hs = Sig::new();
                        for s in &e.c01_sigs {
                            hs.add(*s);
                        }
                        st.nontrivial(hs.get(), sample);
                    }
                }
                "C02" => {
                    st.class_n("observation_points", e.points());
                    st.class_n("nontrivial_submissions", f.c02_nontrivial as u64);
                    // one case = one history; it is non-trivial when it contains at least one
                    // non-trivial submission, and distinct by the shapes of all of them
                    if !e.c02_sigs.is_empty() {
                        let mut hs = Sig::new();
                        for s in &e.c02_sigs {
                            hs.add(*s);
                        }
                        st.nontrivial(hs.get(), sample);
                    }
                }
                "C03" => {
                    if (f.ooo_complete && f.max_out >= 2 && (f.wrong_token || f.not_ready)) || f.wrapped {
                        st.nontrivial(cs.get(), sample);
                    }
                }
                "C04" => {
                    if (f.indirect_chain || f.big_chain) && f.refused && f.ooo_pop {
                        st.nontrivial(cs.get(), sample);
                    }
                }
                "C05" => {
                    st.class_n("flag_and_used_event_checks", f.c05_checks as u64);
                    st.class_n("history_windows_containing_avail_event", f.c05_event_windows as u64);
                }
                "C07" => {
                    st.nontrivial(cs.get(), sample);
                }
                _ => {}
            }
            Ok(())
        }
    }
}

// ---------------------------------------------------------------------------------------------
// generators

pub fn cfg_strategy(max_log2: u8) -> impl Strategy<Value = QCfg> {
    (
        prop_oneof![
            4 => 0u8..=3,
            3 => 4u8..=6,
            2 => 7u8..=9,
            1 => 10u8..=15,
        ],
        any::<bool>(),
        any::<bool>(),
        any::<bool>(),
        prop::bool::weighted(0.3),
    )
        .prop_map(move |(log2, indirect, event_idx, ap, legacy)| QCfg { log2: log2.min(max_log2), indirect, event_idx, ap, legacy, zero_share: if log2 % 5 == 0 && ap != legacy { 1 + (log2 / 5) * 2 + indirect as u8 } else { 0 } })
}

fn len_strategy() -> impl Strategy<Value = u32> {
    prop_oneof![
        6 => 1u32..=64,
        2 => 65u32..=4096,
        1 => 4097u32..=65536,
    ]
}

pub fn op_strategy() -> impl Strategy<Value = Op> {
    prop_oneof![
        10 => (prop::collection::vec(len_strategy(), 0..=3), prop::collection::vec(len_strategy(), 0..=3))
            .prop_map(|(ins, outs)| Op::Add { ins, outs }),
        2 => (prop::collection::vec(1u32..=16, 0..=9), prop::collection::vec(1u32..=16, 0..=9))
            .prop_map(|(ins, outs)| Op::Add { ins, outs }),
        2 => (-2i8..=2, any::<u16>()).prop_map(|(extra, wr)| Op::AddFill { extra, wr }),
        3 => Just(Op::Fetch),
        8 => (any::<u16>(), any::<u16>()).prop_map(|(pick, written)| Op::Complete { pick, written }),
        1 => any::<u16>().prop_map(|rot| Op::CompleteAll { rot }),
        8 => Just(Op::Pop(PopWhich::Front)),
        2 => any::<u16>().prop_map(|k| Op::Pop(PopWhich::Other(k))),
        1 => any::<u16>().prop_map(|k| Op::Pop(PopWhich::Stale(k))),
        1 => Just(Op::PopAll),
        1 => Just(Op::Peek),
        1 => Just(Op::AvailDesc),
        1 => (0u8..10).prop_map(Op::AddBoundary),
        1 => any::<u8>().prop_map(Op::AddNoHeap),
        2 => (prop::collection::vec(1u32..40, 0..3), prop::collection::vec(1u32..40, 0..3), any::<u16>()).prop_map(|(ins, outs, pick)| Op::Blocking { ins, outs, pick }),
        1 => Just(Op::ShouldNotify),
        1 => any::<bool>().prop_map(Op::SetDevNotify),
        1 => (0u16..=1).prop_map(Op::DevFlags),
        1 => any::<u16>().prop_map(Op::DevAvailEvent),
        2 => (-6i8..6).prop_map(Op::DevAvailEventRel),
    ]
}

/// Buffer counts on the boundaries of the queue size, of the free space and of 16 bits.
pub fn boundary_count(sel: u8, n: usize, free: usize) -> usize {
    match sel % 10 {
        0 => n,
        1 => n + 1,
        2 => n.saturating_sub(1).max(1),
        3 => 2 * n,
        4 => 65535,
        5 => 65536,
        6 => 65537,
        7 => 65536 + free.max(1),
        8 => free.max(1),
        _ => free + 1,
    }
}

/// Deterministic histories around those boundaries, on an empty and on a completely full queue.
pub fn boundary_cases(sizes: &[u8]) -> Vec<QCase> {
    let mut out = Vec::new();
    for &log2 in sizes {
        for indirect in [false, true] {
            for event_idx in [false, true] {
                let n = 1usize << log2;
                let mut ops = Vec::new();
                // fill the queue completely
                if indirect {
                    if n > 1024 {
                        continue;
                    }
                    ops.extend((0..n).map(|_| Op::Add { ins: vec![1], outs: vec![] }));
                } else {
                    ops.push(Op::AddFill { extra: 0, wr: 0 });
                }
                ops.extend((0..10).map(Op::AddBoundary));
                ops.push(Op::CompleteAll { rot: 3 });
                ops.push(Op::PopAll);
                for sel in 0..10 {
                    ops.push(Op::AddBoundary(sel));
                    ops.push(Op::AvailDesc);
                    ops.push(Op::CompleteAll { rot: sel as u16 });
                    ops.push(Op::PopAll);
                }
                // one slot left
                if n > 1 {
                    if indirect {
                        ops.extend((0..n - 1).map(|_| Op::Add { ins: vec![1], outs: vec![] }));
                    } else {
                        ops.push(Op::AddFill { extra: -1, wr: 0 });
                    }
                    ops.extend((0..10).map(Op::AddBoundary));
                    ops.push(Op::CompleteAll { rot: 1 });
                    ops.push(Op::PopAll);
                }
                out.push(QCase { cfg: QCfg { log2, indirect, event_idx, ap: log2 % 2 == 1, legacy: log2 % 3 == 1, zero_share: 0 }, ops, long: None, huge: 0 });
                if log2 <= 2 && !event_idx {
                    for huge in [1u8, 2] {
                        out.push(QCase {
                            cfg: QCfg { log2, indirect, event_idx, ap: false, legacy: false, zero_share: 0 },
                            ops: vec![Op::Add { ins: vec![3], outs: vec![2] }, Op::CompleteAll { rot: 0 }, Op::PopAll],
                            long: None,
                            huge,
                        });
                    }
                }
            }
        }
    }
    out
}

pub fn case_strategy(max_ops: usize, max_log2: u8) -> impl Strategy<Value = QCase> {
    (cfg_strategy(max_log2), prop::collection::vec(op_strategy(), 0..=max_ops)).prop_map(|(cfg, ops)| QCase { cfg, ops, long: None, huge: 0 })
}

/// Explicit long runs that cross the 16-bit index wrap, for every small size and mode.
pub fn long_cases(rounds_target: u32, sizes: &[u8]) -> Vec<QCase> {
    let mut out = Vec::new();
    for &log2 in sizes {
        for m in 0..8u8 {
            for legacy in [false, true] {
                let n = 1u32 << log2;
                let batch = n.min(3) as u8;
                let bufs = if m & 1 != 0 { 3 } else { 1 + (log2 % 2) };
                out.push(QCase {
                    cfg: QCfg { log2, indirect: m & 1 != 0, event_idx: m & 2 != 0, ap: m & 4 != 0, legacy, zero_share: if m == 5 { 2 } else { 0 } },
                    ops: vec![],
                    long: Some(Long { rounds: rounds_target, batch, bufs, rot: m + 1, peek_once: legacy }),
                    huge: 0,
                });
            }
        }
    }
    out
}
