//! Reference split-virtqueue device side, written from VirtIO 1.2 §2.7 (not from the crate).

use crate::hal::HalState;

pub const F_NEXT: u16 = 1;
pub const F_WRITE: u16 = 2;
pub const F_INDIRECT: u16 = 4;

#[derive(Clone, Copy, Debug, PartialEq, Eq, Hash)]
pub struct Elem {
    pub addr: u64,
    pub len: u32,
    pub write: bool,
}

#[derive(Clone, Debug, PartialEq, Eq)]
pub struct Chain {
    pub head: u16,
    pub elems: Vec<Elem>,
    /// Descriptor-table entries occupied by the chain.
    pub desc_ids: Vec<u16>,
    /// (address, length) of the indirect table if the chain uses one.
    pub indirect: Option<(u64, u32)>,
}

impl Chain {
    pub fn readable_len(&self) -> usize {
        self.elems.iter().filter(|e| !e.write).map(|e| e.len as usize).sum()
    }
    pub fn writable_len(&self) -> usize {
        self.elems.iter().filter(|e| e.write).map(|e| e.len as usize).sum()
    }
}

#[derive(Clone, Copy, Debug, PartialEq, Eq)]
pub struct RawDesc {
    pub addr: u64,
    pub len: u32,
    pub flags: u16,
    pub next: u16,
}

#[derive(Clone, Debug)]
pub struct RefQueue {
    pub n: u32,
    pub desc: u64,
    pub avail: u64,
    pub used: u64,
    /// VIRTIO_F_INDIRECT_DESC negotiated for this queue.
    pub indirect_ok: bool,
    pub event_idx: bool,
    /// Next available-ring entry the device will fetch.
    pub next_avail: u16,
    /// The device's used index.
    pub used_idx: u16,
    /// The value this device scribbled over the available index, if any (see `scribble_avail_idx`).
    pub idx_decoy: Option<u16>,
}

impl RefQueue {
    pub fn new(n: u32, desc: u64, avail: u64, used: u64, indirect_ok: bool, event_idx: bool) -> Self {
        RefQueue { n, desc, avail, used, indirect_ok, event_idx, next_avail: 0, used_idx: 0, idx_decoy: None }
    }

    pub fn avail_flags(&self, h: &HalState) -> Result<u16, String> {
        h.rd16(self.avail)
    }
    pub fn avail_idx(&self, h: &HalState) -> Result<u16, String> {
        let raw = h.rd16(self.avail + 2)?;
        if Some(raw) == self.idx_decoy {
            // still the value this (misbehaving) device wrote there itself: nothing new
            return Ok(self.next_avail);
        }
        Ok(raw)
    }
    /// A misbehaving device overwrites the available index (which it must not write) once it has
    /// fetched everything: with its own position minus one, a value the driver will not write
    /// next. A driver that keeps its own copy simply stores the next index over it.
    pub fn scribble_avail_idx(&mut self, h: &HalState) {
        match h.rd16(self.avail + 2) {
            Ok(raw) if raw == self.next_avail => {
                let x = self.next_avail.wrapping_sub(1);
                if h.poke(self.avail + 2, &x.to_le_bytes()).is_ok() {
                    self.idx_decoy = Some(x);
                }
            }
            _ => {}
        }
    }
    pub fn avail_slot(&self, h: &HalState, i: u32) -> Result<u16, String> {
        h.rd16(self.avail + 4 + 2 * (i % self.n) as u64)
    }
    pub fn used_event(&self, h: &HalState) -> Result<u16, String> {
        h.rd16(self.avail + 4 + 2 * self.n as u64)
    }
    pub fn set_used_flags(&self, h: &HalState, v: u16) -> Result<(), String> {
        h.wr16(self.used, v)
    }
    pub fn set_avail_event(&self, h: &HalState, v: u16) -> Result<(), String> {
        h.wr16(self.used + 4 + 8 * self.n as u64, v)
    }
    pub fn pending(&self, h: &HalState) -> Result<u16, String> {
        Ok(self.avail_idx(h)?.wrapping_sub(self.next_avail))
    }

    pub fn raw_desc(&self, h: &HalState, table: u64, i: u32) -> Result<RawDesc, String> {
        let a = table + 16 * i as u64;
        let b = h.dev_read(a, 16)?;
        Ok(RawDesc {
            addr: u64::from_le_bytes(b[0..8].try_into().unwrap()),
            len: u32::from_le_bytes(b[8..12].try_into().unwrap()),
            flags: u16::from_le_bytes(b[12..14].try_into().unwrap()),
            next: u16::from_le_bytes(b[14..16].try_into().unwrap()),
        })
    }

    /// Walk and fully validate the chain starting at `head`, as a strict device would.
    pub fn read_chain(&self, h: &HalState, head: u16) -> Result<Chain, String> {
        if head as u32 >= self.n {
            return Err(format!("head index {} out of range (queue size {})", head, self.n));
        }
        let mut elems = Vec::new();
        let mut ids = Vec::new();
        let mut indirect = None;
        let mut i = head as u32;
        let mut seen_write = false;
        loop {
            if ids.len() as u32 >= self.n {
                return Err(format!("descriptor chain from head {} is longer than the queue (cycle)", head));
            }
            let d = self.raw_desc(h, self.desc, i)?;
            ids.push(i as u16);
            if d.flags & !(F_NEXT | F_WRITE | F_INDIRECT) != 0 {
                return Err(format!("descriptor {} has unknown flags {:#x}", i, d.flags));
            }
            if d.flags & F_INDIRECT != 0 {
                if !self.indirect_ok {
                    return Err(format!("descriptor {} is INDIRECT but the feature was not negotiated for this queue", i));
                }
                if d.flags & (F_NEXT | F_WRITE) != 0 {
                    return Err(format!("INDIRECT descriptor {} also has flags {:#x}", i, d.flags));
                }
                if !elems.is_empty() {
                    return Err(format!("INDIRECT descriptor {} in the middle of a direct chain", i));
                }
                if d.len == 0 || d.len % 16 != 0 {
                    return Err(format!("indirect table length {} is not a non-zero multiple of 16", d.len));
                }
                let cnt = d.len / 16;
                indirect = Some((d.addr, d.len));
                let mut j = 0u32;
                let mut steps = 0;
                loop {
                    if steps >= cnt {
                        return Err("indirect chain loops".into());
                    }
                    steps += 1;
                    let e = self.raw_desc(h, d.addr, j).map_err(|m| format!("indirect table: {}", m))?;
                    if e.flags & F_INDIRECT != 0 {
                        return Err(format!("nested INDIRECT in table entry {}", j));
                    }
                    if e.flags & !(F_NEXT | F_WRITE) != 0 {
                        return Err(format!("indirect entry {} has unknown flags {:#x}", j, e.flags));
                    }
                    let wr = e.flags & F_WRITE != 0;
                    if seen_write && !wr {
                        return Err(format!("device-readable indirect entry {} after a device-writable one", j));
                    }
                    seen_write |= wr;
                    if e.len == 0 {
                        return Err(format!("indirect entry {} has zero length", j));
                    }
                    h.translate(e.addr, e.len as usize, wr).map_err(|m| format!("indirect entry {}: {}", j, m))?;
                    elems.push(Elem { addr: e.addr, len: e.len, write: wr });
                    if e.flags & F_NEXT == 0 {
                        break;
                    }
                    if e.next as u32 >= cnt {
                        return Err(format!("indirect entry {} has next={} outside the table of {}", j, e.next, cnt));
                    }
                    j = e.next as u32;
                }
                break;
            }
            let wr = d.flags & F_WRITE != 0;
            if seen_write && !wr {
                return Err(format!("device-readable descriptor {} after a device-writable one", i));
            }
            seen_write |= wr;
            if d.len == 0 {
                return Err(format!("descriptor {} has zero length", i));
            }
            h.translate(d.addr, d.len as usize, wr).map_err(|m| format!("descriptor {}: {}", i, m))?;
            elems.push(Elem { addr: d.addr, len: d.len, write: wr });
            if d.flags & F_NEXT == 0 {
                break;
            }
            if d.next as u32 >= self.n {
                return Err(format!("descriptor {} has next={} out of range", i, d.next));
            }
            i = d.next as u32;
        }
        Ok(Chain { head, elems, desc_ids: ids, indirect })
    }

    /// Fetch the next available chain, if any.
    pub fn fetch(&mut self, h: &HalState) -> Result<Option<Chain>, String> {
        let idx = self.avail_idx(h)?;
        if idx == self.next_avail {
            return Ok(None);
        }
        if idx.wrapping_sub(self.next_avail) as u32 > self.n {
            return Err(format!(
                "available index {} is more than the queue size ahead of the device's position {}",
                idx, self.next_avail
            ));
        }
        let head = self.avail_slot(h, self.next_avail as u32)?;
        let c = self.read_chain(h, head)?;
        self.next_avail = self.next_avail.wrapping_add(1);
        Ok(Some(c))
    }

    /// Write a used element and publish it. Returns whether a spec-following device would send
    /// an interrupt for it.
    pub fn push_used(&mut self, h: &HalState, id: u32, len: u32) -> Result<bool, String> {
        let slot = self.used + 4 + 8 * (self.used_idx as u32 % self.n) as u64;
        h.wr32(slot, id)?;
        h.wr32(slot + 4, len)?;
        let old = self.used_idx;
        self.used_idx = self.used_idx.wrapping_add(1);
        std::sync::atomic::fence(std::sync::atomic::Ordering::SeqCst);
        h.wr16(self.used + 2, self.used_idx)?;
        let irq = if self.event_idx {
            let ev = self.used_event(h)?;
            need_event(ev, self.used_idx, old)
        } else {
            self.avail_flags(h)? & 1 == 0
        };
        Ok(irq)
    }

    /// Scatter `data` over the writable elements; returns the bytes written.
    pub fn write_chain(&self, h: &HalState, c: &Chain, data: &[u8]) -> Result<usize, String> {
        let mut off = 0;
        for e in c.elems.iter().filter(|e| e.write) {
            if off >= data.len() {
                break;
            }
            let n = (e.len as usize).min(data.len() - off);
            h.dev_write(e.addr, &data[off..off + n])?;
            off += n;
        }
        Ok(off)
    }

    /// Gather all device-readable bytes.
    pub fn read_chain_data(&self, h: &HalState, c: &Chain) -> Result<Vec<u8>, String> {
        let mut v = Vec::new();
        for e in c.elems.iter().filter(|e| !e.write) {
            v.extend_from_slice(&h.dev_read(e.addr, e.len as usize)?);
        }
        Ok(v)
    }
}

/// `vring_need_event` from the specification.
pub fn need_event(event: u16, new: u16, old: u16) -> bool {
    new.wrapping_sub(event).wrapping_sub(1) < new.wrapping_sub(old)
}
