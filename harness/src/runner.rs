//! Case generation driver (proptest from a binary), statistics, evidence and replay files.

use proptest::strategy::Strategy;
use proptest::test_runner::{Config, RngSeed, TestCaseError, TestError, TestRunner};
use serde_json::{json, Value};
use std::cell::RefCell;
use std::collections::{BTreeMap, HashSet};
use std::panic::{catch_unwind, AssertUnwindSafe};
use std::sync::atomic::{AtomicBool, Ordering};
use std::sync::Mutex;

#[derive(Clone, Copy, PartialEq, Eq, Debug)]
pub enum Tier {
    Quick,
    Thorough,
}

impl Tier {
    pub fn name(self) -> &'static str {
        match self {
            Tier::Quick => "quick",
            Tier::Thorough => "thorough",
        }
    }
}

#[derive(Clone)]
pub struct Ctx {
    pub id: String,
    pub tier: Tier,
    pub seed: u64,
    pub profile: &'static str,
    pub threads: usize,
    pub root: String,
}

impl Ctx {
    pub fn quick(&self) -> bool {
        self.tier == Tier::Quick
    }
    /// Pick a count by tier.
    pub fn n(&self, quick: u64, thorough: u64) -> u64 {
        if self.quick() {
            quick
        } else {
            thorough
        }
    }
}

#[derive(Default, Clone)]
pub struct Stats {
    pub evals: u64,
    pub sigs: HashSet<u64>,
    pub classes: BTreeMap<String, u64>,
    pub samples: Vec<Value>,
    pub discarded: u64,
    pub known_excluded: u64,
    pub known_hits: BTreeMap<String, u64>,
}

impl Stats {
    pub fn class(&mut self, name: &str) {
        *self.classes.entry(name.to_string()).or_insert(0) += 1;
    }
    pub fn class_n(&mut self, name: &str, n: u64) {
        *self.classes.entry(name.to_string()).or_insert(0) += n;
    }
    pub fn nontrivial(&mut self, sig: u64, sample: impl FnOnce() -> Value) {
        if self.sigs.insert(sig) && self.samples.len() < 4 {
            self.samples.push(sample());
        }
    }
    pub fn merge(&mut self, o: Stats) {
        self.evals += o.evals;
        self.discarded += o.discarded;
        self.known_excluded += o.known_excluded;
        for s in o.sigs {
            self.sigs.insert(s);
        }
        for (k, v) in o.classes {
            *self.classes.entry(k).or_insert(0) += v;
        }
        for (k, v) in o.known_hits {
            *self.known_hits.entry(k).or_insert(0) += v;
        }
        for s in o.samples {
            if self.samples.len() < 5 {
                self.samples.push(s);
            }
        }
    }
}

#[derive(Clone, Debug)]
pub struct Failure {
    pub msg: String,
    pub engine: String,
    pub case: Value,
}

/// FNV-1a style hash used for shape signatures (deterministic across runs).
#[derive(Clone, Copy)]
pub struct Sig(pub u64);
impl Sig {
    pub fn new() -> Self {
        Sig(0xcbf29ce484222325)
    }
    pub fn add(&mut self, v: u64) -> &mut Self {
        for b in v.to_le_bytes() {
            self.0 ^= b as u64;
            self.0 = self.0.wrapping_mul(0x100000001b3);
        }
        self
    }
    pub fn get(&self) -> u64 {
        self.0
    }
}

// ---------------------------------------------------------------------------------------------
// panic capture

#[derive(Clone, Debug, Default)]
pub struct PanicInfo {
    pub msg: String,
    pub file: String,
    pub line: u32,
}

impl PanicInfo {
    pub fn in_repo(&self) -> bool {
        self.file.contains("/repo/src/") || self.file.starts_with("src/")
    }
    pub fn is_overflow(&self) -> bool {
        self.msg.contains("attempt to") && self.msg.contains("overflow")
    }
    pub fn render(&self) -> String {
        format!("panic at {}:{}: {}", self.file, self.line, self.msg)
    }
}

thread_local! {
    static QUIET: RefCell<bool> = const { RefCell::new(false) };
    static LAST_PANIC: RefCell<Option<PanicInfo>> = const { RefCell::new(None) };
}

pub fn install_panic_hook() {
    let default = std::panic::take_hook();
    std::panic::set_hook(Box::new(move |info| {
        let quiet = QUIET.with(|q| *q.borrow());
        let msg = if let Some(s) = info.payload().downcast_ref::<&str>() {
            s.to_string()
        } else if let Some(s) = info.payload().downcast_ref::<String>() {
            s.clone()
        } else {
            "<non-string payload>".to_string()
        };
        let (file, line) = info
            .location()
            .map(|l| (l.file().to_string(), l.line()))
            .unwrap_or_default();
        LAST_PANIC.with(|p| *p.borrow_mut() = Some(PanicInfo { msg, file, line }));
        if !quiet {
            default(info);
        }
    }));
}

pub fn set_quiet(q: bool) {
    QUIET.with(|c| *c.borrow_mut() = q);
}

pub enum Caught<R> {
    Ok(R),
    Panic(PanicInfo),
    Escape(crate::world::Escape),
}

/// Run driver code, catching panics and typed escapes.
pub fn guard<R>(f: impl FnOnce() -> R) -> Caught<R> {
    LAST_PANIC.with(|p| *p.borrow_mut() = None);
    let was = QUIET.with(|q| std::mem::replace(&mut *q.borrow_mut(), true));
    let r = catch_unwind(AssertUnwindSafe(f));
    QUIET.with(|q| *q.borrow_mut() = was);
    match r {
        Ok(r) => Caught::Ok(r),
        Err(payload) => {
            if let Some(e) = payload.downcast_ref::<crate::world::Escape>() {
                return Caught::Escape(e.clone());
            }
            let info = LAST_PANIC.with(|p| p.borrow_mut().take()).unwrap_or_default();
            Caught::Panic(info)
        }
    }
}

// ---------------------------------------------------------------------------------------------
// proptest driver

static STOP: AtomicBool = AtomicBool::new(false);

pub fn stop_requested() -> bool {
    STOP.load(Ordering::Relaxed)
}

const STACK: usize = 1 << 30;

/// Run `cases_total` generated cases over `ctx.threads` workers. `check` returns `Err(msg)` on a
/// violation. The first failure is shrunk by its worker and returned.
pub fn run_proptest<C, S, F, G>(
    ctx: &Ctx,
    engine: &str,
    salt: u64,
    cases_total: u64,
    strat_fn: G,
    check: F,
) -> (Stats, Option<Failure>)
where
    C: std::fmt::Debug + serde::Serialize + Clone,
    S: Strategy<Value = C>,
    G: Fn() -> S + Sync,
    F: Fn(&C, &mut Stats) -> Result<(), String> + Sync,
{
    let threads = ctx.threads.max(1);
    let per = (cases_total + threads as u64 - 1) / threads as u64;
    let total = Mutex::new(Stats::default());
    let failure: Mutex<Option<Failure>> = Mutex::new(None);
    std::thread::scope(|sc| {
        for t in 0..threads {
            let total = &total;
            let failure = &failure;
            let check = &check;
            let strat_fn = &strat_fn;
            let seed = ctx.seed;
            std::thread::Builder::new()
                .stack_size(STACK)
                .spawn_scoped(sc, move || {
                    crate::world::install_hooks();
                    crate::allocguard::set_active(true);
                    let mut cfg = Config::default();
                    cfg.cases = per as u32;
                    cfg.failure_persistence = None;
                    cfg.rng_seed = RngSeed::Fixed(
                        seed.wrapping_mul(0x9e3779b97f4a7c15)
                            ^ (t as u64 + 1).wrapping_mul(0xd1b54a32d192ed03)
                            ^ salt.wrapping_mul(0x2545f4914f6cdd1d),
                    );
                    cfg.max_shrink_iters = 3000;
                    cfg.max_global_rejects = 1_000_000;
                    cfg.verbose = 0;
                    let mut runner = TestRunner::new(cfg);
                    let stats = RefCell::new(Stats::default());
                    let failed = std::cell::Cell::new(false);
                    let strat = strat_fn();
                    let res = runner.run(&strat, |c| {
                        if failed.get() {
                            // shrinking: evaluate without counting
                            let mut scratch = Stats::default();
                            return check(&c, &mut scratch).map_err(TestCaseError::fail);
                        }
                        if stop_requested() {
                            return Ok(());
                        }
                        let mut st = stats.borrow_mut();
                        st.evals += 1;
                        match check(&c, &mut st) {
                            Ok(()) => Ok(()),
                            Err(m) => {
                                failed.set(true);
                                STOP.store(true, Ordering::Relaxed);
                                Err(TestCaseError::fail(m))
                            }
                        }
                    });
                    crate::world::reset();
                    total.lock().unwrap().merge(stats.into_inner());
                    match res {
                        Ok(()) => {}
                        Err(TestError::Fail(reason, c)) => {
                            let mut f = failure.lock().unwrap();
                            if f.is_none() {
                                *f = Some(Failure {
                                    msg: reason.message().to_string(),
                                    engine: engine.to_string(),
                                    case: serde_json::to_value(&c).unwrap_or(Value::Null),
                                });
                            }
                        }
                        Err(TestError::Abort(r)) => {
                            eprintln!("[{}] generator aborted: {}", engine, r.message());
                            std::process::exit(2);
                        }
                    }
                })
                .unwrap();
        }
    });
    STOP.store(false, Ordering::Relaxed);
    (total.into_inner().unwrap(), failure.into_inner().unwrap())
}

/// Run an explicit list of work items in parallel (exhaustive grids). Stops at the first failure.
pub fn run_items<I, F>(ctx: &Ctx, engine: &str, items: Vec<I>, check: F) -> (Stats, Option<Failure>)
where
    I: Sync + serde::Serialize,
    F: Fn(&I, &mut Stats) -> Result<(), String> + Sync,
{
    let threads = ctx.threads.max(1);
    let total = Mutex::new(Stats::default());
    let failure: Mutex<Option<(usize, Failure)>> = Mutex::new(None);
    let next = std::sync::atomic::AtomicUsize::new(0);
    std::thread::scope(|sc| {
        for _ in 0..threads {
            let (total, failure, check, items, next) = (&total, &failure, &check, &items, &next);
            std::thread::Builder::new()
                .stack_size(STACK)
                .spawn_scoped(sc, move || {
                    crate::world::install_hooks();
                    crate::allocguard::set_active(true);
                    let mut st = Stats::default();
                    loop {
                        let i = next.fetch_add(1, Ordering::Relaxed);
                        if i >= items.len() || stop_requested() {
                            break;
                        }
                        st.evals += 1;
                        if let Err(m) = check(&items[i], &mut st) {
                            STOP.store(true, Ordering::Relaxed);
                            let mut f = failure.lock().unwrap();
                            if f.as_ref().map(|(j, _)| i < *j).unwrap_or(true) {
                                *f = Some((
                                    i,
                                    Failure {
                                        msg: m,
                                        engine: engine.to_string(),
                                        case: serde_json::to_value(&items[i]).unwrap_or(Value::Null),
                                    },
                                ));
                            }
                            break;
                        }
                    }
                    crate::world::reset();
                    total.lock().unwrap().merge(st);
                })
                .unwrap();
        }
    });
    STOP.store(false, Ordering::Relaxed);
    (total.into_inner().unwrap(), failure.into_inner().unwrap().map(|(_, f)| f))
}

// ---------------------------------------------------------------------------------------------
// replay files, evidence parts

pub fn write_replay(ctx: &Ctx, f: &Failure) -> String {
    let dir = format!("{}/replays", ctx.root);
    let _ = std::fs::create_dir_all(&dir);
    let body = json!({
        "property": ctx.id,
        "engine": f.engine,
        "profile": ctx.profile,
        "seed": ctx.seed,
        "message": f.msg,
        "case": f.case,
    });
    let text = serde_json::to_string_pretty(&body).unwrap();
    let mut s = Sig::new();
    for b in text.bytes() {
        s.add(b as u64);
    }
    let path = format!("{}/{}-{}-{:08x}.json", dir, ctx.id, f.engine, s.get() as u32);
    std::fs::write(&path, text).unwrap();
    path
}

pub struct Report {
    pub stats: Stats,
    pub failure: Option<Failure>,
    pub info: PartInfo<'static>,
}

pub struct PartInfo<'a> {
    pub level: &'a str,
    pub rule: &'a str,
    pub assumptions: Vec<String>,
    pub exhaustive: bool,
    pub extra: Value,
}

pub fn write_part(ctx: &Ctx, ext_seed: u64, stats: &Stats, info: &PartInfo, wall_s: f64, violations: u64) {
    let dir = format!("{}/evidence/.parts", ctx.root);
    let _ = std::fs::create_dir_all(&dir);
    let mut sigs: Vec<String> = stats.sigs.iter().map(|s| format!("{:x}", s)).collect();
    sigs.sort();
    let body = json!({
        "property_id": ctx.id,
        "tier": ctx.tier.name(),
        "seed": ext_seed,
        "profile": ctx.profile,
        "level": info.level,
        "rule": info.rule,
        "assumptions": info.assumptions,
        "exhaustive": info.exhaustive,
        "extra": info.extra,
        "evaluations": stats.evals,
        "discarded": stats.discarded,
        "known_excluded": stats.known_excluded,
        "known_hits": stats.known_hits,
        "classes": stats.classes,
        "samples": stats.samples,
        "sigs": sigs,
        "wall_s": wall_s,
        "violations": violations,
    });
    let path = format!("{}/{}.{}.json", dir, ctx.id, ctx.profile);
    std::fs::write(path, serde_json::to_string(&body).unwrap()).unwrap();
}

/// Merge the per-profile parts of one property into `evidence/<id>.json`.
pub fn merge_parts(root: &str, id: &str, profiles: &[&str]) -> Result<(), String> {
    let mut evals = 0u64;
    let mut sigs: HashSet<String> = HashSet::new();
    let mut classes: BTreeMap<String, u64> = BTreeMap::new();
    let mut samples: Vec<Value> = Vec::new();
    let mut wall = 0f64;
    let mut violations = 0u64;
    let mut discarded = 0u64;
    let mut known_excluded = 0u64;
    let mut known_hits: BTreeMap<String, u64> = BTreeMap::new();
    let mut first: Option<Value> = None;
    let mut exhaustive = true;
    let mut per_profile = serde_json::Map::new();
    for p in profiles {
        let path = format!("{}/evidence/.parts/{}.{}.json", root, id, p);
        let text = std::fs::read_to_string(&path).map_err(|e| format!("{}: {}", path, e))?;
        let v: Value = serde_json::from_str(&text).map_err(|e| e.to_string())?;
        evals += v["evaluations"].as_u64().unwrap_or(0);
        discarded += v["discarded"].as_u64().unwrap_or(0);
        known_excluded += v["known_excluded"].as_u64().unwrap_or(0);
        wall += v["wall_s"].as_f64().unwrap_or(0.0);
        violations += v["violations"].as_u64().unwrap_or(0);
        exhaustive &= v["exhaustive"].as_bool().unwrap_or(false);
        for s in v["sigs"].as_array().cloned().unwrap_or_default() {
            sigs.insert(format!("{}", s.as_str().unwrap_or("")));
        }
        if let Some(o) = v["classes"].as_object() {
            for (k, n) in o {
                *classes.entry(k.clone()).or_insert(0) += n.as_u64().unwrap_or(0);
            }
        }
        if let Some(o) = v["known_hits"].as_object() {
            for (k, n) in o {
                *known_hits.entry(k.clone()).or_insert(0) += n.as_u64().unwrap_or(0);
            }
        }
        for s in v["samples"].as_array().cloned().unwrap_or_default() {
            if samples.len() < 6 {
                samples.push(s);
            }
        }
        per_profile.insert(
            p.to_string(),
            json!({"evaluations": v["evaluations"], "wall_s": v["wall_s"], "violations": v["violations"]}),
        );
        if first.is_none() {
            first = Some(v);
        }
    }
    let f = first.ok_or("no parts")?;
    let mut coverage = serde_json::Map::new();
    coverage.insert("evaluations".into(), json!(evals));
    coverage.insert("distinct_nontrivial".into(), json!(sigs.len()));
    coverage.insert("rule".into(), f["rule"].clone());
    coverage.insert("samples".into(), Value::Array(samples));
    coverage.insert("exhaustive".into(), json!(exhaustive));
    coverage.insert("classes".into(), json!(classes));
    coverage.insert("discarded_cases".into(), json!(discarded));
    coverage.insert("excluded_by_known_findings".into(), json!(known_excluded));
    coverage.insert("known_finding_hits".into(), json!(known_hits));
    coverage.insert("profiles".into(), Value::Object(per_profile));
    if let Some(o) = f["extra"].as_object() {
        for (k, v) in o {
            coverage.insert(k.clone(), v.clone());
        }
    }
    let ev = json!({
        "property_id": id,
        "tier": f["tier"],
        "seed": f["seed"],
        "level": f["level"],
        "coverage": Value::Object(coverage),
        "assumptions": f["assumptions"],
        "wall_s": wall,
        "violations": violations,
    });
    let path = format!("{}/evidence/{}.json", root, id);
    std::fs::write(&path, serde_json::to_string_pretty(&ev).unwrap()).map_err(|e| e.to_string())?;
    Ok(())
}

// ---------------------------------------------------------------------------------------------
// known findings

#[derive(Clone, Debug)]
pub struct Known {
    pub property: String,
    pub key: String,
    pub status: String,
    pub what: String,
}

pub fn load_known(root: &str) -> Vec<Known> {
    let path = format!("{}/known_findings.json", root);
    let Ok(text) = std::fs::read_to_string(&path) else {
        return vec![];
    };
    let v: Value = serde_json::from_str(&text).expect("known_findings.json is not valid JSON");
    let mut out = vec![];
    for e in v["findings"].as_array().cloned().unwrap_or_default() {
        out.push(Known {
            property: e["property"].as_str().unwrap_or("").to_string(),
            key: e["key"].as_str().unwrap_or("").to_string(),
            status: e["status"].as_str().unwrap_or("").to_string(),
            what: e["what"].as_str().unwrap_or("").to_string(),
        });
    }
    out
}

pub fn known_open(known: &[Known], property: &str, key: &str) -> bool {
    known.iter().any(|k| k.property == property && k.key == key && k.status == "open")
}
