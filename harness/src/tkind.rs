//! Building any of the transports (model, real MMIO legacy/modern, real PCI) on the emulated
//! device of the current world, with generic dispatch.

use crate::dev::MTransport;
use crate::{mmio_dev, pci_dev};
use serde::{Deserialize, Serialize};
use virtio_drivers::transport::Transport;

#[derive(Clone, Copy, Debug, PartialEq, Eq, Serialize, Deserialize, Hash, PartialOrd, Ord)]
pub enum TK {
    Model,
    ModelLegacy,
    MmioLegacy,
    MmioModern,
    Pci,
}

pub const ALL_TK: [TK; 5] = [TK::Model, TK::ModelLegacy, TK::MmioLegacy, TK::MmioModern, TK::Pci];

impl TK {
    pub fn legacy(self) -> bool {
        matches!(self, TK::ModelLegacy | TK::MmioLegacy)
    }
    pub fn has_generation(self) -> bool {
        !matches!(self, TK::MmioLegacy)
    }
}

/// A computation generic over the transport type.
pub trait WithT {
    type Out;
    fn call<T: Transport + 'static>(self, t: T) -> Self::Out;
}

/// Install the device front end for `kind` in the current world (device type, config window of
/// `cfg_len` bytes) and run `f` with a freshly probed transport.
pub fn with_transport<W: WithT>(kind: TK, dtype: u32, cfg_len: usize, f: W) -> Result<W::Out, String> {
    crate::world::with(|w| {
        w.dev.dtype = dtype;
        if w.dev.config.len() < cfg_len {
            w.dev.config.resize(cfg_len, 0);
        }
    });
    match kind {
        TK::Model | TK::ModelLegacy => {
            crate::world::with(|w| w.dev.legacy = kind == TK::ModelLegacy);
            Ok(f.call(MTransport::new()))
        }
        TK::MmioLegacy | TK::MmioModern => {
            let version = if kind == TK::MmioLegacy { 1 } else { 2 };
            mmio_dev::install(version, dtype, 0x100 + cfg_len as u64);
            let t = mmio_dev::transport(0x100 + cfg_len).map_err(|e| format!("MMIO probe failed: {:?}", e))?;
            crate::world::with(|w| w.bus.trace.clear());
            Ok(f.call(t))
        }
        TK::Pci => {
            // a device without configuration fields has no device-configuration capability
            pci_dev::install_std(dtype, cfg_len as u32, cfg_len >= 4);
            let t = pci_dev::std_transport().map_err(|e| format!("PCI transport construction failed: {:?}", e))?;
            crate::world::with(|w| {
                w.bus.trace.clear();
                if let Some(p) = w.pci.as_mut() {
                    p.log.clear();
                }
            });
            Ok(f.call(t))
        }
    }
}
