//! The per-thread simulated world: platform layer (Hal ledger), device-side transport state,
//! MMIO bus and the currently installed device model.

use crate::bus::Bus;
use crate::dev::DevCore;
use crate::hal::HalState;
use std::cell::RefCell;
use virtio_drivers::verif_hooks::{Point, SpinSite};

/// A violation detected by the substrate (ledger, bus, scheduler), tagged with the property it
/// belongs to.
#[derive(Clone, Debug)]
pub struct Fault {
    pub prop: &'static str,
    pub msg: String,
    /// device address the fault is about, if any
    pub addr: u64,
}

/// What the spin/store hook should do once the device model has run.
pub enum HookAction {
    Continue,
    /// Unwind out of the driver with the given payload (caught by the harness).
    Unwind(Escape),
}

/// Typed unwinding payloads used to leave a blocking driver call.
#[derive(Clone, Debug)]
pub enum Escape {
    /// The driver waits for a device that was never told about the request.
    LostWakeup(String),
    /// The device has nothing more to give; the wait can never end through no fault of the driver.
    Starved(String),
    /// Safety net: spin budget exhausted.
    SpinBudget(String),
}

pub trait DeviceModel {
    fn on_notify(&mut self, _w: &mut World, _q: u16) {}
    fn on_point(&mut self, _w: &mut World, _p: Point) -> HookAction {
        HookAction::Continue
    }
    /// Called before a config-space read (or generation read when `off == usize::MAX`) is served.
    fn on_config_access(&mut self, _w: &mut World, _off: usize, _len: usize, _write: bool) {}
    fn on_status(&mut self, _w: &mut World, _old: u32, _new: u32) {}
}

pub struct World {
    pub hal: HalState,
    pub dev: DevCore,
    pub bus: Bus,
    pub mmio: Option<crate::mmio_dev::MmioModel>,
    pub pci: Option<crate::pci_dev::PciBus>,
    pub vp: Option<crate::pci_dev::VpModel>,
    pub model: Option<Box<dyn DeviceModel>>,
    pub faults: Vec<Fault>,
    /// Count of spin-hook calls in the current driver call (safety net).
    pub spins: u64,
    pub spin_limit: u64,
}

impl World {
    pub fn new() -> Self {
        World {
            hal: HalState::new(),
            dev: DevCore::new(),
            bus: Bus::new(),
            mmio: None,
            pci: None,
            vp: None,
            model: None,
            faults: Vec::new(),
            spins: 0,
            spin_limit: 2_000_000,
        }
    }

    pub fn fault(&mut self, prop: &'static str, msg: impl Into<String>) {
        if self.faults.len() < 64 {
            self.faults.push(Fault {
                prop,
                msg: msg.into(),
                addr: 0,
            });
        }
    }

    pub fn fault_at(&mut self, prop: &'static str, msg: impl Into<String>, addr: u64) {
        if self.faults.len() < 64 {
            self.faults.push(Fault { prop, msg: msg.into(), addr });
        }
    }
}

thread_local! {
    pub static WORLD: RefCell<World> = RefCell::new(World::new());
}

pub fn with<R>(f: impl FnOnce(&mut World) -> R) -> R {
    WORLD.with(|w| f(&mut w.borrow_mut()))
}

/// Start a fresh world (frees all memory of the previous one).
pub fn reset() {
    let old = with(|w| std::mem::replace(w, World::new()));
    drop(old);
}

pub fn set_model(m: Box<dyn DeviceModel>) {
    with(|w| w.model = Some(m));
}

pub fn take_faults() -> Vec<Fault> {
    with(|w| std::mem::take(&mut w.faults))
}

pub fn first_fault() -> Option<Fault> {
    with(|w| w.faults.first().cloned())
}

/// Run `f` with the device model temporarily taken out of the world.
pub fn call_model<R: Default>(f: impl FnOnce(&mut dyn DeviceModel, &mut World) -> R) -> R {
    WORLD.with(|w| {
        let mut w = w.borrow_mut();
        let Some(mut m) = w.model.take() else {
            return R::default();
        };
        let r = f(m.as_mut(), &mut w);
        if w.model.is_none() {
            w.model = Some(m);
        }
        r
    })
}

impl Default for HookAction {
    fn default() -> Self {
        HookAction::Continue
    }
}

/// The function installed into `virtio_drivers::verif_hooks`.
pub fn hook_entry(p: Point) {
    let action = WORLD.with(|w| {
        let mut w = w.borrow_mut();
        if let Point::Spin(site) = p {
            w.spins += 1;
            if w.spins > w.spin_limit {
                return HookAction::Unwind(Escape::SpinBudget(format!("{:?}", site)));
            }
        }
        let Some(mut m) = w.model.take() else {
            return HookAction::Continue;
        };
        let r = m.on_point(&mut w, p);
        if w.model.is_none() {
            w.model = Some(m);
        }
        r
    });
    if let HookAction::Unwind(e) = action {
        std::panic::panic_any(e);
    }
}

pub fn install_hooks() {
    virtio_drivers::verif_hooks::set(hook_entry);
}

pub fn site_name(s: SpinSite) -> &'static str {
    match s {
        SpinSite::QueueAddNotifyWaitPop => "add_notify_wait_pop",
        SpinSite::NetReceiveWait => "receive_wait",
        SpinSite::SoundPcmXfer => "pcm_xfer",
        SpinSite::ConsoleWaitForReceive => "wait_for_receive",
        SpinSite::VsockWaitForEvent => "wait_for_event",
    }
}
